package main

import (
	"encoding/hex"
	"go/ast"
	"go/constant"
	"go/token"
	"go/types"
	"sort"
	"strings"

	"golang.org/x/tools/go/ssa"
)

// A key family is a package-level []byte prefix variable, identified by module + its byte value.
// id: "<module>:<hex>", e.g. "crosschain:24", "erc20:04", "crosschain:256c617374547850...".
type Family struct {
	ID    string
	Pkg   string // package path
	Var   string // variable name (display only)
	Bytes []byte
}

type famTable struct {
	byGlobal map[*types.Var]*Family
	byID     map[string]*Family
	retFam   map[*ssa.Function]map[string]bool // key constructor summaries
	inProg   map[*ssa.Function]bool
}

func moduleOfPkg(path string) string {
	s := ShortPkg(path)
	s = strings.TrimPrefix(s, "x/")
	if i := strings.Index(s, "/"); i >= 0 {
		s = s[:i]
	}
	if !strings.HasPrefix(path, ModPath) {
		// dependency: last two elements, e.g. sdk staking -> "sdk-staking"
		parts := strings.Split(path, "/")
		if len(parts) >= 2 {
			return "dep-" + parts[len(parts)-2]
		}
		return "dep-" + path
	}
	return s
}

func (e *Engine) families() *famTable {
	if e.fams != nil {
		return e.fams
	}
	ft := &famTable{byGlobal: map[*types.Var]*Family{}, byID: map[string]*Family{}, retFam: map[*ssa.Function]map[string]bool{}, inProg: map[*ssa.Function]bool{}}
	e.fams = ft
	// pass 1: collect specs; resolve iteratively (append(X, ...) refers to other globals)
	type spec struct {
		pkg  string
		info *types.Info
		name *ast.Ident
		val  ast.Expr
	}
	var specs []spec
	for _, p := range e.Pkgs {
		for _, f := range p.Syntax {
			for _, d := range f.Decls {
				gd, ok := d.(*ast.GenDecl)
				if !ok || gd.Tok != token.VAR {
					continue
				}
				for _, s := range gd.Specs {
					vs := s.(*ast.ValueSpec)
					if len(vs.Values) != len(vs.Names) {
						continue
					}
					for i, n := range vs.Names {
						obj, _ := p.TypesInfo.Defs[n].(*types.Var)
						if obj == nil {
							continue
						}
						if sl, ok := obj.Type().Underlying().(*types.Slice); !ok || !isByte(sl.Elem()) {
							continue
						}
						specs = append(specs, spec{p.PkgPath, p.TypesInfo, n, vs.Values[i]})
					}
				}
			}
		}
	}
	var eval func(info *types.Info, x ast.Expr) ([]byte, bool)
	eval = func(info *types.Info, x ast.Expr) ([]byte, bool) {
		x = ast.Unparen(x)
		switch v := x.(type) {
		case *ast.CompositeLit:
			var out []byte
			for _, el := range v.Elts {
				tv := info.Types[el]
				if tv.Value == nil {
					return nil, false
				}
				n, ok := constant.Int64Val(constant.ToInt(tv.Value))
				if !ok {
					return nil, false
				}
				out = append(out, byte(n))
			}
			return out, true
		case *ast.Ident, *ast.SelectorExpr:
			var id *ast.Ident
			if s, ok := v.(*ast.SelectorExpr); ok {
				id = s.Sel
			} else {
				id = v.(*ast.Ident)
			}
			if gv, ok := info.Uses[id].(*types.Var); ok {
				if f := ft.byGlobal[gv]; f != nil {
					return append([]byte{}, f.Bytes...), true
				}
			}
			return nil, false
		case *ast.CallExpr:
			// append(X, []byte("str")...) | []byte("str") | collections.NewPrefix(n)
			if id, ok := v.Fun.(*ast.Ident); ok && id.Name == "append" && len(v.Args) >= 2 {
				base, ok := eval(info, v.Args[0])
				if !ok {
					return nil, false
				}
				for _, a := range v.Args[1:] {
					b, ok := eval(info, a)
					if !ok {
						return nil, false
					}
					base = append(base, b...)
				}
				return base, true
			}
			if tv, ok := info.Types[v.Fun]; ok && tv.IsType() && len(v.Args) == 1 {
				if av := info.Types[v.Args[0]]; av.Value != nil && av.Value.Kind() == constant.String {
					return []byte(constant.StringVal(av.Value)), true
				}
			}
			if se, ok := v.Fun.(*ast.SelectorExpr); ok && se.Sel.Name == "NewPrefix" && len(v.Args) == 1 {
				if av := info.Types[v.Args[0]]; av.Value != nil {
					if n, ok := constant.Int64Val(constant.ToInt(av.Value)); ok {
						return []byte{byte(n)}, true
					}
				}
			}
		}
		return nil, false
	}
	for round := 0; round < 4; round++ {
		for _, s := range specs {
			obj := s.info.Defs[s.name].(*types.Var)
			if ft.byGlobal[obj] != nil {
				continue
			}
			if b, ok := eval(s.info, s.val); ok && len(b) > 0 && len(b) <= 40 {
				f := &Family{Pkg: s.pkg, Var: s.name.Name, Bytes: b}
				f.ID = moduleOfPkg(s.pkg) + ":" + hex.EncodeToString(b)
				ft.byGlobal[obj] = f
				if _, dup := ft.byID[f.ID]; !dup {
					ft.byID[f.ID] = f
				}
			}
		}
	}
	// collections.Prefix-typed globals (gov CustomParamsKey etc.)
	for _, p := range e.Pkgs {
		for _, f := range p.Syntax {
			for _, d := range f.Decls {
				gd, ok := d.(*ast.GenDecl)
				if !ok || gd.Tok != token.VAR {
					continue
				}
				for _, s := range gd.Specs {
					vs := s.(*ast.ValueSpec)
					if len(vs.Values) != len(vs.Names) {
						continue
					}
					for i, n := range vs.Names {
						obj, _ := p.TypesInfo.Defs[n].(*types.Var)
						if obj == nil || ft.byGlobal[obj] != nil {
							continue
						}
						if !strings.HasSuffix(obj.Type().String(), "collections.Prefix") {
							continue
						}
						if b, ok := eval(p.TypesInfo, vs.Values[i]); ok {
							fm := &Family{Pkg: p.PkgPath, Var: n.Name, Bytes: b}
							fm.ID = moduleOfPkg(p.PkgPath) + ":" + hex.EncodeToString(b)
							ft.byGlobal[obj] = fm
							if _, dup := ft.byID[fm.ID]; !dup {
								ft.byID[fm.ID] = fm
							}
						}
					}
				}
			}
		}
	}
	return ft
}

func isByte(t types.Type) bool {
	b, ok := t.Underlying().(*types.Basic)
	return ok && (b.Kind() == types.Byte || b.Kind() == types.Uint8)
}

// FamilyIDs lists all known family ids (sorted).
func (e *Engine) FamilyIDs() []string {
	ft := e.families()
	var out []string
	for id := range ft.byID {
		out = append(out, id)
	}
	sort.Strings(out)
	return out
}

// KeyFamilies returns the set of family ids that value v (a []byte key or prefix) may be built on.
// Empty set = unknown.
func (e *Engine) KeyFamilies(v ssa.Value) map[string]bool {
	out := map[string]bool{}
	e.keyFam(v, out, map[ssa.Value]bool{}, 0, nil)
	return out
}

type callCtx struct {
	call ssa.CallInstruction
	up   *callCtx
}

func (e *Engine) keyFam(v ssa.Value, out map[string]bool, seen map[ssa.Value]bool, depth int, ctx *callCtx) {
	if v == nil || seen[v] || depth > 12 {
		return
	}
	seen[v] = true
	ft := e.families()
	switch x := v.(type) {
	case *ssa.UnOp:
		if x.Op == token.MUL {
			if g, ok := x.X.(*ssa.Global); ok {
				if gv, ok := g.Object().(*types.Var); ok {
					if f := ft.byGlobal[gv]; f != nil {
						out[f.ID] = true
					}
				}
				return
			}
			if a, ok := x.X.(*ssa.Alloc); ok {
				// local spilled var: union of stores
				for _, r := range *a.Referrers() {
					if st, ok := r.(*ssa.Store); ok && st.Addr == a {
						e.keyFam(st.Val, out, seen, depth+1, ctx)
					}
				}
				return
			}
			if fa, ok := x.X.(*ssa.FieldAddr); ok {
				// field of a struct holding a key/prefix: not resolved
				_ = fa
			}
			if ia, ok := x.X.(*ssa.IndexAddr); ok {
				// an element of a slice / array of keys or prefixes (keys collected from an iterator, a list of prefixes
				// ranged over): the union over what was put into it
				e.elemFam(ia.X, out, seen, depth+1, ctx)
				return
			}
		}
	case *ssa.Global:
		if gv, ok := x.Object().(*types.Var); ok {
			if f := ft.byGlobal[gv]; f != nil {
				out[f.ID] = true
			}
		}
	case *ssa.Phi:
		for _, ed := range x.Edges {
			e.keyFam(ed, out, seen, depth+1, ctx)
		}
	case *ssa.Slice:
		e.keyFam(x.X, out, seen, depth+1, ctx)
	case *ssa.Convert:
		e.keyFam(x.X, out, seen, depth+1, ctx)
	case *ssa.ChangeType:
		e.keyFam(x.X, out, seen, depth+1, ctx)
	case *ssa.MakeInterface:
		e.keyFam(x.X, out, seen, depth+1, ctx)
	case *ssa.Extract:
		e.keyFam(x.Tuple, out, seen, depth+1, ctx)
	case *ssa.MakeSlice, *ssa.Alloc:
		// copy(key[..], Prefix) idiom
		fn := v.(ssa.Instruction).Parent()
		allCalls(fn, func(c ssa.CallInstruction) {
			if b, ok := c.Common().Value.(*ssa.Builtin); ok && b.Name() == "copy" && len(c.Common().Args) == 2 {
				if derivesFromValue(c.Common().Args[0], v, 4) {
					e.keyFam(c.Common().Args[1], out, seen, depth+1, ctx)
				}
			}
		})
	case *ssa.Call:
		cc := x.Common()
		if b, ok := cc.Value.(*ssa.Builtin); ok {
			if b.Name() == "append" && len(cc.Args) > 0 {
				before := len(out)
				e.keyFam(cc.Args[0], out, seen, depth+1, ctx)
				// append(make([]byte, 0, n), Prefix...): the prefix is the first appended chunk
				if len(out) == before && len(cc.Args) > 1 && isEmptyBuffer(cc.Args[0]) {
					e.keyFam(cc.Args[1], out, seen, depth+1, ctx)
				}
			}
			return
		}
		// iter.Key() of a prefix iterator belongs to the iterator's prefix family
		if cc.IsInvoke() && cc.Method.Name() == "Key" && strings.HasSuffix(namedTypeName(cc.Value.Type()), "Iterator") {
			if ic, ok := cc.Value.(*ssa.Call); ok {
				if f := ic.Common().StaticCallee(); f != nil && strings.Contains(f.Name(), "PrefixIterator") && len(ic.Common().Args) > 1 {
					e.keyFam(ic.Common().Args[1], out, seen, depth+1, ctx)
				} else if ic.Common().IsInvoke() && (ic.Common().Method.Name() == "Iterator" || ic.Common().Method.Name() == "ReverseIterator") && len(ic.Common().Args) > 0 {
					e.keyFam(ic.Common().Args[0], out, seen, depth+1, ctx)
				}
			}
			return
		}
		callee := cc.StaticCallee()
		if callee == nil {
			return
		}
		// collections / sdk helpers that wrap a prefix are not keys
		if callee.Blocks == nil {
			// known pass-through helpers in deps
			switch callee.String() {
			case "github.com/cosmos/cosmos-sdk/types.CopyBytes", "cosmossdk.io/store/types.PrefixEndBytes",
				"github.com/cosmos/cosmos-sdk/types/address.MustLengthPrefix",
				"strconv.AppendUint", "strconv.AppendInt", "strconv.AppendQuote", "encoding/binary.BigEndian.AppendUint64":
				if len(cc.Args) > 0 {
					e.keyFam(cc.Args[0], out, seen, depth+1, ctx)
				}
			}
			return
		}
		// source callee: follow its returns with a call context
		nctx := &callCtx{call: x, up: ctx}
		for _, b := range callee.Blocks {
			if len(b.Instrs) == 0 {
				continue
			}
			if r, ok := b.Instrs[len(b.Instrs)-1].(*ssa.Return); ok {
				for _, res := range r.Results {
					if sl, ok := res.Type().Underlying().(*types.Slice); ok && isByte(sl.Elem()) {
						e.keyFam(res, out, seen, depth+1, nctx)
					}
				}
			}
		}
	case *ssa.Parameter:
		fn := x.Parent()
		idx := -1
		for i, p := range fn.Params {
			if p == x {
				idx = i
			}
		}
		if idx < 0 {
			return
		}
		if ctx != nil && ctx.call.Common().StaticCallee() == fn {
			args := ctx.call.Common().Args
			if idx < len(args) {
				e.keyFam(args[idx], out, seen, depth+1, ctx.up)
			}
			return
		}
		// context-free: all static callers in fx-core
		for _, site := range e.CallGraph().In[fn] {
			if site.Call == nil {
				continue
			}
			args := site.Call.Common().Args
			if site.Call.Common().IsInvoke() {
				// receiver is not in Args for invoke
				if idx == 0 {
					continue
				}
				if idx-1 < len(args) {
					e.keyFam(args[idx-1], out, seen, depth+1, nil)
				}
				continue
			}
			if idx < len(args) {
				e.keyFam(args[idx], out, seen, depth+1, nil)
			}
		}
	case *ssa.FreeVar:
		// closure capture: find binding in the enclosing MakeClosure
		fn := x.Parent()
		idx := -1
		for i, fv := range fn.FreeVars {
			if fv == x {
				idx = i
			}
		}
		if par := fn.Parent(); par != nil && idx >= 0 {
			allInstrs(par, func(i ssa.Instruction) {
				if mc, ok := i.(*ssa.MakeClosure); ok && mc.Fn == fn && idx < len(mc.Bindings) {
					e.keyFam(mc.Bindings[idx], out, seen, depth+1, nil)
				}
			})
		}
	}
}

// derivesFromValue: does v syntactically derive (slice/convert/phi) from target?
func derivesFromValue(v, target ssa.Value, depth int) bool {
	if v == target {
		return true
	}
	if depth == 0 {
		return false
	}
	switch x := v.(type) {
	case *ssa.Slice:
		return derivesFromValue(x.X, target, depth-1)
	case *ssa.Convert:
		return derivesFromValue(x.X, target, depth-1)
	case *ssa.ChangeType:
		return derivesFromValue(x.X, target, depth-1)
	case *ssa.UnOp:
		return derivesFromValue(x.X, target, depth-1)
	case *ssa.Phi:
		for _, e := range x.Edges {
			if derivesFromValue(e, target, depth-1) {
				return true
			}
		}
	}
	return false
}

// famMatch: does family id `id` belong to module `mod` and start with hex prefix `hx`?
func famMatch(id, mod, hx string) bool {
	i := strings.Index(id, ":")
	if i < 0 {
		return false
	}
	return id[:i] == mod && strings.HasPrefix(id[i+1:], hx)
}

// isEmptyBuffer: make([]byte, 0, n) / nil / []byte{} (possibly through a slice expression)
func isEmptyBuffer(v ssa.Value) bool {
	switch x := v.(type) {
	case *ssa.MakeSlice:
		l, ok := constInt(x.Len)
		return ok && l == 0
	case *ssa.Const:
		return x.Value == nil
	case *ssa.Slice:
		return isEmptyBuffer(x.X)
	}
	return false
}

// elemFam: families of the elements of a slice / array value (built by composite literal, append, re-slicing, phis).
func (e *Engine) elemFam(v ssa.Value, out map[string]bool, seen map[ssa.Value]bool, depth int, ctx *callCtx) {
	if v == nil || depth > 12 {
		return
	}
	key := v
	if seen[key] {
		return
	}
	seen[key] = true
	switch x := v.(type) {
	case *ssa.Phi:
		for _, ed := range x.Edges {
			e.elemFam(ed, out, seen, depth+1, ctx)
		}
	case *ssa.Slice:
		e.elemFam(x.X, out, seen, depth+1, ctx)
	case *ssa.Convert:
		e.elemFam(x.X, out, seen, depth+1, ctx)
	case *ssa.ChangeType:
		e.elemFam(x.X, out, seen, depth+1, ctx)
	case *ssa.UnOp:
		if x.Op == token.MUL {
			if a, ok := x.X.(*ssa.Alloc); ok {
				for _, r := range *a.Referrers() {
					if st, ok := r.(*ssa.Store); ok && st.Addr == ssa.Value(a) {
						e.elemFam(st.Val, out, seen, depth+1, ctx)
					}
				}
			}
		}
	case *ssa.Alloc:
		// new [N]T backing a composite literal or a varargs slice: stores into its elements
		for _, r := range *x.Referrers() {
			if ia, ok := r.(*ssa.IndexAddr); ok && ia.X == ssa.Value(x) {
				for _, r2 := range *ia.Referrers() {
					if st, ok := r2.(*ssa.Store); ok && st.Addr == ssa.Value(ia) {
						e.keyFam(st.Val, out, map[ssa.Value]bool{}, depth+1, ctx)
					}
				}
			}
		}
	case *ssa.Call:
		if b, ok := x.Call.Value.(*ssa.Builtin); ok && b.Name() == "append" {
			for _, a := range x.Call.Args {
				e.elemFam(a, out, seen, depth+1, ctx)
			}
		}
	}
}
