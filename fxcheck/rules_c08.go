package main

import (
	"go/token"
	"go/types"
	"fmt"
	"sort"
	"strings"

	"golang.org/x/tools/go/ssa"
)

func init() { register("C08", "other", runC08) }

// ledger deltas of one value operation: coin escrow (module + wrapper contract), token supply, token escrow (module's
// ERC-20 balance), coin supply.
type delta struct{ escrow, tokSupply, tokEscrow, coinSupply int }

func (d delta) add(o delta) delta {
	return delta{d.escrow + o.escrow, d.tokSupply + o.tokSupply, d.tokEscrow + o.tokEscrow, d.coinSupply + o.coinSupply}
}

func (e *Engine) rootsCall(v ssa.Value, names ...string) bool {
	hit := false
	e.Slice(v, SliceOpts{MaxDepth: 8, ThroughCalls: true}, func(x ssa.Value) Verdict {
		if c, ok := x.(*ssa.Call); ok {
			for _, n := range names {
				if callName(c) == n {
					hit = true
					return Accept
				}
			}
		}
		if n, _, ok := fieldName(x); ok {
			for _, m := range names {
				if n == m {
					hit = true
					return Accept
				}
			}
		}
		return Continue
	})
	return hit
}

// valueOp classifies a call as a value operation; ok=false if it is not one.
func (e *Engine) valueOp(c ssa.CallInstruction) (delta, string, bool) {
	if len(e.calleesOf(c)) > 0 && !strings.HasPrefix(callName(c), "ERC20") {
		return delta{}, "", false
	}
	a := nonCtxArgs(c)
	isModuleAddr := func(v ssa.Value) bool { return e.rootsCall(v, "moduleAddress", "ModuleAddress") }
	isContract := func(v ssa.Value) bool { return e.rootsCall(v, "GetERC20Contract") }
	switch callName(c) {
	case "SendCoinsFromAccountToModule":
		if len(a) >= 1 && isContract(a[0]) {
			return delta{}, "contract->module (inside the escrow set)", true
		}
		return delta{escrow: 1}, "account->escrow", true
	case "SendCoinsFromModuleToAccount":
		if len(a) >= 2 && isContract(a[1]) {
			return delta{}, "module->contract (inside the escrow set)", true
		}
		return delta{escrow: -1}, "escrow->account", true
	case "MintCoins":
		return delta{escrow: 1, coinSupply: 1}, "mint coins into escrow", true
	case "BurnCoins":
		return delta{escrow: -1, coinSupply: -1}, "burn coins from escrow", true
	case "ERC20Mint", "Mint":
		if callName(c) == "Mint" && !strings.Contains(recvTypeName(c), "ERC20Call") {
			return delta{}, "", false
		}
		return delta{tokSupply: 1}, "mint tokens", true
	case "ERC20Burn":
		// (contract, from, account, amount): burns account's tokens
		if len(a) >= 3 && isModuleAddr(a[2]) {
			return delta{tokSupply: -1, tokEscrow: -1}, "burn the module's own tokens", true
		}
		return delta{tokSupply: -1}, "burn tokens", true
	case "Burn":
		if !strings.Contains(recvTypeName(c), "ERC20Call") {
			return delta{}, "", false
		}
		if len(a) >= 1 && isModuleAddr(a[len(a)-2]) {
			return delta{tokSupply: -1, tokEscrow: -1}, "burn the module's own tokens", true
		}
		return delta{tokSupply: -1}, "burn tokens", true
	case "ERC20Transfer":
		// (contract, from, receiver, amount)
		if len(a) >= 3 {
			if isModuleAddr(a[2]) {
				return delta{tokEscrow: 1}, "tokens account->module", true
			}
			if isModuleAddr(a[1]) {
				return delta{tokEscrow: -1}, "tokens module->account", true
			}
		}
		return delta{}, "tokens account->account", true
	case "TransferFrom":
		if !strings.Contains(recvTypeName(c), "ERC20Call") {
			return delta{}, "", false
		}
		if len(a) >= 3 && isModuleAddr(a[len(a)-2]) {
			return delta{tokEscrow: 1}, "tokens account->module", true
		}
		return delta{}, "tokens account->account", true
	}
	return delta{}, "", false
}

// pathDeltas: set of total deltas over the success paths of fn (value ops in fn plus inlined fx callees that have ops).
func (e *Engine) pathDeltas(fn *ssa.Function, memo map[*ssa.Function][]delta, depth int) []delta {
	if r, ok := memo[fn]; ok {
		return r
	}
	memo[fn] = nil
	if depth > 3 {
		return nil
	}
	type st struct {
		b *ssa.BasicBlock
		d delta
	}
	var out []delta
	seenOut := map[delta]bool{}
	var walk func(b *ssa.BasicBlock, ds []delta, visited map[*ssa.BasicBlock]int, steps int)
	walk = func(b *ssa.BasicBlock, ds []delta, visited map[*ssa.BasicBlock]int, steps int) {
		if steps > 200 || visited[b] > 1 {
			return
		}
		visited[b]++
		defer func() { visited[b]-- }()
		cur := ds
		for _, in := range b.Instrs {
			if c, ok := in.(ssa.CallInstruction); ok {
				if d, _, ok := e.valueOp(c); ok {
					var nx []delta
					for _, x := range cur {
						nx = append(nx, x.add(d))
					}
					cur = nx
				} else {
					for _, cal := range e.calleesOf(c) {
						sub := e.pathDeltas(cal, memo, depth+1)
						nz := false
						for _, s := range sub {
							if s != (delta{}) {
								nz = true
							}
						}
						if nz {
							var nx []delta
							for _, x := range cur {
								for _, s := range sub {
									nx = append(nx, x.add(s))
								}
							}
							cur = dedupDelta(nx)
						}
					}
				}
			}
			if ret, ok := in.(*ssa.Return); ok {
				if !IsFailureReturn(ret) {
					for _, x := range cur {
						if !seenOut[x] {
							seenOut[x] = true
							out = append(out, x)
						}
					}
				}
				return
			}
			if _, ok := in.(*ssa.Panic); ok {
				return
			}
		}
		for _, s := range b.Succs {
			walk(s, cur, visited, steps+1)
		}
	}
	if len(fn.Blocks) > 0 {
		walk(fn.Blocks[0], []delta{{}}, map[*ssa.BasicBlock]int{}, 0)
	}
	memo[fn] = out
	return out
}

func dedupDelta(ds []delta) []delta {
	seen := map[delta]bool{}
	var out []delta
	for _, d := range ds {
		if !seen[d] {
			seen[d] = true
			out = append(out, d)
		}
	}
	return out
}

// c08ExactPairLookup (R9): ConvertCoin escrows the coin of the message and mints the ERC-20 of the pair found for that
// coin's denom; nothing re-checks coin.Denom == pair.Denom, the exact lookup is what guarantees it. A getter that maps a
// denom to a pair through the by-denom index must therefore not also consult the alias index (round-7 seed C08).
func (e *Engine) c08ExactPairLookup(r *Report) {
	n := 0
	for _, fn := range e.Funcs {
		if fn.Parent() != nil || !strings.HasSuffix(fnPkgPath(fn), "/x/erc20/keeper") {
			continue
		}
		res := fn.Signature.Results()
		retPair := false
		for i := 0; i < res.Len(); i++ {
			if strings.HasSuffix(namedTypeName(res.At(i).Type()), "erc20/types.TokenPair") {
				retPair = true
			}
		}
		hasStr := false
		for _, p := range fn.Params {
			if b, ok := p.Type().Underlying().(*types.Basic); ok && b.Kind() == types.String {
				hasStr = true
			}
		}
		if !retPair || !hasStr || !e.HasTransEffect(fn, "erc20", "03", "get") {
			continue
		}
		n++
		alias := e.HasTransEffect(fn, "erc20", "05", "get") || e.HasTransEffect(fn, "erc20", "05", "has")
		r.Check(!alias, "R9", e.FnKey(fn)+" exact", e.Pos(fn.Pos()), "resolves the denom through the by-denom index only", "the pair getter also consults the alias index (0x05): an alias / bridge denomination resolves to its base denom's pair, and ConvertCoin then escrows the alias coin while minting the base pair's ERC-20 — supply grows without the escrow of the pair's denom")
	}
	if n == 0 {
		r.Fail("R9", "pair getters", "", "UNRESOLVED-ANCHOR: no getter mapping a denom to a token pair through 0x03")
	}
}

func runC08(e *Engine, r *Report, tier string) {
	r.Explanation = "C08, structural necessary conditions. R1 (signed-operation balance): for every conversion routine — an fx-core function that, with its fx-core callees inlined, performs both a bank value operation and an ERC-20 value operation — on every success path the change of the coin escrow (erc20 module account and the wrapper contract) equals the change of the ERC-20 supply, and the change of the module's ERC-20 escrow equals the change of the coin supply (operations: account->escrow +1, escrow->account -1, mint coins +escrow +supply, burn coins -escrow -supply, token mint/burn, token transfer to/from the module); every operation's amount is rooted in the routine's single amount parameter; coins are taken only from the sender parameter and paid only to the receiver parameter; R2 no keeper-level EVM execution (a fresh committed StateDB) is reachable from the native-action closure of a precompile — token calls under a live EVM must go through the running EVM; R3 the pair record and its by-denom / by-contract indexes (erc20 0x01,0x02,0x03) are written and deleted only together, a lone write of 0x01 only re-stores a pair that was just read; R4 the blocked-address test of a conversion is applied to the message's receiver; R5 every classifier of the IBC-voucher namespace (HasPrefix/TrimPrefix with a constant starting with `ibc`) tests the full prefix `ibc/` — siblings that decide lock-vs-burn and the backing escrow must agree on what a voucher is; R6 an index entry (by-contract, by-denom, alias) that is deleted because a lookup found it is deleted under the very key that was looked up; R7 the error of every bank / ERC-20 value operation of a conversion routine is consumed (tested with a clean failing branch, returned or wrapped) on every path from the call — an error that a later assignment overwrites before the test is reported. R8 wherever the result of an ERC-20 `transfer` / `transferFrom` call is decoded, every success return is guarded by the decoded boolean being true (in the decoding function, or in each caller when the boolean is handed up) — EIP-20 lets a token report failure by returning false. Not decided: contract bytecode, ERC-20 balances summing to supply, arbitrary histories."
	r.Rule("R1", "per success path: Δescrow = ΔtokenSupply and ΔtokenEscrow = ΔcoinSupply; single amount; sender debited, receiver credited", 5, "conversion routines found by their operations")
	r.Rule("R2", "no nested keeper-level EVM under a precompile native action", 1, "ExecuteNativeAction closures")
	r.Rule("R3", "token-pair record and indexes co-written", 3, "writers of erc20:01/02/03")
	r.Rule("R4", "blocked-address test applies to the receiver", 2, "conversion handlers")
	r.Rule("R6", "an index entry deleted because a lookup found it is deleted under the key that was looked up", 1, "lookup-guarded deletes of erc20 index families")
	r.Rule("R9", "a token pair looked up by denom is the pair registered under that very denom: the lookup does not fall back to the alias index (conversion escrows the message's coin against the pair it finds)", 1, "pair getters taking a denom")
	r.Rule("R8", "an ERC-20 transfer / transferFrom that returns false is an error: the decoded boolean guards every success return (here or in the caller it is handed to)", 2, "decoders of transfer / transferFrom results")
	r.Rule("R7", "the error of every leg (bank / ERC-20 value operation) of a conversion routine is propagated on every path", 8, "value operations of the conversion routines")
	e.c08ExactPairLookup(r)
	r.Rule("R10", "a search result is not compared so that position 0 counts as `not found` (alias / denom collision checks walk lists)", 1, "")
	e.ruleSentinelMiscompare(r, "R10", "/x/erc20", "/x/crosschain")
	{
		nsites := 0
		for _, fn := range e.Funcs {
			if isAuxPkg(fnPkgPath(fn)) || !strings.Contains(fnPkgPath(fn), "x/erc20/keeper") {
				continue
			}
			for _, fam := range []string{"02", "03", "05"} {
				var dels, gets []ssa.CallInstruction
				allCalls(fn, func(c ssa.CallInstruction) {
					if len(e.calleesOf(c)) == 0 {
						return // raw store calls: the helpers below are the unit
					}
					if e.callDirectOp(c, "erc20", fam, "delete") {
						dels = append(dels, c)
					} else if e.callDirectOp(c, "erc20", fam, "get,has") {
						gets = append(gets, c)
					}
				})
				strArgs := func(c ssa.CallInstruction) []string {
					var out []string
					for _, a := range nonCtxArgs(c) {
						if b, ok := a.Type().Underlying().(*types.Basic); ok && b.Kind() == types.String {
							out = append(out, vkey(a, 0))
						}
						if sl, ok := a.(*ssa.Slice); ok { // variadic ...string
							if arr, ok := sl.X.(*ssa.Alloc); ok && arr.Referrers() != nil {
								for _, ref := range *arr.Referrers() {
									if ia, ok := ref.(*ssa.IndexAddr); ok && ia.Referrers() != nil {
										for _, r2 := range *ia.Referrers() {
											if st, ok := r2.(*ssa.Store); ok && st.Addr == ssa.Value(ia) {
												out = append(out, vkey(st.Val, 0))
											}
										}
									}
								}
							}
						}
					}
					return out
				}
				for _, d := range dels {
					// the lookups whose result guards this delete
					for _, g := range gets {
						gv, ok := g.(ssa.Value)
						if !ok {
							continue
						}
						guards := false
						for _, gd := range GuardsOf(d) {
							if e.rootsValue(gd.Cond, gv) {
								guards = true
							}
						}
						if !guards {
							continue
						}
						nsites++
						dk, gk := strArgs(d), strArgs(g)
						same := false
						for _, a := range dk {
							for _, b := range gk {
								if a == b {
									same = true
								}
							}
						}
						ck := e.FnKey(fn) + " " + callName(g) + " -> " + callName(d) + " (erc20:" + fam + ")"
						r.Check(same, "R6", ck, e.InstrPos(d), "the entry deleted is the one that was looked up",
							"the index entry is deleted under "+strings.Join(dk, ",")+" although the lookup that decided the deletion was made under "+strings.Join(gk, ",")+": the entry that was found stays in the index while the other stores are updated (index and metadata describe different sets)")
					}
				}
			}
		}
		if nsites == 0 {
			r.Fail("R6", "lookup-guarded deletes", "", "UNRESOLVED-ANCHOR: no lookup-guarded delete of an erc20 index family found")
		}
	}
	r.Rule("R5", "every test for the IBC-voucher denomination namespace uses the full prefix `ibc/`", 5, "HasPrefix/TrimPrefix sites with a constant starting with ibc")
	{
		// siblings: the classifiers that decide lock-vs-burn and which escrow backs a denomination all ask "is this an IBC
		// voucher (ibc/<hash>)?"; a site testing a shorter constant also captures ordinary denominations such as `ibcx`
		nsites := 0
		for _, fn := range e.Funcs {
			if isAuxPkg(fnPkgPath(fn)) {
				continue
			}
			allCalls(fn, func(c ssa.CallInstruction) {
				n := callName(c)
				if n != "HasPrefix" && n != "TrimPrefix" && n != "CutPrefix" {
					return
				}
				a := c.Common().Args
				if len(a) != 2 {
					return
				}
				pfx, ok := constString(a[1])
				if !ok || !strings.HasPrefix(pfx, "ibc") {
					return
				}
				nsites++
				ck := e.FnKey(fn) + " " + n + "(" + regNames.ReplaceAllString(vkey(a[0], 0), "") + ")"
				if pfx == "ibc/" {
					r.Ok("R5", ck, e.InstrPos(c), "tests the prefix `ibc/`")
				} else {
					r.Fail("R5", ck, e.InstrPos(c), fmt.Sprintf("tests the prefix %q while the sibling classifiers test `ibc/`: a denomination that merely starts with %q is treated as an IBC voucher here and as an ordinary denomination elsewhere (lock-vs-burn and escrow decisions diverge)", pfx, pfx))
				}
			})
		}
		if nsites == 0 {
			r.Fail("R5", "ibc-prefix-sites", "", "UNRESOLVED-ANCHOR: no IBC-voucher prefix test found")
		}
	}

	memo := map[*ssa.Function][]delta{}
	nconv := 0
	var convRoutines []*ssa.Function
	for _, fn := range e.Funcs {
		if fn.Parent() != nil || isAuxPkg(fnPkgPath(fn)) || strings.HasSuffix(fnPkgPath(fn), "/types") {
			continue
		}
		if !(strings.Contains(fnPkgPath(fn), "x/erc20/keeper") || strings.Contains(fnPkgPath(fn), "x/crosschain/precompile")) {
			continue
		}
		// direct ops
		bankOps, tokOps := 0, 0
		var ops []ssa.CallInstruction
		collect := func(f *ssa.Function) {
			allCalls(f, func(c ssa.CallInstruction) {
				if d, _, ok := e.valueOp(c); ok {
					ops = append(ops, c)
					if d.escrow != 0 || d.coinSupply != 0 || strings.HasPrefix(callName(c), "SendCoins") {
						bankOps++
					}
					if d.tokSupply != 0 || d.tokEscrow != 0 || strings.Contains(callName(c), "ERC20") || strings.Contains(recvTypeName(c), "ERC20Call") {
						tokOps++
					}
				}
			})
		}
		collect(fn)
		// precompile pair: inline one level of fx callees in the same package
		allCalls(fn, func(c ssa.CallInstruction) {
			for _, cal := range e.calleesOf(c) {
				if fnPkgPath(cal) == fnPkgPath(fn) && cal != fn {
					has := false
					allCalls(cal, func(c2 ssa.CallInstruction) {
						if _, _, ok := e.valueOp(c2); ok {
							has = true
						}
					})
					if has {
						collect(cal)
					}
				}
			}
		})
		if bankOps == 0 || tokOps == 0 {
			continue
		}
		// skip dispatchers (their callees are the routines): a function whose own body has no value op
		own := 0
		allCalls(fn, func(c ssa.CallInstruction) {
			if _, _, ok := e.valueOp(c); ok {
				own++
			}
		})
		if own == 0 {
			continue
		}
		// if a caller in the same package already inlines this function as part of a pair, still check it on its own only when balanced
		nconv++
		convRoutines = append(convRoutines, fn)
		k := e.FnKey(fn)
		// R7: the balance above is per *success* path, so a failed leg must end the routine: the error of every value
		// operation is propagated on every path (not overwritten by a later call, not tested on some paths only)
		for _, op := range ops {
			if op.Parent() != fn && op.Parent().Parent() != fn {
				continue
			}
			ck := k + " -> " + callName(op) + " error"
			if ok, why := errorHandled(op); ok {
				r.Ok("R7", ck, e.InstrPos(op), "error propagated on every path")
			} else {
				r.Fail("R7", ck, e.InstrPos(op), "a leg of the conversion can fail without failing the conversion ("+why+"): the other legs still run, so value moves on one side of the books only")
			}
		}
		ds := e.pathDeltas(fn, memo, 0)
		if len(ds) == 0 {
			r.Undecided("R1", k+" balance", e.Pos(fn.Pos()), "no success path enumerated")
			continue
		}
		bad := ""
		for _, d := range ds {
			if d.escrow != d.tokSupply || d.tokEscrow != d.coinSupply {
				bad = fmt.Sprintf("a success path changes coin escrow by %+d but token supply by %+d, module token escrow by %+d but coin supply by %+d", d.escrow, d.tokSupply, d.tokEscrow, d.coinSupply)
			}
		}
		// helper halves (convertERC20 in the precompile) are balanced only together with their caller: accept if some caller inlines them balanced
		if bad != "" {
			okViaCaller := false
			for _, cs := range e.CallSites(fn) {
				if fnPkgPath(cs.Caller) != fnPkgPath(fn) {
					continue
				}
				cds := e.pathDeltas(cs.Caller, memo, 0)
				all := len(cds) > 0
				for _, d := range cds {
					if d.escrow != d.tokSupply || d.tokEscrow != d.coinSupply {
						all = false
					}
				}
				if all {
					okViaCaller = true
				}
			}
			if okViaCaller {
				r.Ok("R1", k+" balance", e.Pos(fn.Pos()), "half of a conversion: balanced together with its caller")
			} else {
				r.Fail("R1", k+" balance", e.Pos(fn.Pos()), bad+": escrow and supply books diverge")
			}
		} else {
			r.Ok("R1", k+" balance", e.Pos(fn.Pos()), fmt.Sprintf("%d distinct success-path totals, all balanced", len(ds)))
		}
		// single amount root
		var amtPars []*ssa.Parameter
		for _, p := range fn.Params {
			ts := p.Type().String()
			if strings.HasSuffix(ts, "types.Coin") || strings.HasSuffix(ts, "math.Int") || strings.HasSuffix(ts, "big.Int") {
				amtPars = append(amtPars, p)
			}
		}
		badAmt := ""
		allCalls(fn, func(c ssa.CallInstruction) {
			if _, _, ok := e.valueOp(c); !ok || badAmt != "" {
				return
			}
			for _, a := range nonCtxArgs(c) {
				ts := a.Type().String()
				if !(strings.HasSuffix(ts, "types.Coins") || strings.HasSuffix(ts, "big.Int") || strings.HasSuffix(ts, "types.Coin")) {
					continue
				}
				res := e.Slice(a, SliceOpts{MaxDepth: 10, ThroughCalls: true, ConstLeafOK: true}, func(x ssa.Value) Verdict {
					for _, p := range amtPars {
						if x == ssa.Value(p) {
							return Accept
						}
					}
					if p, ok := x.(*ssa.Parameter); ok && p.Parent() == fn {
						// denom taken from the pair parameter is fine
						if strings.HasSuffix(p.Type().String(), "TokenPair") {
							return Accept
						}
					}
					if bo, ok := x.(*ssa.BinOp); ok {
						_ = bo
						return Reject
					}
					if cc0, ok := x.(*ssa.Call); ok && (callName(cc0) == "Add" || callName(cc0) == "AddRaw" || callName(cc0) == "Sub" || callName(cc0) == "SubRaw" || callName(cc0) == "Mul" || callName(cc0) == "MulRaw" || callName(cc0) == "Quo" || callName(cc0) == "QuoRaw") {
						return Reject
					}
					return Continue
				})
				if len(res.Rejected) > 0 {
					badAmt = callName(c) + ": amount is computed (" + e.Describe(res.Rejected[0]) + ") instead of being the requested amount"
				} else if !res.AnyAccepted() && len(amtPars) > 0 {
					badAmt = callName(c) + ": amount is not rooted in the routine's amount parameter"
				}
			}
		})
		if len(amtPars) > 0 {
			r.Check(badAmt == "", "R1", k+" amount", e.Pos(fn.Pos()), "every leg moves the requested amount", "a leg of the conversion moves a different amount: "+badAmt)
		}
	}
	// R7 (callers): a conversion routine that failed has already run some of its legs; whoever called it must fail too —
	// a nil return on the error branch commits the legs that ran
	for _, cr := range convRoutines {
		for _, cs := range e.CallSites(cr) {
			if isAuxPkg(fnPkgPath(cs.Caller)) || !strings.Contains(fnPkgPath(cs.Caller), "x/erc20/keeper") {
				continue
			}
			ck := e.CanonFnKey(cs.Caller) + " -> " + cr.Name() + " error"
			if ok, why := errorHandled(cs.Call); ok {
				r.Ok("R7", ck, e.InstrPos(cs.Call), "the conversion's error fails the caller on every path")
			} else {
				r.Fail("R7", ck, e.InstrPos(cs.Call), "a failed conversion can be reported as success by its caller ("+why+"): the legs that ran before the failure (the sender's coins are escrowed first) are committed although nothing was credited")
			}
		}
	}
	e.c08TokenResultChecked(r)
	if nconv < 4 {
		r.Fail("R1", "routines", "", fmt.Sprintf("UNRESOLVED-ANCHOR: %d conversion routines found", nconv))
	}

	// ---------- R2 ----------
	isNestedEVM := func(f *ssa.Function) bool {
		if !strings.Contains(fnPkgPath(f), "x/evm/keeper") {
			return false
		}
		switch canonName(f.Name()) {
		case "CallEVM", "CallEVMWithoutGas", "ApplyContract":
			return true
		}
		return false
	}
	nENA := 0
	type sinkPath struct{ method, sink string }
	found := map[sinkPath][]string{}
	for _, m := range e.precompileMethods() {
		for _, s := range m.ENA {
			if s.Closure == nil {
				continue
			}
			nENA++
			// all distinct sinks reachable
			reach := e.Reach([]*ssa.Function{s.Closure}, func(x *ssa.Function) bool { return !isFx(x) || isNestedEVM(x) })
			for f := range reach {
				if isNestedEVM(f) {
					p := e.PathTo([]*ssa.Function{s.Closure}, func(x *ssa.Function) bool { return x == f }, func(x *ssa.Function) bool { return !isFx(x) })
					label := m.Name
					if m.ABIName != "" {
						label = "precompile " + m.ABIName
					}
					found[sinkPath{label, e.CanonFnKey(f)}] = p
				}
			}
		}
	}
	var keys []sinkPath
	for k := range found {
		keys = append(keys, k)
	}
	sort.Slice(keys, func(i, j int) bool { return keys[i].method+keys[i].sink < keys[j].method+keys[j].sink })
	for _, k := range keys {
		r.Fail("R2", k.method+" -> "+k.sink, "", "a keeper-level EVM execution (fresh StateDB committed to the native store) is reachable while the calling EVM is live: "+strings.Join(found[k], " -> ")+"; storage written there is neither seen nor respected by the outer StateDB's dirty objects")
	}
	if nENA == 0 {
		r.Fail("R2", "closures", "", "UNRESOLVED-ANCHOR: no native-action closures")
	} else if len(keys) == 0 {
		r.Ok("R2", "closures", "", fmt.Sprintf("%d native-action closures reach no keeper-level EVM execution", nENA))
	}

	// ---------- R3 ----------
	for _, fn := range e.Funcs {
		if isAuxPkg(fnPkgPath(fn)) || !strings.Contains(fnPkgPath(fn), "x/erc20/keeper") {
			continue
		}
		set, del := map[string]bool{}, map[string]bool{}
		for _, so := range e.Effects(fn) {
			for id := range so.Fams {
				for _, hx := range []string{"01", "02", "03"} {
					if famMatch(id, "erc20", hx) {
						if so.Op == "set" {
							set[hx] = true
						}
						if so.Op == "delete" {
							del[hx] = true
						}
					}
				}
			}
		}
		k := e.FnKey(fn)
		if len(set) > 0 {
			if len(set) == 3 {
				r.Ok("R3", k+" set", e.Pos(fn.Pos()), "record and both indexes written together")
			} else if len(set) == 1 && set["01"] {
				// lone record write: every caller must pass a pair that was read from the store
				okAll := true
				for _, cs := range e.CallSites(fn) {
					if isAuxPkg(fnPkgPath(cs.Caller)) || isGenesisOrUpgrade(cs.Caller) {
						continue
					}
					read := false
					for _, a := range nonCtxArgs(cs.Call) {
						e.Slice(a, SliceOpts{MaxDepth: 8, ThroughCalls: false}, func(x ssa.Value) Verdict {
							if c, ok := x.(*ssa.Call); ok && e.HasTransEffect2(c, "erc20", "01", "get") {
								read = true
								return Accept
							}
							return Continue
						})
					}
					if !read {
						okAll = false
						r.Fail("R3", k+" lone-write from "+e.FnKey(cs.Caller), e.InstrPos(cs.Call), "the pair record (0x01) is written alone for a pair that was not just read from the store: its by-denom / by-contract indexes may not exist")
					}
				}
				if okAll {
					r.Ok("R3", k+" set", e.Pos(fn.Pos()), "lone record write only re-stores a pair read from the store")
				}
			} else {
				r.Fail("R3", k+" set", e.Pos(fn.Pos()), fmt.Sprintf("writes only part of the pair families %v: denom, contract and record indexes diverge", keysOf(set)))
			}
		}
		if len(del) > 0 {
			r.Check(len(del) == 3, "R3", k+" delete", e.Pos(fn.Pos()), "record and both indexes deleted together", fmt.Sprintf("deletes only part of the pair families %v", keysOf(del)))
		}
	}

	// ---------- R4 ----------
	n4 := 0
	for _, h := range e.MsgHandlers() {
		if !strings.Contains(fnPkgPath(h.Fn), "x/erc20/keeper") || h.HasAuth {
			continue
		}
		allCalls(h.Fn, func(c ssa.CallInstruction) {
			if !e.callReachesExternal(c, "BlockedAddr") || len(e.calleesOf(c)) == 0 {
				return
			}
			// which parameter of the callee flows into BlockedAddr
			for _, cal := range e.calleesOf(c) {
				var flowPar *ssa.Parameter
				allCalls(cal, func(c2 ssa.CallInstruction) {
					if callName(c2) != "BlockedAddr" {
						return
					}
					for _, a := range nonCtxArgs(c2) {
						e.Slice(a, SliceOpts{MaxDepth: 5, ThroughCalls: true}, func(x ssa.Value) Verdict {
							if p, ok := x.(*ssa.Parameter); ok && p.Parent() == cal {
								flowPar = p
								return Accept
							}
							return Continue
						})
					}
				})
				if flowPar == nil {
					continue
				}
				n4++
				arg := argFor(&Edge{Caller: h.Fn, Callee: cal, Call: c}, flowPar)
				okRecv := false
				if arg != nil {
					res := e.Slice(arg, SliceOpts{MaxDepth: 8, ThroughCalls: true}, func(x ssa.Value) Verdict {
						if n, st, ok := fieldName(x); ok && strings.HasSuffix(namedTypeName(st), h.Req.Obj().Name()) {
							if n == "Receiver" {
								return Accept
							}
							return Reject
						}
						return Continue
					})
					okRecv = res.AnyAccepted() && len(res.Rejected) == 0
				}
				r.Check(okRecv, "R4", e.FnKey(h.Fn)+" blocked-address", e.InstrPos(c), "the address tested against the bank's blocked list is the message's Receiver", "the blocked-address test is applied to an address that is not the receiver: coins/tokens can be converted to a blocked (module) account, e.g. the erc20 module itself, leaving escrow and supply unequal")
			}
		})
	}
	if n4 < 2 {
		r.Fail("R4", "handlers", "", fmt.Sprintf("UNRESOLVED-ANCHOR: %d conversion handlers apply a blocked-address test", n4))
	}
}

func keysOf(m map[string]bool) []string {
	var out []string
	for k := range m {
		out = append(out, k)
	}
	sort.Strings(out)
	return out
}

// c08TokenResultChecked: R8.
func (e *Engine) c08TokenResultChecked(r *Report) {
	n := 0
	for _, fn := range e.Funcs {
		if isAuxPkg(fnPkgPath(fn)) {
			continue
		}
		fn := fn
		allCalls(fn, func(c ssa.CallInstruction) {
			nm := callName(c)
			if nm != "UnpackIntoInterface" && nm != "Unpack" {
				return
			}
			method := ""
			for _, a := range c.Common().Args {
				if s, ok := constString(a); ok && (s == "transfer" || s == "transferFrom") {
					method = s
				}
			}
			if method == "" {
				return
			}
			n++
			ck := e.CanonFnKey(fn) + " " + method + " result"
			// the decoded boolean: a bool field of the struct handed to UnpackIntoInterface, or a bool asserted out of Unpack's result
			isResult := func(v ssa.Value) bool {
				ok := false
				if u, isU := stripConv(v).(*ssa.UnOp); isU {
					if fa, isFA := u.X.(*ssa.FieldAddr); isFA {
						for _, a := range c.Common().Args {
							if mi, isMI := a.(*ssa.MakeInterface); isMI {
								a = mi.X
							}
							if a == fa.X {
								return true
							}
						}
					}
				}
				e.Slice(v, SliceOpts{MaxDepth: 8}, func(x ssa.Value) Verdict {
					switch y := x.(type) {
					case *ssa.Alloc:
						for _, a := range c.Common().Args {
							if mi, isMI := a.(*ssa.MakeInterface); isMI {
								a = mi.X
							}
							if a == ssa.Value(y) {
								ok = true
								return Accept
							}
						}
					case *ssa.Call:
						if ssa.Value(y) == c.(ssa.Value) {
							ok = true
							return Accept
						}
					case *ssa.TypeAssert:
						if b, isB := y.AssertedType.Underlying().(*types.Basic); !isB || b.Kind() != types.Bool {
							return Reject // asserted to something that is not the bool the ABI yields
						}
					}
					return Continue
				})
				return ok
			}
			guarded := func(ret *ssa.Return, f *ssa.Function, isRes func(ssa.Value) bool) bool {
				for _, g := range GuardsOf(ret) {
					v, pol := g.Cond, g.Pol
					for {
						u, isU := v.(*ssa.UnOp)
						if !isU || u.Op != token.NOT {
							break
						}
						v, pol = u.X, !pol
					}
					if b, isB := v.Type().Underlying().(*types.Basic); isB && b.Kind() == types.Bool && pol && isRes(v) {
						return true
					}
				}
				return false
			}
			bad := ""
			handedUp := -1
			for _, ret := range SuccessReturns(fn) {
				if !canReach(c, ret) && !Dominates(c, ret) {
					continue
				}
				if guarded(ret, fn, isResult) {
					continue
				}
				// the boolean itself is returned: the callers decide
				up := false
				for i, rv := range ret.Results {
					if b, isB := rv.Type().Underlying().(*types.Basic); isB && b.Kind() == types.Bool && isResult(rv) {
						up = true
						handedUp = i
					}
				}
				if !up {
					bad = "a success return of " + e.FnKey(fn) + " is not guarded by the decoded boolean being true"
				}
			}
			if bad == "" && handedUp >= 0 {
				ncs := 0
				for _, cs := range e.CallSites(fn) {
					if isAuxPkg(fnPkgPath(cs.Caller)) {
						continue
					}
					ncs++
					cv, ok := cs.Call.(ssa.Value)
					if !ok {
						bad = "the boolean handed up by " + fn.Name() + " is dropped in " + e.FnKey(cs.Caller)
						continue
					}
					isUp := func(v ssa.Value) bool {
						ex, ok := stripConv(v).(*ssa.Extract)
						return ok && ex.Tuple == cv && ex.Index == handedUp
					}
					for _, ret := range SuccessReturns(cs.Caller) {
						if !canReach(cs.Call, ret) && !Dominates(cs.Call, ret) {
							continue
						}
						if !guarded(ret, cs.Caller, isUp) {
							bad = "a success return of " + e.FnKey(cs.Caller) + " is not guarded by the boolean " + fn.Name() + " decoded"
						}
					}
				}
				if ncs == 0 {
					bad = ""
				}
			}
			if bad != "" {
				r.Fail("R8", ck, e.InstrPos(c), "the token's `"+method+"` result is decoded but "+bad+": a token that reports failure by returning false (allowed by EIP-20) is treated as having moved the amount — coins are minted / released against tokens that never arrived")
			} else {
				r.Ok("R8", ck, e.InstrPos(c), "every success return requires the decoded boolean to be true")
			}
		})
	}
	if n == 0 {
		r.Fail("R8", "transfer decoders", "", "UNRESOLVED-ANCHOR: no decoder of an ERC-20 transfer / transferFrom result")
	}
}
