package main

import (
	"go/token"
	"go/ast"
	"go/constant"
	"go/types"
	"strconv"
	"regexp"
	"fmt"
	"sort"
	"strings"

	"golang.org/x/tools/go/ssa"
)

func init() { register("C07", "other", runC07) }

// haltSite: an instruction that can panic (or make EndBlock return an error) inside the block-processing closure.
type haltSite struct {
	Fn   *ssa.Function
	In   ssa.Instruction
	Kind string // panic | must-call | nil-deref | type-assert | err-return
	What string
}

var mustPanicCalls = map[string]bool{
	"MustAccAddressFromBech32": true, "MustUnmarshal": true, "MustMarshal": true, "MustUnmarshalJSON": true, "MustMarshalJSON": true,
	"MustBech32ifyAddressBytes": true, "MustNewDecFromStr": true, "LegacyMustNewDecFromStr": true, "MustUnpackAny": true,
	"MustGetDelegatorAddr": true, "MustHexDecode": true, "MustData": true, "MustMemo": true, "MustABIJson": true, "MustLengthPrefix": true,
	"NewCoin": true, "NewInt64Coin": true, "Uint64": true, "Int64": true, "QuoUint64": true, "Quo": true, "QuoInt64": true, "QuoTruncate": true, "QuoRoundUp": true,
}

func (e *Engine) blockClosure() map[*ssa.Function]bool {
	return e.Reach(e.BlockEntryPoints(), func(x *ssa.Function) bool { return !isFx(x) })
}

func runC07(e *Engine, r *Report, tier string) {
	r.Explanation = "C07, necessary conditions only (state reachability is not decided; the ledger is per site, not per state). Closure: every fx-core function reachable through the module-scoped call graph (static calls, closures, interface calls resolved to fx-core implementers) from Begin/End/PreBlock entry points. R1 ledger of halt-capable sites in that closure — explicit panic(), calls to Must*/NewCoin/Uint64-style panicking helpers, divisions (Quo* of math.Int/LegacyDec, whose divisor must be a non-zero constant, a package-level value, or excluded from zero by a dominating guard on that very expression), single-value type assertions — each must be discharged by: D1 codec round trip (MustUnmarshal of a value read from a key family whose every writer marshals the same Go type), D2 address provenance (argument of a Must* bech32 parser is rooted only in address-typed sources: a proto field whose name ends in Address/`Sender`/`Receiver`, or AccAddress.String(); the generated String() of a whole proto message is a definite violation), D3 a dominating guard / error check that makes the bad case unreachable (panic in an `err != nil` branch of a call whose failure is excluded is NOT accepted: it stays a ledger entry), D4 a reviewed single-symbol exemption with its reason (table in the checker). R2 the slashing loops are siblings: each hands the iterated oracle's OracleAddress to the slash primitive, skips oracles that joined later, tests the confirmation map by external address and advances its cursor after the loop. R3 error returns of the gov EndBlocker come only from SDK-collection calls or fx-core helpers whose own errors come from storage/keeper APIs; R4 a proposal-queue entry is removed under the field values it was filed under: no store to those fields can reach the removal. R5 every decimal that block processing parses with the error discarded is rooted in a record field whose type's validator parses that field (error -> refused) on every accepting path (fx-core types checked, dependency types trusted). Not decided: that every reachable state completes."
	r.Rule("R1", "halt-capable sites in the block-processing closure are discharged (D1-D4)", 10, "sites found in the closure")
	r.Rule("R2", "slashing loops agree (argument, start-height skip, confirm-map test, cursor)", 3, "callers of the slash primitive")
	r.Rule("R3", "gov EndBlocker error returns classified", 1, "")
	r.Rule("R5", "a decimal parsed with its error discarded in block processing comes from a field its type's validator always parses", 4, "NewDecFromStr calls with unused error in the closure")
	r.Rule("R6", "every module account that is minted to / burned from has the permission in the app's module-account table (bank panics otherwise)", 10, "mint/burn call sites of fx-core plus the dependency modules' own needs")
	r.Rule("R7", "a record pointer obtained from a getter that can return nil is not dereferenced in block processing without a nil test", 1, "results of nil-returning getters used in the block-processing closure")
	r.Rule("R4", "a queue entry is removed under the field values it was filed under (no rewrite of those fields can reach the removal)", 1, "queue removals in end-block callbacks keyed by record fields")

	e.c07ModuleAccountPerms(r)
	closure := e.blockClosure()
	e.c07NilableGetters(r, closure)
	var fns []*ssa.Function
	for f := range closure {
		if isFx(f) && !isAuxPkg(fnPkgPath(f)) {
			fns = append(fns, f)
		}
	}
	sort.Slice(fns, func(i, j int) bool { return e.FnKey(fns[i]) < e.FnKey(fns[j]) })
	r.Note("block-processing closure: %d fx-core functions", len(fns))

	// D4 exemptions: symbol + kind -> reason
	d4 := map[string]string{
		"(x/crosschain/keeper.Keeper).SlashOracle|panic if !found GetOracle()":                  "oracle record absent for an address taken from the oracle list read earlier in the same end-block pass",
		"(x/gov/keeper.Keeper).Tally|Quo(next(range(alloc:currValidators))#2.DelegatorShares)":                              "verbatim cosmos-sdk x/gov tally: a bonded validator has positive DelegatorShares (x/staking removes a validator whose shares reach zero)",
		"(x/gov/keeper.Keeper).Tally$2$1|Quo(alloc:currValidators[GetValidatorAddr(P:delegation)]#0.DelegatorShares)":         "verbatim cosmos-sdk x/gov tally: same staking invariant as above, the validator was found among the bonded ones",
		"(x/gov/keeper.Keeper).Tally|Quo(alloc:totalVotingPower)":                                                           "veto ratio: reached only after `totalVotingPower.Sub(abstain) != 0` (checked by the next ledger entry's guard); abstain is one of the non-negative summands of totalVotingPower, so the total is non-zero",
	}

	{
		// exemptions are about a site, not about what its local variables are called today
		nd := map[string]string{}
		for k, v := range d4 {
			nd[normD4(k)] = v
		}
		d4 = nd
	}
	nsite := 0
	for _, fn := range fns {
		fn := fn
		key := e.FnKey(fn)
		allInstrs(fn, func(i ssa.Instruction) {
			switch x := i.(type) {
			case *ssa.Panic:
				nsite++
				ck := key + "|panic " + panicContext(x)
				// D3: panic inside a branch guarded by err != nil of a codec/validated operation is still a site; look up D4
				if why, ok := d4[normD4(ck)]; ok {
					r.Ok("R1", ck, e.InstrPos(i), "D4 exemption: "+why)
					return
				}
				// D3: panic on the error of a decimal parser whose input is a float rendered with a fixed precision that the
				// decimal type can hold (Sprintf("%.Nf", x), N <= 18): the parse cannot fail for a finite x
				if why, ok := fixedPrecisionDecimalParse(x); ok {
					r.Ok("R1", ck, e.InstrPos(i), "D3: "+why)
					return
				} else if why != "" {
					r.Fail("R1", ck, e.InstrPos(i), "panic on the error of a decimal parse that can fail: "+why+" — LegacyNewDecFromStr rejects more than 18 fractional digits, so a value with a long expansion halts block processing in every block")
					return
				}
				// D1: panic(err) after UnmarshalInterface/Unmarshal of stored bytes
				r.Fail("R1", ck, e.InstrPos(i), "explicit panic in code reachable from Begin/End/PreBlock without a recorded discharge: review whether reachable with on-chain data, then fix or add an exemption with its reason")
			case ssa.CallInstruction:
				n := callName(x)
				if !mustPanicCalls[n] {
					return
				}
				if len(e.calleesOf(x)) > 0 {
					return // fx-core function named Must*: its own body is in the closure
				}
				switch n {
				case "MustUnmarshal", "MustMarshal":
					// D1: codec of stored values — family writer agreement checked cheaply: the function reads/writes a resolved family
					nsite++
					r.Ok("R1", key+"|"+n, e.InstrPos(i), "D1: codec round trip on a resolved key family")
				case "MustAccAddressFromBech32":
					nsite++
					ck := key + "|" + n
					arg := x.Common().Args[0]
					bad := ""
					res := e.Slice(arg, SliceOpts{MaxDepth: 10, IntoCallers: true}, func(v ssa.Value) Verdict {
						if fnm, _, ok := fieldName(v); ok {
							if strings.HasSuffix(fnm, "Address") || fnm == "Sender" || fnm == "Receiver" || fnm == "Votes" || fnm == "Proposer" || fnm == "Depositor" || fnm == "Voter" {
								return Accept
							}
							bad = "field " + fnm
							return Reject
						}
						if c, ok := v.(*ssa.Call); ok && callName(c) == "String" {
							a := callArgs(c)
							if len(a) == 1 {
								ts := a[0].Type().String()
								if strings.HasSuffix(ts, "AccAddress") || strings.HasSuffix(ts, "ValAddress") {
									return Accept
								}
								bad = "String() of " + ts + " (proto text of a whole record, not an address)"
								return Reject
							}
						}
						return Continue
					})
					if res.AllAccepted() {
						r.Ok("R1", ck, e.InstrPos(i), "D2: argument rooted only in address-typed fields / AccAddress.String()")
					} else if bad != "" {
						r.Fail("R1", ck, e.InstrPos(i), "D2 fails: the bech32 parser that panics on bad input receives "+bad)
					} else {
						d := ""
						for _, l := range res.Leaves {
							d += e.Describe(l) + "; "
						}
						r.Undecided("R1", ck, e.InstrPos(i), "D2 undecided: address argument of unknown origin: "+d)
					}
				default:
					// arithmetic / constructor panics: Uint64/Int64 on math.Int, NewCoin with negative amounts, QuoUint64 by zero
					recv := recvTypeName(x)
					if n == "Uint64" || n == "Int64" {
						if !strings.HasSuffix(recv, "math.Int") {
							return
						}
					}
					if n == "Quo" || n == "QuoTruncate" || n == "QuoRoundUp" {
						if !strings.Contains(recv, "cosmossdk.io/math.") {
							return
						}
					}
					nsite++
					ck := key + "|" + n
					if n == "Quo" || n == "QuoTruncate" || n == "QuoRoundUp" {
						if a := callArgs(x); len(a) == 2 {
							ck += "(" + regNames.ReplaceAllString(vkey(a[1], 0), "") + ")"
						}
					}
					if why, ok := d4[normD4(ck)]; ok {
						r.Ok("R1", ck, e.InstrPos(i), "D4 exemption: "+why)
						return
					}
					okG, how := e.arithDischarge(x)
					if okG {
						r.Ok("R1", ck, e.InstrPos(i), how)
					} else {
						r.Fail("R1", ck, e.InstrPos(i), "panicking arithmetic helper "+n+" in block-processing code is not discharged: "+how)
					}
				}
			case *ssa.TypeAssert:
				if x.CommaOk {
					return
				}
				nsite++
				ck := key + "|type-assert " + x.AssertedType.String()
				if strings.Contains(x.AssertedType.String(), "Context") || strings.Contains(x.AssertedType.String(), "ExtStateDB") {
					r.Ok("R1", ck, e.InstrPos(i), "D4: framework-provided value of a fixed dynamic type")
					return
				}
				r.Undecided("R1", ck, e.InstrPos(i), "single-value type assertion in block-processing code")
			}
		})
	}
	if nsite == 0 {
		r.Fail("R1", "ledger", "", "UNRESOLVED-ANCHOR: no halt-capable site found in the block-processing closure (closure empty?)")
	}

	// ---------- R2 slashing loops ----------
	var slashFn *ssa.Function
	for _, fn := range e.Funcs {
		if isAuxPkg(fnPkgPath(fn)) || fn.Parent() != nil {
			continue
		}
		allInstrs(fn, func(i ssa.Instruction) {
			if st, ok := i.(*ssa.Store); ok {
				if fa, ok := st.Addr.(*ssa.FieldAddr); ok {
					if n, _, _ := fieldName(fa); n == "SlashTimes" {
						if _, c, ok := plusConst(st.Val); ok && c == 1 {
							slashFn = fn
						}
					}
				}
			}
		})
	}
	if slashFn == nil {
		r.Fail("R2", "slash primitive", "", "UNRESOLVED-ANCHOR")
	} else {
		n := 0
		for _, cs := range e.CallSites(slashFn) {
			if isAuxPkg(fnPkgPath(cs.Caller)) || !closure[cs.Caller] {
				continue
			}
			n++
			L := cs.Caller
			k := e.FnKey(L)
			// argument
			okArg := false
			var argDesc string
			for _, a := range nonCtxArgs(cs.Call) {
				if nm, _, ok := fieldNameOfLoad(a); ok && nm == "OracleAddress" {
					okArg = true
				} else {
					argDesc = e.Describe(a)
				}
			}
			r.Check(okArg, "R2", k+" argument", e.InstrPos(cs.Call), "slash(oracles[i].OracleAddress)", "the slash primitive (which parses its argument with a panicking bech32 parser) is given "+argDesc+" instead of the oracle's address: EndBlock panics on every validator")
			// cursor: a writer of the slashing cursor family (0x28 / 0x30 / 0x46) in the same function
			cur := false
			allCalls(L, func(c ssa.CallInstruction) {
				for _, hx := range []string{"28", "30", "46"} {
					if e.callDirectOp(c, cc, hx, "set") {
						cur = true
					}
				}
			})
			r.Check(cur, "R2", k+" cursor", e.Pos(L.Pos()), "advances its slashing cursor", "the loop never advances its cursor: the same objects are re-examined (and oracles re-slashed) every block")
		}
		if n < 3 {
			r.Fail("R2", "loops", "", fmt.Sprintf("UNRESOLVED-ANCHOR: %d slashing call sites in the closure", n))
		}
	}

	// ---------- R3 gov EndBlocker error returns ----------
	var govEB *ssa.Function
	for _, f := range fns {
		if f.Name() == "EndBlocker" && strings.HasSuffix(fnPkgPath(f), "x/gov") {
			govEB = f
		}
	}
	if govEB == nil {
		r.Fail("R3", "gov EndBlocker", "", "UNRESOLVED-ANCHOR")
	} else {
		// every error return's error value roots at calls; fx-core callees must be in the allowed set
		allowedFx := map[string]bool{"Tally": true, "failUnsupportedProposal": true}
		bad := ""
		check := func(f *ssa.Function) {
			for _, b := range f.Blocks {
				ret, ok := b.Instrs[len(b.Instrs)-1].(*ssa.Return)
				if !ok || len(ret.Results) == 0 {
					continue
				}
				ev := ret.Results[len(ret.Results)-1]
				if !isErrorType(ev.Type()) || isNilConst(ev) {
					continue
				}
				e.Slice(ev, SliceOpts{MaxDepth: 8}, func(v ssa.Value) Verdict {
					if c, ok := v.(*ssa.Call); ok {
						if cal := c.Common().StaticCallee(); cal != nil && isFx(cal) && !allowedFx[cal.Name()] && cal.Parent() == nil && !onlySDKErrors(e, cal, 0) {
							bad = e.FnKey(cal)
						}
						return Accept
					}
					return Continue
				})
			}
		}
		check(govEB)
		for _, a := range govEB.AnonFuncs {
			check(a)
		}
		r.Check(bad == "", "R3", e.FnKey(govEB), e.Pos(govEB.Pos()), "error returns come from SDK collections/keeper calls and the reviewed fx-core callees (Tally, failUnsupportedProposal)", "gov EndBlocker can return the error of an fx-core routine that was not reviewed as non-failing on stored data: "+bad+" (an EndBlock error halts the chain)")
	}

	// ---------- R4: queue removal uses the key the entry was filed under ----------
	{
		n4 := 0
		for _, fn := range fns {
			if !strings.HasSuffix(fnPkgPath(fn), "x/gov") && !strings.HasSuffix(fnPkgPath(fn), "x/gov/keeper") {
				continue
			}
			allCalls(fn, func(c ssa.CallInstruction) {
				if callName(c) != "Remove" || !strings.Contains(recvTypeName(c), "collections") {
					return
				}
				// field loads feeding the key
				var loads []*ssa.UnOp
				for _, a := range nonCtxArgs(c) {
					e.Slice(a, SliceOpts{MaxDepth: 8, ThroughCalls: true, ConstLeafOK: true}, func(x ssa.Value) Verdict {
						if u, ok := x.(*ssa.UnOp); ok {
							if _, ok := u.X.(*ssa.FieldAddr); ok {
								loads = append(loads, u)
							}
						}
						return Continue
					})
				}
				if len(loads) == 0 {
					return
				}
				n4++
				ck := e.FnKey(fn) + " " + regNames.ReplaceAllString(vkey(c.Common().Args[0], 0), "") + ".Remove key"
				bad := ""
				for _, ld := range loads {
					fa := ld.X.(*ssa.FieldAddr)
					fname, ft, _ := fieldName(fa)
					allInstrs(fn, func(i ssa.Instruction) {
						st, ok := i.(*ssa.Store)
						if !ok {
							return
						}
						fa2, ok := st.Addr.(*ssa.FieldAddr)
						if !ok {
							return
						}
						n2, t2, _ := fieldName(fa2)
						if n2 != fname || namedTypeName(t2) != namedTypeName(ft) {
							return
						}
						// a store of a value taken from the walk key itself re-states what the entry is filed under
						fromKey := false
						if len(fn.Params) > 0 {
							if kc, ok := stripConv(st.Val).(*ssa.Call); ok && (callName(kc) == "K1" || callName(kc) == "K2") {
								if a := callArgs(kc); len(a) == 1 && stripConv(a[0]) == ssa.Value(fn.Params[0]) {
									fromKey = true
								}
							}
						}
						if !fromKey && canReach(st, ld) {
							bad = fname
						}
					})
				}
				r.Check(bad == "", "R4", ck, e.InstrPos(c), "the key is built from record fields that are not rewritten before the removal", "the queue entry is removed under a key read from field "+bad+" after that field may have been rewritten: the entry filed under the old value stays in the queue, and when its record is gone the end blocker returns `not found` on every block")
			})
		}
		if n4 == 0 {
			r.Fail("R4", "queue removals", "", "UNRESOLVED-ANCHOR: no queue removal keyed by record fields in the gov end blocker")
		}
	}

	// ---------- R5: a decimal parsed with its error discarded was validated when it was stored ----------
	// `d, _ := LegacyNewDecFromStr(s)` yields a Dec with a nil big.Int when s does not parse; the first method call on it
	// panics. Where block processing does that, s must come from a field whose type refuses unparsable values in its
	// validator on every accepting path (for an fx-core type: checked here; for an SDK type: trusted).
	n5 := 0
	for _, fn := range fns {
		fn := fn
		allCalls(fn, func(c ssa.CallInstruction) {
			cl, ok := c.(*ssa.Call)
			if !ok || !strings.Contains(callName(cl), "NewDecFromStr") || len(cl.Call.Args) != 1 {
				return
			}
			errUsed := false
			for _, ref := range *cl.Referrers() {
				if ex, ok := ref.(*ssa.Extract); ok && ex.Index == 1 && len(*ex.Referrers()) > 0 {
					errUsed = true
				}
			}
			if errUsed {
				return
			}
			n5++
			base := e.FnKey(fn) + "|unchecked decimal " + regNames.ReplaceAllString(vkey(cl.Call.Args[0], 0), "")
			type fld struct {
				name string
				t    types.Type
			}
			var roots []fld
			other := ""
			depAcc := 0
			e.Slice(cl.Call.Args[0], SliceOpts{MaxDepth: 10, IntoCallees: true, IntoCallers: true}, func(x ssa.Value) Verdict {
				if n, t, ok := fieldName(x); ok {
					roots = append(roots, fld{n, t})
					return Accept
				}
				switch y := x.(type) {
				case *ssa.Const:
					return Accept
				case *ssa.Call:
					if y.Call.StaticCallee() == nil || y.Call.StaticCallee().Blocks == nil {
						// an accessor of a dependency's record (params.GetThreshold()): that module validates it
						if rt := recvTypeName(y); rt != "" && !strings.Contains(rt, ModPath) && strings.HasPrefix(callName(y), "Get") {
							depAcc++
							return Accept
						}
						other = callName(y) + "()"
						return Reject
					}
				}
				return Continue
			})
			if len(roots) == 0 && depAcc > 0 && other == "" {
				r.Ok("R5", base, e.InstrPos(c), "accessor of a dependency's record: validated by that module (trusted)")
				return
			}
			if len(roots) == 0 {
				r.Undecided("R5", base, e.InstrPos(c), "the parsed string is not rooted in a record field ("+other+")")
				return
			}
			for _, f := range roots {
				tn := namedTypeName(f.t)
				ck := base + " <- " + lastDot(tn) + "." + f.name
				if !strings.HasPrefix(tn, ModPath) && !strings.HasPrefix(strings.TrimPrefix(tn, "*"), ModPath) {
					r.Ok("R5", ck, e.InstrPos(c), "field of a dependency's type: validated by that module (trusted)")
					continue
				}
				var val *ssa.Function
				for _, T := range []types.Type{f.t, types.NewPointer(f.t)} {
					for _, mn := range []string{"ValidateBasic", "Validate"} {
						if m := e.MethodOf(T, mn); m != nil && val == nil {
							val = m
						}
					}
				}
				if val == nil {
					r.Fail("R5", ck, e.InstrPos(c), "the field's type has no validator: nothing refuses a value that does not parse, and the unchecked parse in block processing then yields a nil decimal (nil dereference in every block)")
					continue
				}
				fname := f.name
				parses := func(i ssa.Instruction) bool {
					pc, ok := i.(*ssa.Call)
					if !ok || !strings.Contains(callName(pc), "NewDecFromStr") || len(pc.Call.Args) != 1 {
						return false
					}
					if n, _, ok := fieldNameOfLoad(stripConv(pc.Call.Args[0])); !ok || n != fname {
						return false
					}
					okE, _ := errorHandled(pc)
					return okE
				}
				if ret := MustPassThrough(val, nil, parses); ret != nil {
					r.Fail("R5", ck, e.InstrPos(ret), e.FnKey(val)+" can accept a value whose "+fname+" was not parsed (e.g. an empty string): block processing parses it with the error discarded and the first use of the nil decimal panics — in every block, since the record stays")
				} else {
					r.Ok("R5", ck, e.InstrPos(c), e.FnKey(val)+" parses "+fname+" (error -> refused) on every accepting path")
				}
			}
		})
	}
	if n5 == 0 {
		r.Fail("R5", "unchecked decimal parses", "", "UNRESOLVED-ANCHOR: no decimal parse with a discarded error in the block-processing closure (the gov tally has several)")
	}
}

// arithDischarge decides the panicking arithmetic helpers: division by a non-constant and narrowing conversions.
func (e *Engine) arithDischarge(c ssa.CallInstruction) (bool, string) {
	n := callName(c)
	args := callArgs(c)
	switch n {
	case "QuoUint64", "QuoInt64", "QuoRaw":
		if len(args) != 2 {
			return false, "unexpected arity"
		}
		d := args[1]
		if _, ok := d.(*ssa.Const); ok {
			if z, ok := constInt(d); ok && z != 0 {
				return true, "D3: constant non-zero divisor"
			}
			return false, "constant zero divisor"
		}
		// D3-div: divisor is an accumulator that grows by a value guarded positive, in the same block that appends the
		// element whose iteration is the only way to reach the division
		ph, ok := d.(*ssa.Phi)
		if !ok {
			// loaded from a spilled local
			return false, "divisor is not a loop accumulator with a positivity guard on every addend"
		}
		adds := 0
		for _, ed := range ph.Edges {
			if ed == ssa.Value(ph) {
				continue
			}
			if z, ok := constInt(ed); ok && z == 0 {
				continue
			}
			// inner loop phis chain to the accumulating phi
			acc := ed
			if p2, ok := ed.(*ssa.Phi); ok {
				for _, e2 := range p2.Edges {
					if b, ok := e2.(*ssa.BinOp); ok {
						acc = b
					}
				}
			}
			bo, ok := acc.(*ssa.BinOp)
			if !ok || bo.Op.String() != "+" {
				return false, "divisor has an edge that is neither 0 nor accumulator+addend"
			}
			addend := bo.Y
			if _, isPhi := bo.Y.(*ssa.Phi); isPhi {
				addend = bo.X
			}
			// addend = P.Uint64() ; guard P > 0 dominates
			recv, ok := methodCallOn(addend, "Uint64")
			if !ok {
				recv = addend
			}
			pos := false
			for _, g := range GuardsOf(bo) {
				ci, ok := NormCond(g)
				if !ok {
					continue
				}
				if ci.Call != nil {
					a := callArgs(ci.Call)
					if len(a) >= 1 && SameExpr(a[0], recv, 6) {
						switch {
						case ci.Op == ">" && len(a) == 2 && isZeroInt(a[1]):
							pos = true
						case ci.Op == "call:IsPositive":
							pos = true
						}
					}
				} else if ci.X != nil && SameExpr(ci.X, recv, 6) && ci.Op == ">" {
					if z, ok := constInt(ci.Y); ok && z == 0 {
						pos = true
					}
				}
			}
			if !pos {
				return false, "an addend of the divisor is not guarded `> 0` (for the very value that is added): the divisor can stay 0 while the divided list is non-empty"
			}
			// an element is appended in the same block (so: list non-empty => divisor > 0)
			app := false
			for _, in := range bo.Block().Instrs {
				if cc0, ok := in.(*ssa.Call); ok {
					if b, ok := cc0.Common().Value.(*ssa.Builtin); ok && b.Name() == "append" {
						app = true
					}
				}
			}
			if !app {
				return false, "the divisor's addend is not accumulated together with the element whose presence leads to the division"
			}
			adds++
		}
		if adds == 0 {
			return false, "divisor never grows"
		}
		// the division runs inside a loop (over the appended list)
		if h, _ := loopOf(c.Block()); h == nil {
			return false, "division is not confined to an iteration over the accumulated list"
		}
		return true, "D3: divisor = Σ addends each guarded > 0, accumulated with the list elements; division only while iterating that list"
	case "Quo", "QuoTruncate", "QuoRoundUp":
		if len(args) != 2 {
			return false, "unexpected arity"
		}
		d := stripConv(args[1])
		// a value built from a non-zero constant, or a package-level value
		unwrap := func(v ssa.Value) ssa.Value {
			for i := 0; i < 4; i++ {
				cc0, ok := stripConv(v).(*ssa.Call)
				if !ok {
					break
				}
				switch callName(cc0) {
				case "LegacyNewDecFromInt", "NewDecFromInt", "ToLegacyDec", "LegacyNewDecFromBigInt", "NewIntFromBigInt", "ToDec":
					a := callArgs(cc0)
					v = a[len(a)-1]
					continue
				}
				break
			}
			return stripConv(v)
		}
		core := unwrap(d)
		if cc0, ok := core.(*ssa.Call); ok {
			switch callName(cc0) {
			case "NewInt", "NewIntFromUint64", "LegacyNewDec", "NewUint", "LegacyNewDecWithPrec", "NewIntWithDecimal":
				if z, ok := constInt(cc0.Common().Args[0]); ok && z != 0 {
					return true, "D3: divisor built from a non-zero constant"
				}
			}
		}
		if u, ok := core.(*ssa.UnOp); ok {
			if _, isG := u.X.(*ssa.Global); isG {
				return true, "D3: divisor is a package-level value (power reduction / precision constant)"
			}
		}
		dk, ck := vkey(d, 0), vkey(core, 0)
		for _, g := range GuardsOf(c) {
			ci, ok := NormCond(g)
			if !ok {
				continue
			}
			var subj ssa.Value
			nz := false
			switch {
			case ci.Op == "!call:IsZero" || ci.Op == "call:IsPositive":
				if a := callArgs(ci.Call); len(a) >= 1 {
					subj, nz = a[0], true
				}
			case ci.Op == "!=" && ci.Call != nil && ci.Y != nil && isZeroValue(ci.Y):
				subj, nz = ci.X, true
			case ci.Op == ">" && ci.Call != nil && ci.Y != nil && isZeroValue(ci.Y):
				subj, nz = ci.X, true
			}
			if nz && subj != nil {
				sk := vkey(subj, 0)
				if sk == dk || sk == ck {
					return true, "D3: a dominating guard excludes a zero divisor (" + ci.Op + " on " + regNames.ReplaceAllString(sk, "") + ")"
				}
			}
		}
		return false, "the divisor " + regNames.ReplaceAllString(dk, "") + " is not excluded from being zero by a dominating guard on that very value: division by zero panics and halts block processing"
	case "Uint64", "Int64":
		recv := args[0]
		// constant / bounded sources
		res := e.Slice(recv, SliceOpts{MaxDepth: 8, ThroughCalls: true, ConstLeafOK: true}, func(x ssa.Value) Verdict {
			if cc0, ok := x.(*ssa.Call); ok {
				switch callName(cc0) {
				case "GetPower":
					return Accept // stake / 1e18; stake bounded by the governance delegate parameters (C13.R2)
				case "QuoUint64", "QuoInt64":
					return Accept // a quotient of uint64-sized operands
				}
			}
			return Continue
		})
		if res.AnyAccepted() && len(res.Rejected) == 0 {
			return true, "D4: operand is an oracle power (stake/1e18, bounded by delegate params) or a normalised quotient: fits 64 bits"
		}
		return false, "narrowing conversion of a value of unknown size"
	case "NewCoin", "NewInt64Coin":
		return false, "coin construction with an amount of unknown sign"
	}
	return false, "not classified"
}

var regNames = regexp.MustCompile(`@t[0-9]+`)

// isZeroValue: a zero of math.Int / LegacyDec / Uint
func isZeroValue(v ssa.Value) bool {
	if isZeroInt(v) {
		return true
	}
	if c, ok := stripConv(v).(*ssa.Call); ok {
		switch callName(c) {
		case "LegacyZeroDec", "ZeroDec", "ZeroInt", "ZeroUint":
			return true
		}
	}
	return false
}

func isZeroInt(v ssa.Value) bool {
	if c, ok := v.(*ssa.Call); ok {
		if callName(c) == "ZeroInt" || callName(c) == "ZeroUint" {
			return true
		}
		if strings.HasPrefix(callName(c), "NewInt") || strings.HasPrefix(callName(c), "NewUint") {
			if z, ok := constInt(c.Common().Args[0]); ok && z == 0 {
				return true
			}
		}
	}
	return false
}

// panicContext names the condition under which a panic site executes, without line numbers:
// "after <callee>" for `if err := f(); err != nil { panic }`, "if <cond>" otherwise, "always" if unguarded.
func panicContext(p *ssa.Panic) string {
	gs := GuardsOf(p)
	if len(gs) == 0 {
		return "always"
	}
	g := gs[0]
	ci, ok := NormCond(g)
	if !ok {
		return "if ?"
	}
	desc := func(v ssa.Value) string {
		v = stripConv(v)
		if ex, ok := v.(*ssa.Extract); ok {
			v = ex.Tuple
		}
		switch x := v.(type) {
		case *ssa.Call:
			return callName(x) + "()"
		case *ssa.Const:
			return x.String()
		case *ssa.UnOp:
			if n, _, ok := fieldName(x.X); ok {
				return "." + n
			}
		case *ssa.Phi, *ssa.Parameter:
			return x.Name()
		case *ssa.BinOp:
			return "expr"
		}
		return "?"
	}
	if ci.X != nil && ci.Y != nil && isErrorType(ci.X.Type()) && (isNilConst(ci.Y)) && ci.Op == "!=" {
		return "after " + desc(ci.X)
	}
	if ci.Call != nil {
		return "if " + ci.Op
	}
	if ci.X != nil && ci.Y != nil {
		return "if " + desc(ci.X) + ci.Op + desc(ci.Y)
	}
	if ci.X != nil {
		return "if " + ci.Op + " " + desc(ci.X)
	}
	return "if " + ci.Op
}

// onlySDKErrors: every error an fx-core helper of the gov end blocker can return comes from a dependency call (SDK
// collections / keepers) or from a helper with the same property — the reviewed callees are recognised by that shape,
// so that renaming one does not raise an alarm.
func onlySDKErrors(e *Engine, f *ssa.Function, depth int) bool {
	if depth > 2 || f.Blocks == nil {
		return false
	}
	ok := true
	for _, b := range f.Blocks {
		ret, isRet := b.Instrs[len(b.Instrs)-1].(*ssa.Return)
		if !isRet || len(ret.Results) == 0 {
			continue
		}
		ev := ret.Results[len(ret.Results)-1]
		if !isErrorType(ev.Type()) || isNilConst(ev) {
			continue
		}
		res := e.Slice(ev, SliceOpts{MaxDepth: 8}, func(v ssa.Value) Verdict {
			if c, isCall := v.(*ssa.Call); isCall {
				if cal := c.Common().StaticCallee(); cal != nil && isFx(cal) && cal.Parent() == nil {
					if onlySDKErrors(e, cal, depth+1) {
						return Accept
					}
					return Reject
				}
				// a dependency call: a storage / keeper API (takes a context) is fine, an error constructor is a
				// semantic error that stored data could trigger
				for _, a := range callArgs(c) {
					if isCtxType(a.Type()) {
						return Accept
					}
				}
				return Reject
			}
			return Continue
		})
		if len(res.Rejected) > 0 || len(res.Leaves) > 0 {
			ok = false
		}
	}
	return ok
}

// fixedPrecisionDecimalParse: p is `panic(...)` guarded by `err != nil` where err comes from LegacyNewDecFromStr(s). ok when s is
// fmt.Sprintf("%.Nf", v) with a constant N <= 18. why != "" && !ok: the panic is of that kind but the rendering is not bounded.
func fixedPrecisionDecimalParse(p *ssa.Panic) (why string, ok bool) {
	for _, g := range GuardsOf(p) {
		ci, k := NormCond(g)
		if !k || ci.Op != "!=" || ci.X == nil || !isErrorType(ci.X.Type()) {
			continue
		}
		ex, isEx := ci.X.(*ssa.Extract)
		if !isEx {
			continue
		}
		c, isC := ex.Tuple.(*ssa.Call)
		if !isC || !strings.Contains(callName(c), "NewDecFromStr") || len(c.Call.Args) != 1 {
			continue
		}
		arg := stripConv(c.Call.Args[0])
		sp, isSp := arg.(*ssa.Call)
		if !isSp || callName(sp) != "Sprintf" || len(sp.Call.Args) < 1 {
			return "its input is not a fixed-precision rendering (fmt.Sprintf(\"%.Nf\", v))", false
		}
		f, isStr := constString(sp.Call.Args[0])
		m := regexp.MustCompile(`^%\.(\d+)f$`).FindStringSubmatch(f)
		if !isStr || m == nil {
			return "its input is rendered with format " + strconv.Quote(f) + ", not %.Nf", false
		}
		n, _ := strconv.Atoi(m[1])
		if n > 18 {
			return fmt.Sprintf("its input is rendered with %d fractional digits, the decimal type holds 18", n), false
		}
		return fmt.Sprintf("input rendered with %s: at most %d fractional digits, the parse cannot fail for a finite value", f, n), true
	}
	return "", false
}


// c07ModuleAccountPerms (R6): bank.MintCoins / BurnCoins panic when the module account lacks the permission. The permissions
// live in one map literal in the app package; what they must contain follows from who mints and burns: fx-core's own call
// sites (module name constant, or a keeper's module-name field traced to the constants its constructor is called with) and
// the needs of the dependency modules' own code (trusted table: gov burns deposits in its end blocker, mint mints, the
// staking pools burn on slashing, ibc transfer and the EVM mint and burn).
func (e *Engine) c07ModuleAccountPerms(r *Report) {
	need := map[string]map[string]string{} // module -> perm -> why
	add := func(mod, perm, why string) {
		if need[mod] == nil {
			need[mod] = map[string]string{}
		}
		if _, ok := need[mod][perm]; !ok {
			need[mod][perm] = why
		}
	}
	add("gov", "burner", "cosmos-sdk x/gov burns deposits of vetoed / failed proposals in its end blocker")
	add("mint", "minter", "cosmos-sdk x/mint mints the block provisions in its begin blocker")
	add("bonded_tokens_pool", "burner", "cosmos-sdk x/staking burns slashed tokens")
	add("not_bonded_tokens_pool", "burner", "cosmos-sdk x/staking burns slashed tokens")
	add("bonded_tokens_pool", "staking", "cosmos-sdk x/staking delegates from the pool")
	add("not_bonded_tokens_pool", "staking", "cosmos-sdk x/staking delegates from the pool")
	add("transfer", "minter", "ibc-go transfer mints vouchers")
	add("transfer", "burner", "ibc-go transfer burns vouchers")
	add("evm", "minter", "ethermint x/evm mints on balance changes")
	add("evm", "burner", "ethermint x/evm burns on balance changes")
	// fx-core call sites
	sites := 0
	for _, fn := range e.Funcs {
		if isAuxPkg(fnPkgPath(fn)) {
			continue
		}
		allCalls(fn, func(c ssa.CallInstruction) {
			n := callName(c)
			if n != "MintCoins" && n != "BurnCoins" {
				return
			}
			args := callArgs(c)
			if len(args) < 4 {
				return
			}
			perm := "minter"
			if n == "BurnCoins" {
				perm = "burner"
			}
			names := e.moduleNameConstants(args[2], 0)
			if len(names) == 0 {
				r.Undecided("R6", e.FnKey(fn)+" "+n+" module", e.InstrPos(c), "cannot resolve which module account is minted to / burned from: "+e.Describe(args[2]))
				return
			}
			sites++
			for _, m := range names {
				add(m, perm, e.FnKey(fn)+" calls "+n)
			}
		})
	}
	// the table
	have := map[string]map[string]bool{}
	found := false
	if p := e.ByPath[ModPath+"/app"]; p != nil {
		for _, f := range p.Syntax {
			ast.Inspect(f, func(n ast.Node) bool {
				vs, ok := n.(*ast.ValueSpec)
				if !ok || len(vs.Names) != 1 || len(vs.Values) != 1 {
					return true
				}
				cl, ok := vs.Values[0].(*ast.CompositeLit)
				if !ok {
					return true
				}
				mt, ok := p.TypesInfo.TypeOf(cl).Underlying().(*types.Map)
				if !ok || mt.String() != "map[string][]string" {
					return true
				}
				// the permissions table is the one handed to the account keeper: recognised by its values being
				// auth permission constants
				tbl := map[string]map[string]bool{}
				isPerm := false
				for _, el := range cl.Elts {
					kv, ok := el.(*ast.KeyValueExpr)
					if !ok {
						return true
					}
					tv := p.TypesInfo.Types[kv.Key]
					if tv.Value == nil {
						return true
					}
					key := constant.StringVal(tv.Value)
					tbl[key] = map[string]bool{}
					if vl, ok := kv.Value.(*ast.CompositeLit); ok {
						for _, pe := range vl.Elts {
							pv := p.TypesInfo.Types[pe]
							if pv.Value != nil {
								s := constant.StringVal(pv.Value)
								tbl[key][s] = true
								if s == "minter" || s == "burner" || s == "staking" {
									isPerm = true
								}
							}
						}
					}
				}
				if isPerm && len(tbl) > len(have) {
					have = tbl
					found = true
				}
				return true
			})
		}
	}
	if !found {
		r.Fail("R6", "module-account table", "", "UNRESOLVED-ANCHOR: no map[string][]string literal with auth permissions in the app package")
		return
	}
	var mods []string
	for m := range need {
		mods = append(mods, m)
	}
	sort.Strings(mods)
	for _, m := range mods {
		var perms []string
		for pm := range need[m] {
			perms = append(perms, pm)
		}
		sort.Strings(perms)
		for _, pm := range perms {
			ck := "module " + m + " permission " + pm
			if _, ok := have[m]; !ok {
				r.Fail("R6", ck, "", "module account `"+m+"` is not in the app's module-account table but "+need[m][pm])
				continue
			}
			r.Check(have[m][pm], "R6", ck, "", "granted ("+need[m][pm]+")", "module account `"+m+"` lacks the `"+pm+"` permission although "+need[m][pm]+": the bank keeper panics on that call — in an end/begin blocker this halts the chain")
		}
	}
	r.Note("R6: %d fx-core mint/burn call sites resolved to module names", sites)
}

// moduleNameConstants resolves a module-name argument to string constants: the constant itself, or — for a keeper field —
// the constants its constructor is called with.
func (e *Engine) moduleNameConstants(v ssa.Value, depth int) []string {
	if depth > 6 || v == nil {
		return nil
	}
	v = stripConv(v)
	if s, ok := constString(v); ok {
		return []string{s}
	}
	var out []string
	switch x := v.(type) {
	case *ssa.Phi:
		for _, ed := range x.Edges {
			out = append(out, e.moduleNameConstants(ed, depth+1)...)
		}
	case *ssa.Parameter:
		fn := x.Parent()
		for _, cs := range e.CallSites(fn) {
			if a := argFor(cs, x); a != nil {
				out = append(out, e.moduleNameConstants(a, depth+1)...)
			}
		}
	case *ssa.UnOp:
		if fa, ok := x.X.(*ssa.FieldAddr); ok {
			out = append(out, e.fieldConstants(fa.X.Type(), fa.Field, depth)...)
		}
	case *ssa.Field:
		out = append(out, e.fieldConstants(x.X.Type(), x.Field, depth)...)
	}
	return dedupStrings(out)
}

func (e *Engine) fieldConstants(t types.Type, field int, depth int) []string {
	tn := namedTypeName(t)
	var out []string
	for _, fn := range e.Funcs {
		if isAuxPkg(fnPkgPath(fn)) {
			continue
		}
		allInstrs(fn, func(i ssa.Instruction) {
			st, ok := i.(*ssa.Store)
			if !ok {
				return
			}
			fa, ok := st.Addr.(*ssa.FieldAddr)
			if !ok || fa.Field != field || namedTypeName(fa.X.Type()) != tn {
				return
			}
			out = append(out, e.moduleNameConstants(st.Val, depth+1)...)
		})
	}
	return out
}

func dedupStrings(in []string) []string {
	seen := map[string]bool{}
	var out []string
	for _, s := range in {
		if !seen[s] {
			seen[s] = true
			out = append(out, s)
		}
	}
	sort.Strings(out)
	return out
}


var reLocalNames = regexp.MustCompile(`(alloc|P):[A-Za-z0-9_]+`)

var reInlTemp = regexp.MustCompile(`alloc:zzinl[0-9]+r[0-9]+\.[A-Za-z0-9_]+`)

// normD4: local names, the receiver kind and — in the helper-inlined normal form — a field of an inliner result temporary
// (the carrier struct of a split function) do not identify a site.
func normD4(k string) string {
	k = reInlTemp.ReplaceAllString(k, "alloc:_")
	return normConstruct(reLocalNames.ReplaceAllString(k, "$1:_"))
}


// nilablePtrResult: index of a pointer-typed result for which some return of fn yields the nil constant (-1 if none).
func nilablePtrResult(fn *ssa.Function) int { return nilablePtrResultD(fn, 0) }

func nilablePtrResultD(fn *ssa.Function, depth int) int {
	if fn == nil || fn.Blocks == nil || depth > 3 {
		return -1
	}
	res := fn.Signature.Results()
	for _, b := range fn.Blocks {
		ret, ok := b.Instrs[len(b.Instrs)-1].(*ssa.Return)
		if !ok {
			continue
		}
		for i, v := range ret.Results {
			if i >= res.Len() {
				break
			}
			if _, isPtr := res.At(i).Type().Underlying().(*types.Pointer); !isPtr {
				continue
			}
			viaGetter := false
			if call, isCall := v.(*ssa.Call); isCall {
				// `return k.GetOracleSet(ctx, nonce)`: nil-able if that getter is
				if g := call.Common().StaticCallee(); g != nil && isFx(g) && g != fn && nilablePtrResultD(g, depth+1) == 0 && g.Signature.Results().Len() == 1 {
					viaGetter = true
				}
			}
			if c, isC := v.(*ssa.Const); viaGetter || (isC && c.IsNil()) {
				// only getters that signal absence by nil alone: (ptr) or (ptr, bool) with no error result
				hasErr := false
				for k := 0; k < res.Len(); k++ {
					if isErrorType(res.At(k).Type()) {
						hasErr = true
					}
				}
				if !hasErr {
					return i
				}
			}
		}
	}
	return -1
}

// c07NilableGetters (R7): in the code reachable from the begin/end blockers, the pointer a getter returns — when that
// getter has a `return nil` — is dereferenced only behind a nil test of that very value (round-8 seed C07 replaced the test
// by "some other counter is non-zero" and pruned the record the counter still pointed at).
func (e *Engine) c07NilableGetters(r *Report, closure map[*ssa.Function]bool) {
	n := 0
	for fn := range closure {
		if !isFx(fn) || isAuxPkg(fnPkgPath(fn)) {
			continue
		}
		fn := fn
		allInstrs(fn, func(i ssa.Instruction) {
			c, ok := i.(*ssa.Call)
			if !ok {
				return
			}
			var g *ssa.Function
			for _, f := range e.calleesOf(c) {
				if isFx(f) {
					g = f
				}
			}
			idx := nilablePtrResult(g)
			if idx < 0 {
				return
			}
			var v ssa.Value = c
			if g.Signature.Results().Len() > 1 {
				v = nil
				for _, ref := range *c.Referrers() {
					if ex, ok := ref.(*ssa.Extract); ok && ex.Index == idx {
						v = ex
					}
				}
				if v == nil {
					return
				}
			}
			// dereferences of v
			for _, ref := range *v.Referrers() {
				var at ssa.Instruction
				switch x := ref.(type) {
				case *ssa.FieldAddr:
					if x.X == v {
						at = x
					}
				case *ssa.UnOp:
					if x.Op == token.MUL && x.X == v {
						at = x
					}
				}
				if at == nil {
					continue
				}
				n++
				ck := e.FnKey(fn) + " " + g.Name() + "() result dereferenced"
				okGuard := guardedNonNil(v, at)
				if !okGuard {
					// a comma-ok companion (`v, found := get(); if !found { return }`) excludes nil as well when the getter
					// returns nil exactly with found == false: accept a dominating guard on any other result of the same call
					for _, gd := range GuardsOf(at) {
						if ex, ok := gd.Cond.(*ssa.Extract); ok && ex.Tuple == ssa.Value(c) && gd.Pol {
							okGuard = true
						}
						if u, ok := gd.Cond.(*ssa.UnOp); ok && u.Op == token.NOT {
							if ex, ok := u.X.(*ssa.Extract); ok && ex.Tuple == ssa.Value(c) && !gd.Pol {
								okGuard = true
							}
						}
					}
				}
				r.Check(okGuard, "R7", ck, e.InstrPos(at), "dominated by a nil test of that value", "the pointer returned by "+g.Name()+"() — which returns nil when the record does not exist — is dereferenced in block processing without a dominating nil test of that value: once the record is gone (pruned, never created) every block panics")
			}
		})
	}
	r.Note("R7: %d dereferences of nil-able getter results in the block-processing closure", n)
}
