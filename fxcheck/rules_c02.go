package main

import (
	"fmt"
	"go/ast"
	"go/constant"
	"go/types"
	"strings"

	"golang.org/x/tools/go/ssa"
)

func init() { register("C02", "other", runC02) }

// globalInitInt: package-level var X = <pkg>.NewInt(<const>) ; returns the constant.
func (e *Engine) globalInitInt(pkgSuffix, name string) (int64, bool) {
	p := e.ByPath[ModPath+"/"+pkgSuffix]
	if p == nil {
		return 0, false
	}
	for _, f := range p.Syntax {
		for _, d := range f.Decls {
			gd, ok := d.(*ast.GenDecl)
			if !ok {
				continue
			}
			for _, s := range gd.Specs {
				vs, ok := s.(*ast.ValueSpec)
				if !ok {
					continue
				}
				for i, n := range vs.Names {
					if n.Name != name || i >= len(vs.Values) {
						continue
					}
					if call, ok := vs.Values[i].(*ast.CallExpr); ok && len(call.Args) == 1 {
						if tv := p.TypesInfo.Types[call.Args[0]]; tv.Value != nil {
							if v, ok := constant.Int64Val(constant.ToInt(tv.Value)); ok {
								return v, true
							}
						}
					}
				}
			}
		}
	}
	return 0, false
}

func runC02(e *Engine, r *Report, tier string) {
	r.Explanation = "C02, structural clauses. Decided: R1 in the tally the event is applied only on the branch `not (sum < required)`, `required` = <threshold constant> * get(0x39) / 100 with the constant's value 66, `sum` starts at 0 and only ever adds GetPower() of oracle records that were found for an address in the attestation's vote list (the not-found branch adds nothing), and GetPower is stake / power reduction; R2 a vote is recorded only for the oracle found through the bridger index (0x14) whose record (0x12) exists and is Online, the bridger being the claim's own; R3 signer identity — for the wrapper messages whose payload names its own bridger (MsgClaim, MsgConfirm) equality between the wrapper's signer field and the payload's bridger (mismatch -> error) dominates every success return of ValidateBasic (or the handler body), and every routed fx-core message declares a signer field that exists in its Go type; R4 every transaction-reachable function that stores an oracle record after setting Online=true, assigning DelegateAmount or creating the record refreshes the total power (0x39) on every success path afterwards, and the refresh sums GetPower over online oracles; genesis import computes the total after the last oracle record is stored; R5 distinct voters — the vote append is guarded by a membership test of the appended oracle itself in the vote list whenever the per-oracle nonce can be deleted (decided as C01.R4); R6 the summed votes are votes for the very same event — every field of a claim that is executed is part of its hash through a value-preserving rendering, and vote, store and tally use one (nonce, hash) (decided as C03.R1/R3; the three hash-coverage findings recorded for C03 are known findings here as well). R7 the bridger index through which a voter is resolved agrees with the oracle records (the 0x14 obligations of C13.R1: co-written, re-keyed on edit, deleted under the record's own bridger on unbond). Not decided: `at least 66%` under integer truncation, stake distributions."
	r.Rule("R1", "quorum: apply iff sum(power of found voters) >= 66 * total(0x39) / 100", 5, "")
	r.Rule("R2", "vote admission: bridger -> oracle (0x14, 0x12) found and Online; vote recorded for that oracle", 4, "")
	r.Rule("R3", "signer identity: wrapper signer == payload bridger; signer fields exist", 3, "proto messages with cosmos.msg.v1.signer")
	r.Rule("R4", "total power refreshed after every power-raising oracle write", 2, "bond, add-delegate")
	r.Rule("R5", "distinct voters: the vote list cannot hold one oracle twice (C01.R4 at the vote append)", 1, "vote append sites")
	r.Rule("R6", "the votes that are summed are votes for the very same event: every executed field is hashed injectively and vote/store/tally use one (nonce, hash) (C03.R1-R3)", 6, "C03 obligations")
	sub03 := NewReport("C03", "other")
	runC03(e, sub03, tier)
	for _, o := range sub03.Obls {
		if o.Rule == "R1" || o.Rule == "R3" {
			r.add("R6", "C03."+o.Rule+" "+o.Construct, o.Status, o.Pos, o.Detail)
		}
	}
	// R7: "acting through its registered bridger" relies on the bridger index (0x14) agreeing with the records: every
	// obligation C13.R1 decides about that index (created with the record, re-keyed on edit, deleted under the record's own
	// bridger on unbond, no other writer) is an obligation here
	r.Rule("R7", "the bridger index (0x14) through which a voter is resolved agrees with the oracle records (C13.R1 for 0x14)", 3, "C13 obligations")
	sub13 := NewReport("C13", "other")
	runC13(e, sub13, tier)
	for _, o := range sub13.Obls {
		if o.Rule == "R1" && (strings.Contains(o.Construct, "0x14") || strings.Contains(o.Construct, "(14)") || strings.Contains(strings.ToLower(o.Construct), "bridger")) {
			r.add("R7", "C13.R1 "+o.Construct, o.Status, o.Pos, o.Detail)
		}
	}
	sub01 := NewReport("C01", "other")
	runC01(e, sub01, tier)
	for _, o := range sub01.Obls {
		if o.Rule == "R4" && strings.Contains(o.Construct, "votes-append") {
			r.add("R5", "C01.R4 "+o.Construct, o.Status, o.Pos, o.Detail)
		}
	}

	// ---------- R1 ----------
	_, sites24 := e.writerCallSites(cc, "24", "set")
	if len(sites24) == 0 {
		r.Fail("R1", "tally", "", "UNRESOLVED-ANCHOR: no non-genesis writer call of 0x24")
	}
	for _, cs := range sites24 {
		T := cs.Caller
		k := e.FnKey(T)
		// guard: sum >= required on the applying branch
		var sum, req ssa.Value
		for _, g := range GuardsOf(cs.Call) {
			ci, ok := NormCond(g)
			if !ok || ci.Call == nil {
				continue
			}
			if ci.Op == ">=" || ci.Op == ">" {
				a := callArgs(ci.Call)
				if len(a) == 2 && strings.HasSuffix(a[0].Type().String(), "math.Int") {
					sum, req = a[0], a[1]
					if ci.Op == ">" {
						// strictly greater is stronger; fine
					}
				}
			}
		}
		if sum == nil {
			r.Fail("R1", k+" threshold-branch", e.InstrPos(cs.Call), "the event is applied without a dominating comparison `sum >= required` (e.g. the comparison was inverted or removed)")
			continue
		}
		r.Ok("R1", k+" threshold-branch", e.InstrPos(cs.Call), "applied only on `not (sum < required)`")
		// required = K * get(0x39) / 100
		okReq, why := false, "the bar is not <threshold constant> * <recorded total power> / 100"
		if t := e.arithOf(req, nil, 0); t != nil {
			switch {
			case t.op == "Quo" && t.b != nil && t.b.isK && t.b.k == 100 && t.a != nil && t.a.op == "Mul":
				var kval *ssa.Global
				var tot ssa.Value
				for _, side := range []*arith{t.a.a, t.a.b} {
					if side == nil || side.op != "" {
						continue
					}
					if u, ok := side.leaf.(*ssa.UnOp); ok {
						if g, ok := u.X.(*ssa.Global); ok {
							kval = g
							continue
						}
					}
					tot = side.leaf
				}
				if kval != nil && tot != nil {
					if _, ok := e.valueReadsFamily(tot, cc, "39"); ok {
						v, okv := e.globalInitInt(strings.TrimPrefix(kval.Pkg.Pkg.Path(), ModPath+"/"), kval.Name())
						switch {
						case !okv:
							why = "threshold constant " + kval.Name() + " is not initialised from an integer literal"
						case v != 66:
							why = fmt.Sprintf("threshold constant %s is %d, the property requires 66", kval.Name(), v)
						default:
							okReq = true
						}
					} else {
						why = "the total is not the recorded total power read from 0x39"
					}
				}
			case t.op == "Mul" && ((t.a != nil && t.a.op == "Quo") || (t.b != nil && t.b.op == "Quo")):
				why = "the total is divided by 100 before it is multiplied by the threshold: the truncated quotient lowers the bar (to 0 for a total below 100)"
			}
		}
		r.Check(okReq, "R1", k+" required", e.InstrPos(cs.Call), "required = 66 * get(0x39) / 100", "quorum bar: "+why)
		// sum: phi of NewInt(0) and Add(phi, GetPower(found oracle))
		okSum, whyS := false, "sum is not an accumulator starting at 0"
		if ac, ok := sum.(*ssa.Call); ok && callName(ac) == "Add" {
			// `sum = sum.Add(p); if sum.LT(required)`: the compared value is the freshly added accumulator
			if a := callArgs(ac); len(a) == 2 {
				if ph, ok := a[0].(*ssa.Phi); ok {
					sum = ph
				}
			}
		}
		if ph, ok := sum.(*ssa.Phi); ok {
			zero, adds, other := false, 0, 0
			// the accumulator's web of phis (loop header, latch after an if/else with a `continue`): its non-phi inputs
			inWeb := map[ssa.Value]bool{}
			var leaves []ssa.Value
			var flat func(p *ssa.Phi)
			flat = func(p *ssa.Phi) {
				if inWeb[p] {
					return
				}
				inWeb[p] = true
				for _, ed := range p.Edges {
					if q, ok := ed.(*ssa.Phi); ok {
						flat(q)
					} else {
						leaves = append(leaves, ed)
					}
				}
			}
			flat(ph)
			for _, ed := range leaves {
				if c, ok := ed.(*ssa.Call); ok {
					if strings.HasPrefix(callName(c), "NewInt") || callName(c) == "ZeroInt" {
						if len(c.Common().Args) == 0 {
							zero = true
						} else if v, ok := constInt(c.Common().Args[0]); ok && v == 0 {
							zero = true
						} else {
							other++
						}
						continue
					}
					if callName(c) == "Add" {
						a := callArgs(c)
						if len(a) == 2 && inWeb[a[0]] {
							// a[1] = GetPower(oracle) with oracle read from 0x12 and found
							if pc, ok := a[1].(*ssa.Call); ok && callName(pc) == "GetPower" {
								recv := callArgs(pc)[0]
								fromOracle := false
								e.Slice(recv, SliceOpts{MaxDepth: 6}, func(x ssa.Value) Verdict {
									if _, ok := e.valueReadsFamily(x, cc, "12"); ok {
										fromOracle = true
										return Accept
									}
									return Continue
								})
								// found guard
								found := false
								for _, g := range GuardsOf(c) {
									ci, ok := NormCond(g)
									if ok && ci.Op == "found" {
										if rc, ok := ci.X.(*ssa.Call); ok && e.callDirectOp(rc, cc, "12", "get") {
											found = true
										}
									}
								}
								if fromOracle && found {
									adds++
									// the oracle address comes from the attestation's Votes
									continue
								}
								whyS = "a vote adds power without the voter's oracle record having been found"
							} else {
								whyS = "the amount added per vote is not the oracle record's GetPower()"
							}
						}
					}
				}
				other++
			}
			if zero && adds >= 1 && other == 0 {
				okSum = true
			}
		}
		r.Check(okSum, "R1", k+" sum", e.InstrPos(cs.Call), "sum = 0 + Σ GetPower(found oracle of a recorded voter)", "vote power sum: "+whyS)
	}
	// GetPower shape
	gp := e.Method("x/crosschain/types", "Oracle", "GetPower")
	okGP := false
	if gp != nil {
		allCalls(gp, func(c ssa.CallInstruction) {
			if callName(c) == "Quo" {
				a := callArgs(c)
				if n, _, ok := fieldNameOfLoad(a[0]); ok && n == "DelegateAmount" {
					if u, ok := a[1].(*ssa.UnOp); ok {
						if g, ok := u.X.(*ssa.Global); ok && g.Name() == "DefaultPowerReduction" {
							okGP = true
						}
					}
				}
			}
		})
	}
	r.Check(okGP, "R1", "GetPower shape", "", "power = DelegateAmount / DefaultPowerReduction", "oracle power is no longer recorded stake / power reduction")
	// total power writer sums GetPower over online oracles
	for _, w := range e.FuncsWithOp(cc, "39", "set") {
		if isGenesisOrUpgrade(w) {
			continue
		}
		okT := false
		allCalls(w, func(c ssa.CallInstruction) {
			if callName(c) == "GetAllOracles" {
				for _, a := range c.Common().Args {
					if k, ok := a.(*ssa.Const); ok && k.Value != nil && k.Value.Kind() == constant.Bool && constant.BoolVal(k.Value) {
						okT = true
					}
				}
			}
		})
		hasPow := false
		allCalls(w, func(c ssa.CallInstruction) {
			if callName(c) == "GetPower" {
				hasPow = true
			}
		})
		if !(okT && hasPow) {
			// the other spelling: the sum is taken inside the callback of a walk over the oracle records (0x12); the callback
			// must never ask the walk to stop and must add GetPower exactly for the online records (round-7 seed C02 returned
			// `true` = stop for an offline record)
			allInstrs(w, func(i ssa.Instruction) {
				mc, ok := i.(*ssa.MakeClosure)
				if !ok {
					return
				}
				cl, _ := mc.Fn.(*ssa.Function)
				if cl == nil {
					return
				}
				walks := false
				for _, ref := range *mc.Referrers() {
					if c, ok := ref.(ssa.CallInstruction); ok {
						for _, f := range e.calleesOf(c) {
							if isFx(f) && e.HasTransEffect(f, cc, "12", "iter") {
								walks = true
							}
						}
					}
				}
				if !walks {
					return
				}
				neverStops := true
				for _, b := range cl.Blocks {
					if ret, ok := b.Instrs[len(b.Instrs)-1].(*ssa.Return); ok {
						if len(ret.Results) != 1 {
							neverStops = false
							continue
						}
						if bv, ok := constBool(ret.Results[0]); !ok || bv {
							neverStops = false
						}
					}
				}
				addsOnline := false
				allCalls(cl, func(c ssa.CallInstruction) {
					if callName(c) != "GetPower" {
						return
					}
					for _, g := range GuardsOf(c) {
						ci, ok := NormCond(g)
						if ok && ci.Op == "true" {
							if n, _, ok := fieldNameOfLoad(ci.X); ok && n == "Online" {
								addsOnline = true
							}
						}
					}
				})
				if neverStops && addsOnline {
					okT, hasPow = true, true
				}
			})
		}
		r.Check(okT && hasPow, "R1", e.FnKey(w)+" total", e.Pos(w.Pos()), "recorded total = Σ GetPower over online oracles", "recorded total power is no longer the sum of GetPower over the online oracles")
	}

	// ---------- R2 ----------
	_, sites23 := e.writerCallSites(cc, "23", "set")
	var recorder *ssa.Function
	for _, cs := range sites23 {
		recorder = cs.Caller
	}
	if recorder == nil {
		r.Fail("R2", "vote recorder", "", "UNRESOLVED-ANCHOR")
	} else {
		// oracle parameter of the recorder
		var oraclePar *ssa.Parameter
		for _, p := range recorder.Params {
			if strings.HasSuffix(p.Type().String(), "AccAddress") {
				oraclePar = p
			}
		}
		for _, cs := range e.CallSites(recorder) {
			if isAuxPkg(fnPkgPath(cs.Caller)) {
				continue
			}
			k := e.FnKey(cs.Caller) + " -> " + e.FnKey(recorder)
			a := argFor(cs, oraclePar)
			// a must be result of admission function (or inline lookup)
			adm, ok := stripConv(a).(*ssa.Extract)
			var admCall *ssa.Call
			if ok {
				admCall, _ = adm.Tuple.(*ssa.Call)
			}
			if admCall == nil || admCall.Common().StaticCallee() == nil {
				r.Fail("R2", k, e.InstrPos(cs.Call), "the oracle a vote is recorded for is not the result of the bridger->oracle admission lookup")
				continue
			}
			// the guards an admission needs at a point: found(0x14), found(0x12), Online
			admGuards := func(at ssa.Instruction) (f14, f12, on bool, idxCall *ssa.Call) {
				for _, g := range GuardsOf(at) {
					ci, ok := NormCond(g)
					if !ok {
						continue
					}
					if ci.Op == "found" {
						if rc, ok := ci.X.(*ssa.Call); ok {
							if e.callDirectOp(rc, cc, "14", "get") {
								f14, idxCall = true, rc
							}
							if e.callDirectOp(rc, cc, "12", "get") {
								f12 = true
							}
						}
					}
					if ci.Op == "true" {
						if n, _, ok := fieldNameOfLoad(ci.X); ok && n == "Online" {
							on = true
						}
					}
				}
				return
			}
			if e.callDirectOp(admCall, cc, "14", "get") {
				// the admission lookup is written out at the recording site: the same three guards must
				// dominate the recording call, and the recorded oracle is the index entry by construction
				okBr := false
				for _, x := range admCall.Common().Args {
					if recv, ok := methodCallOn(x, "GetClaimer"); ok {
						for _, y := range cs.Call.Common().Args {
							if SameExpr(recv, y, 5) {
								okBr = true
							}
						}
					}
				}
				r.Check(okBr, "R2", k+" bridger", e.InstrPos(admCall), "admission is checked for the claim's own bridger", "the bridger that is checked is not the bridger of the claim whose vote is recorded")
				f14, f12, on, idxCall := admGuards(cs.Call)
				ck := e.FnKey(cs.Caller)
				r.Check(f14 && idxCall == admCall, "R2", ck+" bridger-index", e.InstrPos(cs.Call), "recording requires the bridger index entry (0x14)", "a vote is admitted without the bridger being registered")
				r.Check(f12, "R2", ck+" oracle-record", e.InstrPos(cs.Call), "recording requires the oracle record (0x12)", "a vote is admitted without an oracle record")
				r.Check(on, "R2", ck+" online", e.InstrPos(cs.Call), "recording requires Online", "an offline oracle can vote")
				continue
			}
			if ok2, _ := errorHandled(admCall); !ok2 {
				r.Fail("R2", k, e.InstrPos(cs.Call), "the admission check's error is ignored")
				continue
			}
			af := admCall.Common().StaticCallee()
			// admission arg = claim.GetClaimer() of the same claim passed to recorder
			okBr := false
			for _, x := range admCall.Common().Args {
				if recv, ok := methodCallOn(x, "GetClaimer"); ok {
					for _, y := range cs.Call.Common().Args {
						if SameExpr(recv, y, 5) {
							okBr = true
						}
					}
				}
			}
			r.Check(okBr, "R2", k+" bridger", e.InstrPos(admCall), "admission is checked for the claim's own bridger", "the bridger that is checked is not the bridger of the claim whose vote is recorded")
			// inside af: success returns dominated by found(0x14), found(0x12), Online
			for _, ret := range SuccessReturns(af) {
				f14, f12, on, idxCall := admGuards(ret)
				r.Check(f14, "R2", e.FnKey(af)+" bridger-index", e.InstrPos(ret), "success requires the bridger index entry (0x14)", "a vote is admitted without the bridger being registered")
				r.Check(f12, "R2", e.FnKey(af)+" oracle-record", e.InstrPos(ret), "success requires the oracle record (0x12)", "a vote is admitted without an oracle record")
				r.Check(on, "R2", e.FnKey(af)+" online", e.InstrPos(ret), "success requires Online", "an offline oracle can vote")
				// returned oracle address = index lookup result
				okRet := false
				if idxCall != nil && len(ret.Results) > 0 {
					e.Slice(ret.Results[0], SliceOpts{MaxDepth: 5}, func(x ssa.Value) Verdict {
						if ex, ok := x.(*ssa.Extract); ok && ex.Tuple == ssa.Value(idxCall) {
							okRet = true
							return Accept
						}
						return Continue
					})
				}
				r.Check(okRet, "R2", e.FnKey(af)+" result", e.InstrPos(ret), "returns the oracle address found through the bridger index", "the oracle returned by admission is not the one registered for the bridger")
			}
		}
	}

	// ---------- R3 ----------
	for _, f := range e.ProtoFiles() {
		if !strings.HasSuffix(f.Path, "tx.proto") {
			continue
		}
		for _, rpc := range f.RPCs {
			m := f.Messages[rpc.Req]
			if m == nil {
				continue
			}
			k := "proto " + rpc.Req + "@" + f.Path
			if len(m.Signers) == 0 {
				r.Fail("R3", k, "", "routed message declares no signer")
				continue
			}
			// Go struct field exists
			goField := camel(m.Signers[0])
			found := false
			for _, p := range e.Pkgs {
				if !strings.HasPrefix(p.PkgPath, ModPath) || !strings.HasSuffix(p.PkgPath, "/types") {
					continue
				}
				if !strings.Contains(f.Path, lastSeg(strings.TrimSuffix(p.PkgPath, "/types"))) && !strings.Contains(p.PkgPath, "crosschain") {
					continue
				}
				if o := p.Types.Scope().Lookup(rpc.Req); o != nil {
					if st, ok := o.Type().Underlying().(*types.Struct); ok && hasField(st, goField) {
						found = true
					}
				}
			}
			r.Check(found, "R3", k, "", "signer field "+m.Signers[0]+" exists in the Go type", "declared signer field "+m.Signers[0]+" not found in the Go message type")
			// wrapper messages: an Any field
			hasAny := false
			for _, fld := range m.Fields {
				if strings.HasSuffix(fld.Type, "Any") {
					hasAny = true
				}
			}
			if !hasAny {
				continue
			}
			wk := "wrapper " + rpc.Req
			vb := e.Method("x/crosschain/types", rpc.Req, "ValidateBasic")
			okEq := false
			var where string
			check := func(fn *ssa.Function) bool {
				if fn == nil {
					return false
				}
				rets := SuccessReturns(fn)
				if len(rets) == 0 {
					return false
				}
				for _, ret := range rets {
					okRet := false
					for _, g := range GuardsOf(ret) {
						ci, ok := NormCond(g)
						if !ok || ci.Op != "==" || ci.X == nil || ci.Y == nil {
							continue
						}
						isWrapper := func(v ssa.Value) bool {
							res := e.Slice(v, SliceOpts{MaxDepth: 8, ThroughCalls: true}, func(x ssa.Value) Verdict {
								if n, st, ok := fieldName(x); ok && n == goField && strings.HasSuffix(namedTypeName(st), "."+rpc.Req) {
									return Accept
								}
								return Continue
							})
							return res.AnyAccepted() && len(res.Rejected) == 0
						}
						isPayload := func(v ssa.Value) bool {
							hit := false
							e.Slice(v, SliceOpts{MaxDepth: 8, ThroughCalls: true}, func(x ssa.Value) Verdict {
								if c, ok := x.(*ssa.Call); ok && (callName(c) == "GetClaimer" || callName(c) == "GetBridgerAddress") && c.Common().IsInvoke() {
									hit = true
									return Accept
								}
								return Continue
							})
							return hit
						}
						if (isWrapper(ci.X) && isPayload(ci.Y)) || (isWrapper(ci.Y) && isPayload(ci.X)) {
							if BranchFailsClean(g.If, !g.Pol, nil) {
								okRet = true
							}
						}
					}
					if !okRet {
						return false
					}
				}
				return true
			}
			if check(vb) {
				okEq, where = true, "ValidateBasic"
			} else {
				for _, h := range e.MsgHandlers() {
					if h.Req.Obj().Name() == rpc.Req && !strings.HasSuffix(fnPkgPath(h.Fn), "/types") {
						if _, isRouter := guardedDelegate(e, h); !isRouter && check(h.Fn) {
							okEq, where = true, e.FnKey(h.Fn)
						}
					}
				}
			}
			r.Check(okEq, "R3", wk, "", "wrapper."+goField+" == payload bridger (else error) on every accepted path of "+where, "the account that must sign "+rpc.Req+" (wrapper "+m.Signers[0]+") is never compared with the bridger named inside the wrapped message, which is the one the vote/confirmation is counted for: anybody can cast another oracle's vote")
		}
	}

	// ---------- R4 ----------
	n4 := 0
	for _, fn := range e.Funcs {
		if isAuxPkg(fnPkgPath(fn)) || isGenesisOrUpgrade(fn) || fn.Parent() != nil || !strings.Contains(fnPkgPath(fn), "x/crosschain/keeper") {
			continue
		}
		raises := ""
		allInstrs(fn, func(i ssa.Instruction) {
			st, ok := i.(*ssa.Store)
			if !ok {
				return
			}
			fa, ok := st.Addr.(*ssa.FieldAddr)
			if !ok {
				return
			}
			n, stt, _ := fieldName(fa)
			if !strings.HasSuffix(namedTypeName(stt), "types.Oracle") {
				return
			}
			if n == "Online" {
				if c, ok := st.Val.(*ssa.Const); ok && c.Value != nil && c.Value.Kind() == constant.Bool && constant.BoolVal(c.Value) {
					raises = "Online=true"
				}
			}
			if n == "DelegateAmount" {
				raises = "DelegateAmount assigned"
			}
		})
		if raises == "" {
			continue
		}
		var set12 ssa.CallInstruction
		allCalls(fn, func(c ssa.CallInstruction) {
			if e.callDirectOp(c, cc, "12", "set") {
				set12 = c
			}
		})
		if set12 == nil {
			continue
		}
		n4++
		off := MustPassThrough(fn, set12, func(i ssa.Instruction) bool {
			c, ok := i.(ssa.CallInstruction)
			return ok && e.callDirectOp(c, cc, "39", "set")
		})
		pos := e.InstrPos(set12)
		if off != nil {
			pos = e.InstrPos(off)
		}
		r.Check(off == nil, "R4", e.FnKey(fn), pos, raises+" then SetOracle; total power (0x39) refreshed on every success path after it", "an oracle's power is raised ("+raises+") and stored without refreshing the recorded total power: the 66% bar would be computed against a total lower than the live power")
	}
	if n4 < 2 {
		r.Fail("R4", "power-raising writers", "", fmt.Sprintf("UNRESOLVED-ANCHOR: %d found", n4))
	}
	// genesis import stores oracle records wholesale: the recorded total must be computed after the last of them (the refresh
	// takes no argument, it sums what is in the store at that moment)
	for _, fn := range e.Funcs {
		if isAuxPkg(fnPkgPath(fn)) || !isGenesisOrUpgrade(fn) || fn.Parent() != nil || !strings.Contains(fnPkgPath(fn), "x/crosschain/keeper") {
			continue
		}
		var sets []ssa.CallInstruction
		hasRefresh := false
		allCalls(fn, func(c ssa.CallInstruction) {
			if e.callDirectOp(c, cc, "12", "set") {
				sets = append(sets, c)
			}
			if e.callDirectOp(c, cc, "39", "set") {
				hasRefresh = true
			}
		})
		if len(sets) == 0 {
			continue
		}
		ck := e.CanonFnKey(fn) + " import"
		bad := ssa.Instruction(nil)
		for _, sc := range sets {
			if off := MustPassThrough(fn, sc, func(i ssa.Instruction) bool {
				c, ok := i.(ssa.CallInstruction)
				return ok && e.callDirectOp(c, cc, "39", "set")
			}); off != nil {
				bad = sc
			}
		}
		switch {
		case !hasRefresh:
			r.Fail("R4", ck, e.Pos(fn.Pos()), "oracle records are imported without computing the recorded total power (0x39): the 66% bar is taken against 0")
		case bad != nil:
			r.Fail("R4", ck, e.InstrPos(bad), "oracle records are stored after the recorded total power (0x39) was computed: the total sums the oracles in the store at that moment, so the imported chain starts with a total of 0 (or of part of the oracles) and a single vote reaches the bar")
		default:
			r.Ok("R4", ck, e.Pos(fn.Pos()), "the recorded total is computed after every imported oracle record is stored")
		}
	}
}

func camel(s string) string {
	parts := strings.Split(s, "_")
	for i, p := range parts {
		if p != "" {
			parts[i] = strings.ToUpper(p[:1]) + p[1:]
		}
	}
	return strings.Join(parts, "")
}

func lastSeg(s string) string {
	if i := strings.LastIndex(s, "/"); i >= 0 {
		return s[i+1:]
	}
	return s
}

// guardedDelegate: handler only delegates (router)
func guardedDelegate(e *Engine, h *Handler) (string, bool) {
	ok, why := e.isPureDelegate(h)
	return why, ok
}

// arith: a small expression tree over math.Int arithmetic (Mul / Quo and their *Raw forms), constants and leaves. One-block
// fx-core helpers that only return such an expression over their parameters are looked through.
type arith struct {
	op   string // "Mul", "Quo", or "" for a leaf
	a, b *arith
	leaf ssa.Value
	k    int64
	isK  bool
}

func (e *Engine) arithOf(v ssa.Value, env map[*ssa.Parameter]ssa.Value, depth int) *arith {
	if v == nil || depth > 8 {
		return nil
	}
	v = stripConv(v)
	if p, ok := v.(*ssa.Parameter); ok && env != nil {
		if a, ok := env[p]; ok {
			return e.arithOf(a, nil, depth+1)
		}
	}
	if k, ok := constInt(v); ok {
		return &arith{k: k, isK: true, leaf: v}
	}
	c, ok := v.(*ssa.Call)
	if !ok {
		return &arith{leaf: v}
	}
	n := callName(c)
	args := callArgs(c)
	switch {
	case (n == "Mul" || n == "Quo") && len(args) == 2:
		return &arith{op: n, a: e.arithOf(args[0], env, depth+1), b: e.arithOf(args[1], env, depth+1)}
	case (n == "MulRaw" || n == "QuoRaw") && len(args) == 2:
		return &arith{op: strings.TrimSuffix(n, "Raw"), a: e.arithOf(args[0], env, depth+1), b: e.arithOf(args[1], env, depth+1)}
	case strings.HasPrefix(n, "NewInt") && len(c.Call.Args) == 1:
		return e.arithOf(c.Call.Args[0], env, depth+1)
	}
	if f := c.Call.StaticCallee(); f != nil && !c.Call.IsInvoke() && len(f.Blocks) == 1 && strings.HasPrefix(fnPkgPath(f), ModPath) && len(f.Params) == len(c.Call.Args) {
		if ret, ok := f.Blocks[0].Instrs[len(f.Blocks[0].Instrs)-1].(*ssa.Return); ok && len(ret.Results) == 1 {
			env2 := map[*ssa.Parameter]ssa.Value{}
			for i, p := range f.Params {
				a := c.Call.Args[i]
				if ap, ok := stripConv(a).(*ssa.Parameter); ok && env != nil {
					if up, ok := env[ap]; ok {
						a = up
					}
				}
				env2[p] = a
			}
			if t := e.arithOf(ret.Results[0], env2, depth+1); t != nil && t.op != "" {
				return t
			}
		}
	}
	return &arith{leaf: v}
}
