package main

import (
	"go/token"
	"go/types"
	"fmt"
	"strings"

	"golang.org/x/tools/go/ssa"
)

func init() { register("C19", "other", runC19) }

func (e *Engine) rootsAtField(v ssa.Value, typSuffix, field string) bool {
	res := e.Slice(v, SliceOpts{MaxDepth: 8, IntoCallers: false}, func(x ssa.Value) Verdict {
		if n, st, ok := fieldName(x); ok && n == field && strings.HasSuffix(namedTypeName(st), typSuffix) {
			return Accept
		}
		if c, ok := x.(*ssa.Call); ok && callName(c) == "Get"+field {
			return Accept
		}
		return Continue
	})
	return res.AllAccepted()
}

func runC19(e *Engine, r *Report, tier string) {
	r.Explanation = "C19, structural clauses. Decided: R1 lifecycle of the IBC transfer relation (erc20 family 0x04, set by the precompile's IBC send keyed channel/sequence): in the middleware keeper every success path of the acknowledgement handler and of the timeout handler passes through a call that (through the wired crosschain -> erc20 keepers) deletes family 0x04, with key arguments rooted in packet.SourceChannel / packet.Sequence and passed through unchanged; R2 the refund re-converts to ERC-20 only behind `delete of 0x04 returned true`, for the packet's sender as both payer and receiver; R3 inbound: conversion to ERC-20 is dominated by `denom != FX` and `receiver is a hex address` (else error), its coin amount is the packet amount, and every keeper error becomes an error acknowledgement after the inner module succeeded (never the success ack); R7 every success return of the routine behind the inbound conversion call follows the erc20 ConvertCoin call (no `nothing to do` early success); R4 the memo call's EVM sender is the hash of (packet source port/channel, packet data sender) and nothing else. R8 the erc20 conversion behind the credit / refund fails as a whole when a leg fails (imported from C08.R7). Not decided: duplicated/replayed acknowledgements (IBC core), whether source or destination channel identifiers are the right uniqueness domain (observation in DESIGN.md)."
	r.Rule("R1", "relation 0x04 deleted on ack-success, ack-error and timeout; keyed by packet source channel + sequence; ack classified by response type", 5, "terminal callbacks of the middleware keeper")
	r.Rule("R2", "refund converts only if the relation existed; holder = packet sender", 2, "")
	r.Rule("R3", "inbound conversion guarded; keeper error -> error acknowledgement", 3, "")
	r.Rule("R7", "the inbound conversion routine converts to ERC-20 on every success path", 1, "implementations of the conversion call in OnRecvPacket")
	r.Rule("R9", "an acknowledgement / timeout callback succeeds only if the refund hook succeeded: the hook's error is the callback's error (a swallowed error lets IBC core clear the packet with the sender never refunded in ERC-20 form)", 2, "OnAcknowledgementPacket / OnTimeoutPacket of IBCModule implementers")
	e.c19HookErrorIsCallbackError(r)
	r.Rule("R6", "a failing conversion of a received coin fails the packet (its error is never swallowed): C04.R8 at the middleware", 1, "C04 obligations")
	{
		sub04 := NewReport("C04", "other")
		runC04(e, sub04, tier)
		for _, o := range sub04.Obls {
			if o.Rule == "R8" && strings.Contains(o.Construct, "x/ibc/middleware") {
				r.add("R6", "C04.R8 "+o.Construct, o.Status, o.Pos, o.Detail)
			}
		}
	}
	r.Rule("R8", "the erc20 conversion that credits / refunds the hex account fails as a whole when one of its legs fails (C08.R7)", 8, "C08 obligations")
	{
		sub08 := NewReport("C08", "other")
		runC08(e, sub08, tier)
		for _, o := range sub08.Obls {
			if o.Rule == "R7" {
				r.add("R8", "C08.R7 "+o.Construct, o.Status, o.Pos, o.Detail)
			}
		}
	}
	r.Rule("R4", "intermediate sender = hash(source port/channel, data.Sender), rendered injectively", 3, "")

	// R5: the relation key is an injective encoding of (channel, sequence)
	r.Rule("R5", "relation key encodes (channel, sequence) injectively", 1, "key constructors of erc20:04")
	nkc := 0
	for _, fn := range e.Funcs {
		if fn.Parent() != nil || !strings.HasSuffix(fnPkgPath(fn), "x/erc20/types") || fn.Signature.Recv() != nil {
			continue
		}
		isKey := false
		for _, b := range fn.Blocks {
			if ret, ok := b.Instrs[len(b.Instrs)-1].(*ssa.Return); ok && len(ret.Results) == 1 {
				for id := range e.KeyFamilies(ret.Results[0]) {
					if famMatch(id, "erc20", "04") {
						isKey = true
					}
				}
			}
		}
		if !isKey {
			continue
		}
		nkc++
		cs, ok := e.keyComponents(fn)
		k := e.FnKey(fn)
		if !ok {
			r.Undecided("R5", k, e.Pos(fn.Pos()), "key constructor shape not recognised (not append/Sprintf built): injectivity of (channel, sequence) -> key cannot be decided")
			continue
		}
		if amb := keyAmbiguity(cs); amb != "" {
			r.Fail("R5", k, e.Pos(fn.Pos()), "two different (channel, sequence) pairs can produce the same relation key: "+amb+" (e.g. channel-1/12 and channel-11/2): in-flight transfers would share one tracking record")
		} else {
			r.Ok("R5", k, e.Pos(fn.Pos()), fmt.Sprintf("%d components, variable-length parts separated", len(cs)))
		}
	}
	if nkc == 0 {
		r.Fail("R5", "key constructor", "", "UNRESOLVED-ANCHOR: no key constructor for erc20:04")
	}

	mwk := "x/ibc/middleware/keeper"
	// setters of 0x04 exist (the family is in use)
	if len(e.FuncsWithOp("erc20", "04", "set")) == 0 {
		r.Fail("R1", "family erc20:04", "", "UNRESOLVED-ANCHOR: nothing sets the IBC transfer relation")
	}
	deletes04 := func(i ssa.Instruction) bool {
		c, ok := i.(ssa.CallInstruction)
		return ok && e.HasTransEffect2(c, "erc20", "04", "delete")
	}
	for _, name := range []string{"OnAcknowledgementPacket", "OnTimeoutPacket"} {
		fn := e.Method(mwk, "Keeper", name)
		if fn == nil {
			r.Fail("R1", name, "", "UNRESOLVED-ANCHOR: middleware keeper callback not found")
			continue
		}
		k := e.FnKey(fn)
		if name == "OnAcknowledgementPacket" {
			// "rejected" is decided the way the transfer module decides it: by the type of ack.Response (or ack.Success()),
			// not by a property of the error text — otherwise the two layers disagree on some acknowledgements
			okClass, other := false, ""
			for _, b := range fn.Blocks {
				iff, ok := b.Instrs[len(b.Instrs)-1].(*ssa.If)
				if !ok {
					continue
				}
				cond := iff.Cond
				for {
					if u, ok := cond.(*ssa.UnOp); ok && u.Op == token.NOT {
						cond = u.X
						continue
					}
					break
				}
				isType := false
				switch x := cond.(type) {
				case *ssa.Extract:
					if ta, ok := x.Tuple.(*ssa.TypeAssert); ok && strings.Contains(ta.AssertedType.String(), "Acknowledgement_") {
						isType = true
					}
				case *ssa.Call:
					if callName(x) == "Success" {
						isType = true
					}
				}
				if isType {
					okClass = true
					continue
				}
				// another test over the acknowledgement
				dep := false
				for _, p := range fn.Params {
					if strings.HasSuffix(p.Type().String(), "types.Acknowledgement") && e.rootsParam(cond, p) {
						dep = true
					}
				}
				if dep {
					other = regNames.ReplaceAllString(vkey(cond, 0), "")
				}
			}
			if other != "" {
				r.Fail("R1", k+" classification", e.Pos(fn.Pos()), "the acknowledgement is classified by "+other+" instead of the type of its response: an error acknowledgement the transfer module refunds (e.g. one with an empty error text) is treated as a success here, so the bank refund is never converted back to ERC-20 and the relation is dropped")
			} else {
				r.Check(okClass, "R1", k+" classification", e.Pos(fn.Pos()), "rejected / accepted decided by the type of ack.Response", "no classification of the acknowledgement by its response type found")
			}
		}
		// every success path deletes 0x04 (directly or in a helper called on that path)
		helperDeletes := func(i ssa.Instruction) bool {
			if deletes04(i) {
				return true
			}
			return false
		}
		off := MustPassThrough(fn, nil, helperDeletes)
		pos := e.Pos(fn.Pos())
		if off != nil {
			pos = e.InstrPos(off)
		}
		r.Check(off == nil, "R1", k, pos, "every success path reaches a deleter of erc20:04", "a terminal IBC callback can succeed without removing the transfer relation (0x04): the record of that transfer stays forever / a later packet with the same key is mis-refunded")
		// key args at the deepest fx call sites reachable: check in all functions of this package reachable from fn
		for f := range e.Reach([]*ssa.Function{fn}, func(x *ssa.Function) bool { return !strings.Contains(fnPkgPath(x), mwk) }) {
			if !strings.Contains(fnPkgPath(f), mwk) {
				continue
			}
			allCalls(f, func(c ssa.CallInstruction) {
				if !deletes04(c) || len(e.calleesOf(c)) == 0 {
					return
				}
				in := false
				for _, cal := range e.calleesOf(c) {
					if !strings.Contains(fnPkgPath(cal), mwk) {
						in = true
					}
				}
				if !in {
					return
				}
				okCh, okSeq := false, false
				for _, a := range nonCtxArgs(c) {
					ts := a.Type().String()
					if ts == "string" && e.rootsAtField(a, "types.Packet", "SourceChannel") {
						okCh = true
					}
					if ts == "uint64" && e.rootsAtField(a, "types.Packet", "Sequence") {
						okSeq = true
					}
				}
				r.Check(okCh && okSeq, "R1", e.FnKey(f)+" -> "+callName(c)+" key", e.InstrPos(c), "relation key = (packet.SourceChannel, packet.Sequence)", "the relation is looked up under a key that is not the packet's source channel and sequence (the key it was stored under)")
			})
		}
	}
	// pass-through in the crosschain keeper -> erc20 keeper
	for _, fn := range e.Funcs {
		if isAuxPkg(fnPkgPath(fn)) || fn.Parent() != nil || !strings.Contains(fnPkgPath(fn), "x/crosschain/keeper") {
			continue
		}
		allCalls(fn, func(c ssa.CallInstruction) {
			if !e.callDirectOp(c, "erc20", "04", "delete") && !(e.HasTransEffect2(c, "erc20", "04", "delete") && c.Common().IsInvoke()) {
				return
			}
			ok := 0
			for _, a := range nonCtxArgs(c) {
				if p, isP := stripConv(a).(*ssa.Parameter); isP && (p.Type().String() == "string" || p.Type().String() == "uint64") {
					ok++
				}
			}
			r.Check(ok >= 2, "R1", e.FnKey(fn)+" pass-through", e.InstrPos(c), "channel and sequence passed through unchanged", "channel/sequence are not passed through unchanged to the relation delete")
		})
	}

	// R2: refund routine in erc20: deletes 0x04 and converts
	nref := 0
	for _, fn := range e.Funcs {
		if isAuxPkg(fnPkgPath(fn)) || fn.Parent() != nil || !strings.Contains(fnPkgPath(fn), "x/erc20/keeper") {
			continue
		}
		var del, conv ssa.CallInstruction
		allCalls(fn, func(c ssa.CallInstruction) {
			if e.callDirectOp(c, "erc20", "04", "delete") {
				del = c
			}
			if callName(c) == "ConvertCoin" {
				conv = c
			}
		})
		if del == nil || conv == nil {
			continue
		}
		nref++
		k := e.FnKey(fn)
		okG := false
		for _, g := range GuardsOf(conv) {
			v, pol := g.Cond, g.Pol
			if u, ok := v.(*ssa.UnOp); ok && u.Op.String() == "!" {
				v, pol = u.X, !pol
			}
			if v == del.(ssa.Value) && pol {
				okG = true
			}
		}
		r.Check(okG, "R2", k+" once", e.InstrPos(conv), "ERC-20 re-conversion only when the relation was present and has just been deleted", "the refund converts to ERC-20 without `relation deleted == true`: a transfer that did not start from ERC-20, or a replayed refund, is converted")
		// holder
		var senderPar *ssa.Parameter
		for _, p := range fn.Params {
			if strings.HasSuffix(p.Type().String(), "AccAddress") {
				senderPar = p
			}
		}
		okH := 0
		allInstrs(fn, func(i ssa.Instruction) {
			st, ok := i.(*ssa.Store)
			if !ok {
				return
			}
			fa, ok := st.Addr.(*ssa.FieldAddr)
			if !ok {
				return
			}
			n, stt, _ := fieldName(fa)
			if !strings.HasSuffix(namedTypeName(stt), "MsgConvertCoin") || (n != "Sender" && n != "Receiver") {
				return
			}
			if senderPar != nil && e.rootsAtParam(st.Val, senderPar) {
				okH++
			}
		})
		r.Check(okH == 2, "R2", k+" holder", e.InstrPos(conv), "converted from and to the packet sender", "the refund is converted for an account other than the packet's sender")
	}
	if nref == 0 {
		r.Fail("R2", "refund routine", "", "UNRESOLVED-ANCHOR: no erc20 function deletes 0x04 and converts")
	}
	// the sender handed down is data.Sender
	if fn := e.Method(mwk, "Keeper", "refundPacketTokenHook"); fn != nil {
		allCalls(fn, func(c ssa.CallInstruction) {
			if !deletes04(c) {
				return
			}
			ok := false
			for _, a := range nonCtxArgs(c) {
				if strings.HasSuffix(a.Type().String(), "AccAddress") && e.rootsAtField(a, "FungibleTokenPacketData", "Sender") {
					ok = true
				}
			}
			r.Check(ok, "R2", e.FnKey(fn)+" sender", e.InstrPos(c), "refund holder = packet data sender", "the refund is not addressed to the packet's sender")
		})
	}

	// R3 inbound
	if fn := e.Method(mwk, "Keeper", "OnRecvPacket"); fn == nil {
		r.Fail("R3", "OnRecvPacket", "", "UNRESOLVED-ANCHOR")
	} else {
		var conv ssa.CallInstruction
		allCalls(fn, func(c ssa.CallInstruction) {
			if c.Common().IsInvoke() && e.callReachesExternal(c, "MintCoins") && strings.Contains(callName(c), "Evm") {
				conv = c
			}
		})
		if conv == nil {
			r.Fail("R3", e.FnKey(fn)+" conversion", e.Pos(fn.Pos()), "UNRESOLVED-ANCHOR: inbound conversion call not found")
		} else {
			okDenom, okHex := false, false
			for _, g := range GuardsOf(conv) {
				ci, ok := NormCond(g)
				if !ok {
					continue
				}
				if ci.Op == "!=" && ci.Y != nil {
					isNative := false
					if s, ok := constString(ci.Y); ok && s != "" {
						isNative = true
					}
					if u, ok := ci.Y.(*ssa.UnOp); ok {
						if _, ok := u.X.(*ssa.Global); ok {
							isNative = true
						}
					}
					// what is compared with the native denom is the denom of the very coin that is converted (the coin the
					// transfer module credited), not some other rendering of the packet's denomination
					if isNative {
						subj := ci.X
						if gc, ok := stripConv(subj).(*ssa.Call); ok && (callName(gc) == "GetDenom") {
							if as := callArgs(gc); len(as) == 1 {
								subj = nil
								for _, a := range nonCtxArgs(conv) {
									if strings.HasSuffix(a.Type().String(), "types.Coin") && coinTermOf(a).Denom == coinTermOf(as[0]).Denom {
										okDenom = true
									}
								}
							}
						}
						if subj != nil {
							for _, a := range nonCtxArgs(conv) {
								if strings.HasSuffix(a.Type().String(), "types.Coin") && (coinTermOf(a).Denom == vkey(subj, 0) || coinTermOf(a).Denom == fkey(subj, "", 0)) {
									okDenom = true
								}
							}
						}
					}
				}
				if ci.Op == "found" || ci.Op == "true" {
					// isEvmAddr is the 2nd result of ParseAddress
					if ex, ok := ci.X.(*ssa.Call); ok && callName(ex) == "ParseAddress" {
						okHex = BranchFailsClean(g.If, !g.Pol, func(i ssa.Instruction) bool { return e.EffectOf(i) != "" })
					}
				}
			}
			if !okHex {
				// path-consistent form: with repeated tests of one boolean correlated, every success path that performs the
				// conversion has the hex flag true (no dominating guard needed)
				if paths, loop := successPaths(fn); !loop && len(paths) > 0 {
					all, any := true, false
					for _, p := range paths {
						has := false
						for _, c := range p.Calls {
							if c == conv {
								has = true
							}
						}
						if !has {
							continue
						}
						any = true
						hex := false
						for a, v := range p.Atoms {
							if strings.HasPrefix(a, "ok:ParseAddress(") && v {
								hex = true
							}
						}
						if !hex {
							all = false
						}
					}
					okHex = any && all
				}
			}
			r.Check(okDenom, "R3", e.FnKey(fn)+" denom-guard", e.InstrPos(conv), "conversion for every credited coin whose own denom is not FX", "the test that exempts the native coin from the conversion is not made on the denom of the coin that is converted (or is missing): a foreign voucher that merely carries the name FX in its trace stays an unconverted bank coin behind a hex address, with a success acknowledgement")
			r.Check(okHex, "R3", e.FnKey(fn)+" hex-guard", e.InstrPos(conv), "non-hex receiver -> error before conversion", "a bech32 receiver's coins are converted to ERC-20 (or the hex test no longer fails the packet)")
			ok, _ := errorHandled(conv)
			amt := false
			for _, a := range nonCtxArgs(conv) {
				if strings.HasSuffix(a.Type().String(), "types.Coin") {
					res := e.Slice(a, SliceOpts{MaxDepth: 8, ThroughCalls: true}, func(x ssa.Value) Verdict {
						if n, st, ok := fieldName(x); ok && n == "Amount" && strings.HasSuffix(namedTypeName(st), "FungibleTokenPacketData") {
							return Accept
						}
						return Continue
					})
					amt = res.AnyAccepted()
				}
			}
			r.Check(ok && amt, "R3", e.FnKey(fn)+" amount", e.InstrPos(conv), "converted coin amount = packet amount; error propagates", "the converted amount is not the packet's amount or the conversion error is dropped")
			// R7: the routine behind that call credits ERC-20 on every success path — a success return that skips the erc20
			// conversion leaves plain bank coins behind a hex address and still yields a success acknowledgement
			nimpl := 0
			for _, impl := range e.calleesOf(conv) {
				if impl.Blocks == nil || isAuxPkg(fnPkgPath(impl)) {
					continue
				}
				nimpl++
				isConv := func(i ssa.Instruction) bool {
					c2, ok := i.(ssa.CallInstruction)
					if !ok {
						return false
					}
					if canonName(callName(c2)) == "ConvertCoin" {
						return true
					}
					for _, cal := range e.calleesOf(c2) {
						if cal == impl {
							continue
						}
						if canonName(cal.Name()) == "ConvertCoin" {
							return true
						}
						// a helper that itself converts on every success path (BaseCoinToEvm)
						conv := func(i2 ssa.Instruction) bool {
							c3, ok := i2.(ssa.CallInstruction)
							return ok && canonName(callName(c3)) == "ConvertCoin"
						}
						if cal.Blocks != nil && MustPassThrough(cal, nil, conv) == nil && callsNamed(cal, "ConvertCoin") {
							if ok, _ := errorHandled(c2); ok {
								return true
							}
						}
					}
					return false
				}
				ck := e.CanonFnKey(impl) + " credits-erc20"
				if ret := MustPassThrough(impl, nil, isConv); ret != nil {
					r.Fail("R7", ck, e.InstrPos(ret), "a success return of the inbound conversion routine is reached without the ERC-20 conversion: the received coins stay as bank coins of the hex account while the packet is acknowledged as successful")
				} else {
					r.Ok("R7", ck, e.Pos(impl.Pos()), "every success return follows the erc20 ConvertCoin call")
				}
			}
			if nimpl == 0 {
				r.Fail("R7", "inbound conversion routine", e.InstrPos(conv), "UNRESOLVED-ANCHOR: no implementation of the inbound conversion call")
			}
		}
	}
	// middleware: keeper error -> error ack
	for _, T := range e.TypesImplementing("github.com/cosmos/ibc-go/v8/modules/core/05-port/types", "IBCModule") {
		fn := e.MethodOf(T, "OnRecvPacket")
		if fn == nil || !isFx(fn) || isAuxPkg(fnPkgPath(fn)) {
			continue
		}
		k := e.FnKey(fn)
		var kc ssa.CallInstruction
		allCalls(fn, func(c ssa.CallInstruction) {
			if callName(c) == "OnRecvPacket" && !c.Common().IsInvoke() {
				kc = c
			}
		})
		if kc == nil {
			continue
		}
		// error result -> If != nil -> returns NewErrorAcknowledgement(err)
		okAck := false
		if v, ok := kc.(ssa.Value); ok {
			for _, ref := range *v.Referrers() {
				bo, ok := ref.(*ssa.BinOp)
				if !ok {
					continue
				}
				for _, r2 := range *bo.Referrers() {
					iff, ok := r2.(*ssa.If)
					if !ok {
						continue
					}
					tb := iff.Block().Succs[0]
					if bo.Op.String() == "==" {
						tb = iff.Block().Succs[1]
					}
					for _, in := range tb.Instrs {
						if ret, ok := in.(*ssa.Return); ok && len(ret.Results) == 1 {
							res := e.Slice(ret.Results[0], SliceOpts{MaxDepth: 5}, func(x ssa.Value) Verdict {
								if c, ok := x.(*ssa.Call); ok && callName(c) == "NewErrorAcknowledgement" {
									return Accept
								}
								return Continue
							})
							if res.AllAccepted() {
								okAck = true
							}
						}
					}
				}
			}
		}
		r.Check(okAck, "R3", k+" error-ack", e.InstrPos(kc), "keeper error -> NewErrorAcknowledgement(err)", "a failing follow-up step does not produce an error acknowledgement: IBC core would commit the packet's writes (credited coins stay although the conversion/call failed)")
	}

	// R4
	is := e.PkgFunc("x/ibc/middleware/types", "IntermediateSender")
	if is == nil {
		// renamed: the function of the middleware that derives an EVM address with the SDK's address.Hash
		is = e.findFn(func(f *ssa.Function) bool {
			if !strings.Contains(fnPkgPath(f), "x/ibc/middleware") || f.Signature.Results().Len() != 1 || !strings.HasSuffix(f.Signature.Results().At(0).Type().String(), "common.Address") {
				return false
			}
			hit := false
			allCalls(f, func(c ssa.CallInstruction) {
				if cal := c.Common().StaticCallee(); cal != nil && cal.Name() == "Hash" && cal.Pkg != nil && strings.HasSuffix(cal.Pkg.Pkg.Path(), "types/address") {
					hit = true
				}
			})
			return hit
		})
	}
	if is == nil {
		r.Fail("R4", "IntermediateSender", "", "UNRESOLVED-ANCHOR")
	} else {
		// hash(prefix(port,channel), sender)
		okShape := false
		allCalls(is, func(c ssa.CallInstruction) {
			if callName(c) != "Hash" {
				return
			}
			a := c.Common().Args
			if len(a) != 2 {
				return
			}
			pre := e.Slice(a[0], SliceOpts{MaxDepth: 8, ThroughCalls: true, ThroughBinOps: true, ConstLeafOK: true}, func(x ssa.Value) Verdict {
				if p, ok := x.(*ssa.Parameter); ok && (p == is.Params[0] || p == is.Params[1]) {
					return Accept
				}
				return Continue
			})
			snd := e.rootsAtParam(a[1], is.Params[2])
			if len(pre.Accepted) >= 2 && len(pre.Leaves) == 0 && snd {
				okShape = true
			}
		})
		r.Check(okShape, "R4", "IntermediateSender shape", e.Pos(is.Pos()), "address = Hash(port+\"/\"+channel, sender)", "the derived sender no longer commits to port, channel and original sender")
		// injectivity of the pre-image: the identifiers reach the hash as they are (formatting with a constant format and
		// conversions only) — a call that can map two identifiers to one value, or whose error is thrown away, lets a remote
		// party derive another account's address
		badCall := ""
		allCalls(is, func(c ssa.CallInstruction) {
			n := callName(c)
			switch n {
			case "Hash", "Sprintf", "BytesToAddress", "Bytes", "String":
				return
			}
			if _, isBuiltin := c.Common().Value.(*ssa.Builtin); isBuiltin {
				return
			}
			v, ok := c.(ssa.Value)
			if !ok {
				return
			}
			// does the call's result reach the Hash arguments?
			reaches := false
			allCalls(is, func(h ssa.CallInstruction) {
				if callName(h) != "Hash" {
					return
				}
				for _, a := range h.Common().Args {
					if e.rootsValue(a, v) {
						reaches = true
					}
				}
			})
			if !reaches {
				return
			}
			badCall = n
			if tup, ok := v.Type().(*types.Tuple); ok {
				for i := 0; i < tup.Len(); i++ {
					if isErrorType(tup.At(i).Type()) {
						used := false
						for _, ref := range *v.Referrers() {
							if ex, ok := ref.(*ssa.Extract); ok && ex.Index == i && ex.Referrers() != nil && len(*ex.Referrers()) > 0 {
								used = true
							}
						}
						if !used {
							badCall = n + " (its error is discarded)"
						}
					}
				}
			}
		})
		r.Check(badCall == "", "R4", "IntermediateSender injective", e.Pos(is.Pos()), "port, channel and sender reach the hash unchanged (constant-format rendering only)", "an identifier reaches the hashed pre-image through "+badCall+", which can map different identifiers to the same value: packets from another channel or sender derive the same account")
		for _, cs := range e.CallSites(is) {
			if isAuxPkg(fnPkgPath(cs.Caller)) {
				continue
			}
			a := cs.Call.Common().Args
			k := e.FnKey(cs.Caller) + " -> IntermediateSender"
			okArgs := len(a) == 3
			if okArgs {
				// port/channel: parameters that at the callers root at packet.SourcePort/SourceChannel
				p0 := e.sliceIntoCallersField(a[0], "types.Packet", "SourcePort")
				p1 := e.sliceIntoCallersField(a[1], "types.Packet", "SourceChannel")
				p2 := e.rootsAtField(a[2], "FungibleTokenPacketData", "Sender")
				okArgs = p0 && p1 && p2
			}
			r.Check(okArgs, "R4", k, e.InstrPos(cs.Call), "arguments are the packet's source port, source channel and data.Sender", "the memo-call sender is not derived from (packet source port, packet source channel, data.Sender): a remote user could obtain another account's derived address")
			// result feeds CallEVM from
			okFrom := false
			if v, ok := cs.Call.(ssa.Value); ok {
				for _, ref := range *v.Referrers() {
					if c, ok := ref.(ssa.CallInstruction); ok {
						for _, f := range e.calleesOf(c) {
							allCalls(f, func(cx ssa.CallInstruction) {
								if callName(cx) == "CallEVM" {
									na := nonCtxArgs(cx)
									if len(na) > 0 {
										for _, p := range f.Params {
											if strings.HasSuffix(p.Type().String(), "common.Address") && e.rootsAtParam(na[0], p) {
												okFrom = true
											}
										}
									}
								}
							})
						}
					}
				}
			}
			r.Check(okFrom, "R4", k+" used-as-from", e.InstrPos(cs.Call), "the EVM call's `from` is the derived sender", "the EVM call is not made from the derived sender")
		}
	}
	_ = fmt.Sprint
}

// sliceIntoCallersField: v (possibly a parameter) roots, through all callers, at the given packet field.
func (e *Engine) sliceIntoCallersField(v ssa.Value, typSuffix, field string) bool {
	res := e.Slice(v, SliceOpts{MaxDepth: 10, IntoCallers: true}, func(x ssa.Value) Verdict {
		if n, st, ok := fieldName(x); ok && n == field && strings.HasSuffix(namedTypeName(st), typSuffix) {
			return Accept
		}
		return Continue
	})
	return res.AllAccepted()
}


// c19HookErrorIsCallbackError (R9): IBC core deletes the packet commitment when the callback returns nil; the refund can
// never be retried afterwards. So the middleware's ack / timeout callbacks must reach the code that settles the transfer
// relation (deletes erc20 0x04) through calls whose error they return, on every success path.
func (e *Engine) c19HookErrorIsCallbackError(r *Report) {
	n := 0
	var propagates func(F *ssa.Function, depth int) (bool, string, ssa.Instruction)
	propagates = func(F *ssa.Function, depth int) (bool, string, ssa.Instruction) {
		if depth > 3 {
			return false, "call chain to the refund hook too deep to decide", nil
		}
		var why string
		var at ssa.Instruction
		okAny := false
		allCalls(F, func(c ssa.CallInstruction) {
			if okAny {
				return
			}
			reaches := false
			var next *ssa.Function
			for _, f := range e.calleesOf(c) {
				if isFx(f) && e.HasTransEffect(f, "erc20", "04", "delete") {
					reaches = true
					next = f
				}
			}
			if !reaches {
				return
			}
			at = c
			res := c.Common().Signature().Results()
			hasErr := false
			for i := 0; i < res.Len(); i++ {
				if isErrorType(res.At(i).Type()) {
					hasErr = true
				}
			}
			if !hasErr {
				why = "the call that reaches the refund hook (" + callName(c) + ") returns no error: a failed refund cannot fail the callback"
				return
			}
			if ok, w := errorHandled(c); !ok {
				why = "the error of " + callName(c) + " is not propagated: " + w
				return
			}
			if off := MustPassThrough(F, nil, func(i ssa.Instruction) bool { return i == ssa.Instruction(c) }); off != nil {
				why = "the callback can return success without having run the refund hook"
				at = off
				return
			}
			if next != nil && !strings.Contains(fnPkgPath(next), "/keeper") {
				// a relay inside the middleware package: it must propagate as well
				if ok2, w2, at2 := propagates(next, depth+1); !ok2 {
					why, at = w2, at2
					return
				}
			}
			okAny = true
		})
		if okAny {
			return true, "", nil
		}
		if why == "" {
			why = "no call reaches the code that settles the transfer relation (erc20 0x04)"
		}
		return false, why, at
	}
	for _, T := range e.TypesImplementing("github.com/cosmos/ibc-go/v8/modules/core/05-port/types", "IBCModule") {
		for _, mn := range []string{"OnAcknowledgementPacket", "OnTimeoutPacket"} {
			F := e.MethodOf(T, mn)
			if F == nil || !isFx(F) || isAuxPkg(fnPkgPath(F)) {
				continue
			}
			if !e.HasTransEffect(F, "erc20", "04", "delete") {
				// not the fx middleware's settlement path (e.g. a pass-through wrapper)
				reach := false
				for f := range e.Reach([]*ssa.Function{F}, func(x *ssa.Function) bool { return !isFx(x) }) {
					if e.HasTransEffect(f, "erc20", "04", "delete") {
						reach = true
					}
				}
				if !reach {
					continue
				}
			}
			n++
			ok, why, at := propagates(F, 0)
			pos := e.Pos(F.Pos())
			if at != nil {
				pos = e.InstrPos(at)
			}
			r.Check(ok, "R9", e.FnKey(F)+" hook error", pos, "returns the refund hook's error; success only after the hook ran", why+": IBC core then clears the packet although the sender was not refunded in ERC-20 form and the tracking record stays")
		}
	}
	if n == 0 {
		r.Fail("R9", "callbacks", "", "UNRESOLVED-ANCHOR: no IBCModule implementer whose ack / timeout callback reaches the transfer relation")
	}
}
