package main

import (
	"fmt"
	"go/types"
	"strings"

	"golang.org/x/tools/go/ssa"
)

func init() { register("C01", "other", runC01) }

const cc = "crosschain"

// nonGenesisCallSites of the functions directly performing op on family.
func (e *Engine) writerCallSites(mod, hx, ops string) (writers []*ssa.Function, sites []*Edge) {
	writers = e.FuncsWithOp(mod, hx, ops)
	for _, w := range writers {
		for _, cs := range e.CallSites(w) {
			if isAuxPkg(fnPkgPath(cs.Caller)) || isGenesisOrUpgrade(cs.Caller) {
				continue
			}
			sites = append(sites, cs)
		}
	}
	return
}

// argFor maps a parameter of callee to the argument at a call site (static or invoke).
func argFor(cs *Edge, p *ssa.Parameter) ssa.Value {
	idx := paramIndex(p)
	args := cs.Call.Common().Args
	if cs.Call.Common().IsInvoke() {
		idx--
	}
	if idx < 0 || idx >= len(args) {
		return nil
	}
	return args[idx]
}

// uint64ArgIndex: first argument of the call with underlying uint64 type, skipping ctx/receiver.
func firstArgOfKind(c ssa.CallInstruction, k types.BasicKind) ssa.Value {
	for _, a := range c.Common().Args {
		if b, ok := a.Type().Underlying().(*types.Basic); ok && b.Kind() == k {
			return a
		}
	}
	return nil
}

// contiguityGuard: among the guards dominating instruction `at`, find `X.GetEventNonce() == read(fam)+1` (normalised
// polarity "=="), X structurally equal to claim. Returns the reader call.
func (e *Engine) contiguityGuard(at ssa.Instruction, claim ssa.Value, hx string) (*ssa.Call, *Guard) {
	for _, g := range GuardsOf(at) {
		g := g
		ci, ok := NormCond(g)
		if !ok || ci.Op != "==" || ci.X == nil || ci.Y == nil {
			continue
		}
		for _, pr := range [][2]ssa.Value{{ci.X, ci.Y}, {ci.Y, ci.X}} {
			recv, ok := eventNonceOf(pr[0])
			if !ok || !SameExpr(recv, claim, 6) {
				continue
			}
			base, c, ok := plusConst(pr[1])
			if !ok || c != 1 {
				continue
			}
			if rc, ok := e.valueReadsFamily(base, cc, hx); ok {
				return rc, &g
			}
		}
	}
	return nil, nil
}

func runC01(e *Engine, r *Report, tier string) {
	r.Explanation = "C01, structural clauses only. Decided (D): R1 the last observed event nonce (family 0x24) is written outside genesis only with claim.GetEventNonce() of a claim for which the guard `!att.Observed && claim.nonce == get(0x24)+1` dominates; R2 that write and the persisted Observed=true dominate the event-handler dispatch, and the dispatch is reachable from entry points only through the tally function; R3 the vote recorder is guarded by `claim.nonce == get(0x23,oracle)+1` (mismatch -> error) and writes 0x23 := claim.nonce on every success path; R4 0x23 is written only by the vote recorder/genesis and, since it can be deleted, the vote append is guarded by a not-yet-voted test; R5 a parked claim (0x54) is deleted before any handler effect, keyed by the looked-up nonce, written only by the dispatcher under the claim's own nonce; R6 every ExternalClaim implementer is dispatched; R7 the per-oracle nonce (0x23) is deleted only under a dominating test that it is not ahead of the last observed nonce (0x24), so an oracle that re-bonds cannot vote again for a pending nonce; R8 genesis import rebuilds 0x23 from every attestation and vote, conditional only on the running maximum (not on the last observed nonce). Not decided (—): quorum arithmetic (C02), effects of each event (C04), behaviour under concrete interleavings (the rules are path-universal instead)."
	r.Trusted = []string{"go/ssa dominance", "key-family resolution by prefix byte", "ExternalClaim accessors (GetEventNonce) are pure getters"}
	r.Assumptions = []string{"transactions are atomic (a failing Msg handler's writes are discarded by the SDK)"}

	r.Rule("R1", "non-genesis write of 0x24 uses the guarded claim's own nonce; guard `!Observed && nonce == get(0x24)+1` dominates", 1, "writers of key family crosschain:24")
	r.Rule("R2", "0x24 write and Observed=true persisted dominate handler dispatch; dispatch reachable only via the tally", 2, "dispatch call + who-may-call")
	r.Rule("R3", "vote recorder: per-oracle contiguity guard dominates vote append; 0x23 written on every success path", 2, "callers of writers of crosschain:23")
	r.Rule("R4", "writers/deleters of 0x23 closed; vote append guarded by not-yet-voted when 0x23 can be deleted", 2, "writers of crosschain:23")
	r.Rule("R7", "0x23 deleted only when it is not ahead of the last observed nonce (no pending vote is forgotten)", 1, "deleters of crosschain:23")
	r.Rule("R8", "genesis import rebuilds 0x23 from every attestation and vote (no selection by the last observed nonce)", 1, "genesis-time writer calls of crosschain:23")
	r.Rule("R5", "pending claim 0x54 deleted before handler effects; written only by the dispatcher keyed by the claim's nonce", 3, "writers/deleters of crosschain:54")
	r.Rule("R6", "every ExternalClaim implementer is dispatched by the attestation handler; parked kinds by the executor", 6, "implementers of types.ExternalClaim")

	// ---------- R1 ----------
	w24, sites24 := e.writerCallSites(cc, "24", "set")
	if len(w24) == 0 {
		r.Fail("R1", "family crosschain:24", "", "UNRESOLVED-ANCHOR: no writer of 0x24 found")
	}
	var tallyFns []*ssa.Function
	for _, cs := range sites24 {
		T := cs.Caller
		ck := e.FnKey(T) + " -> set(0x24)"
		val := firstArgOfKind(cs.Call, types.Uint64)
		claim, ok := eventNonceOf(val)
		if !ok {
			r.Fail("R1", ck, e.InstrPos(cs.Call), "value written to 0x24 is not <claim>.GetEventNonce(): "+e.Describe(val))
			continue
		}
		tallyFns = append(tallyFns, T)
		// guard in T itself?
		if rc, _ := e.contiguityGuard(cs.Call, claim, "24"); rc != nil && e.observedFalseGuard(cs.Call) {
			r.Ok("R1", ck, e.InstrPos(cs.Call), "guard in the same function")
			continue
		}
		cp, isParam := stripConv(claim).(*ssa.Parameter)
		if !isParam {
			r.Fail("R1", ck, e.InstrPos(cs.Call), "no dominating guard `claim.nonce == get(0x24)+1 && !Observed` and the claim is not a parameter")
			continue
		}
		// guard at every call site of T
		csT := e.CallSites(T)
		n := 0
		for _, up := range csT {
			if isAuxPkg(fnPkgPath(up.Caller)) {
				continue
			}
			n++
			ck2 := e.FnKey(up.Caller) + " -> " + e.FnKey(T)
			a := argFor(up, cp)
			rc, _ := e.contiguityGuard(up.Call, a, "24")
			obs := e.observedFalseGuard(up.Call)
			switch {
			case rc == nil:
				r.Fail("R1", ck2, e.InstrPos(up.Call), "call of the tally is not dominated by `claim.GetEventNonce() == <read 0x24>+1` for the claim it passes")
			case !obs:
				r.Fail("R1", ck2, e.InstrPos(up.Call), "call of the tally is not dominated by `!att.Observed`")
			default:
				r.Ok("R1", ck2, e.InstrPos(up.Call), "dominated by !Observed && claim.nonce == get(0x24)+1 on the same claim value")
			}
		}
		if n == 0 {
			r.Fail("R1", ck, e.InstrPos(cs.Call), "tally function has no call site")
		} else {
			r.Ok("R1", ck, e.InstrPos(cs.Call), "writes claim.GetEventNonce() of its claim parameter; guard checked at its call sites")
		}
	}

	// ---------- R2 ----------
	w54, _ := e.writerCallSites(cc, "54", "set")
	// the attestation handler = a function that parks claims (calls a 0x54 writer) and runs under the tally; a
	// function that parks claims anywhere else is not a dispatcher by definition (round-7 seed C01: genesis import
	// parked every observed claim again, executed or not) -- it is judged by R5
	underTally := e.Reach(tallyFns, nil)
	var dispatchers []*ssa.Function
	var strayParkers []*Edge
	for _, w := range w54 {
		for _, cs := range e.CallSites(w) {
			c := cs.Caller
			if isAuxPkg(fnPkgPath(c)) {
				continue
			}
			if underTally[c] && !isGenesisOrUpgrade(c) {
				dispatchers = append(dispatchers, c)
			} else {
				strayParkers = append(strayParkers, cs)
			}
		}
	}
	if len(dispatchers) == 0 {
		r.Fail("R2", "dispatcher", "", "UNRESOLVED-ANCHOR: no function parks claims in 0x54")
	}
	isDisp := func(f *ssa.Function) bool {
		for _, d := range dispatchers {
			if d == f {
				return true
			}
		}
		return false
	}
	for _, T := range tallyFns {
		// calls in T that reach a dispatcher
		found := false
		allCalls(T, func(c ssa.CallInstruction) {
			var cands []*ssa.Function
			if f := c.Common().StaticCallee(); f != nil {
				cands = append(cands, f)
			} else if c.Common().IsInvoke() {
				cands = e.Implementers(c.Common().Value.Type(), c.Common().Method.Name())
			}
			reaches := false
			for _, f := range cands {
				if !isFx(f) {
					continue
				}
				for g := range e.Reach([]*ssa.Function{f}, nil) {
					if isDisp(g) {
						reaches = true
					}
				}
			}
			if !reaches {
				return
			}
			found = true
			ck := e.FnKey(T) + " dispatch via " + callName(c)
			// dominated by 0x24 write
			var w24call, w17call ssa.Instruction
			allCalls(T, func(d ssa.CallInstruction) {
				if e.callDirectOp(d, cc, "24", "set") && Dominates(d, c) {
					w24call = d
				}
				if e.callDirectOp(d, cc, "17", "set") && Dominates(d, c) {
					w17call = d
				}
			})
			if w24call == nil {
				r.Fail("R2", ck, e.InstrPos(c), "handler dispatch is not dominated by the write of the last observed nonce (0x24)")
				return
			}
			if w17call == nil {
				r.Fail("R2", ck, e.InstrPos(c), "handler dispatch is not dominated by a write of the attestation (0x17)")
				return
			}
			// Observed=true stored before that 0x17 write
			okObs := false
			allInstrs(T, func(i ssa.Instruction) {
				st, ok := i.(*ssa.Store)
				if !ok {
					return
				}
				fa, ok := st.Addr.(*ssa.FieldAddr)
				if !ok {
					return
				}
				if n, _, _ := fieldName(fa); n != "Observed" {
					return
				}
				if c, ok := st.Val.(*ssa.Const); ok && c.Value != nil && c.Value.String() == "true" && Dominates(i, w17call) {
					okObs = true
				}
			})
			if !okObs {
				r.Fail("R2", ck, e.InstrPos(c), "attestation persisted before dispatch is not marked Observed=true")
				return
			}
			r.Ok("R2", ck, e.InstrPos(c), "dominated by set(0x24) and by Observed=true + set(0x17)")
			// apply-once: when the dispatch sits in a loop (over the votes), no path leads from it back into the loop —
			// otherwise every remaining vote re-runs the whole observe block for the same nonce
			if h, loop := loopOf(c.Block()); h != nil {
				seenB := map[*ssa.BasicBlock]bool{}
				back := false
				var dfs func(b *ssa.BasicBlock)
				dfs = func(b *ssa.BasicBlock) {
					if seenB[b] || back {
						return
					}
					seenB[b] = true
					for _, s2 := range b.Succs {
						if s2 == h {
							back = true
							return
						}
						if loop[s2] {
							dfs(s2)
						}
					}
				}
				dfs(c.Block())
				r.Check(!back, "R2", ck+" apply-once", e.InstrPos(c), "after the dispatch the vote loop is left on every path (the event is applied once per tally)", "after the event handler was dispatched the vote loop continues: for every further vote the threshold is still met and the observe block (0x24 write, Observed, handler, event) runs again for the same nonce")
			} else {
				r.Ok("R2", ck+" apply-once", e.InstrPos(c), "the dispatch is not on a cycle of the tally's control flow: at most one application per tally")
			}
		})
		if !found {
			r.Fail("R2", e.FnKey(T)+" dispatch", e.Pos(T.Pos()), "tally function never reaches the attestation handler (anchor unresolved)")
		}
	}
	// who-may-call: dispatcher reachable from entry points only through a tally function
	entries := append(e.TxEntryPoints(), e.BlockEntryPoints()...)
	isTally := func(f *ssa.Function) bool {
		for _, t := range tallyFns {
			if t == f {
				return true
			}
		}
		return false
	}
	for _, d := range dispatchers {
		p := e.PathTo(entries, func(f *ssa.Function) bool { return f == d }, isTally)
		ck := "who-may-call " + e.FnKey(d)
		if p != nil {
			r.Fail("R2", ck, e.Pos(d.Pos()), "attestation handler reachable without passing the tally: "+strings.Join(p, " -> "))
		} else {
			r.Ok("R2", ck, e.Pos(d.Pos()), "reachable from tx/block entry points only through "+fnKeys(e, tallyFns))
		}
	}

	// ---------- R3 / R4 ----------
	w23, sites23 := e.writerCallSites(cc, "23", "set")
	if len(w23) == 0 {
		r.Fail("R3", "family crosschain:23", "", "UNRESOLVED-ANCHOR: no writer of 0x23")
	}
	_, del23 := e.writerCallSites(cc, "23", "delete")
	var recorders []*ssa.Function
	for _, cs := range sites23 {
		A := cs.Caller
		recorders = append(recorders, A)
		ck := e.FnKey(A)
		val := firstArgOfKind(cs.Call, types.Uint64)
		claim, ok := eventNonceOf(val)
		if !ok {
			r.Fail("R3", ck+" set(0x23)", e.InstrPos(cs.Call), "value written to 0x23 is not <claim>.GetEventNonce()")
			continue
		}
		// vote append: store to field Votes
		var appends []ssa.Instruction
		allInstrs(A, func(i ssa.Instruction) {
			if st, ok := i.(*ssa.Store); ok {
				if fa, ok := st.Addr.(*ssa.FieldAddr); ok {
					if n, _, _ := fieldName(fa); n == "Votes" {
						appends = append(appends, i)
					}
				}
			}
		})
		if len(appends) == 0 {
			r.Fail("R3", ck+" votes-append", e.Pos(A.Pos()), "function writing 0x23 does not append to Attestation.Votes (anchor unresolved)")
			continue
		}
		for _, ap := range appends {
			rc, g := e.contiguityGuard(ap, claim, "23")
			if rc == nil {
				r.Fail("R3", ck+" votes-append", e.InstrPos(ap), "vote append not dominated by `claim.GetEventNonce() == <read 0x23>+1`")
				continue
			}
			// mismatch fails clean
			if !BranchFailsClean(g.If, !g.Pol, func(i ssa.Instruction) bool { return e.EffectOf(i) != "" }) {
				r.Fail("R3", ck+" votes-append", e.InstrPos(g.If), "nonce mismatch does not return an error before any effect")
				continue
			}
			// the reader's oracle argument equals the writer's oracle argument
			same := false
			for _, ra := range rc.Common().Args {
				for _, wa := range cs.Call.Common().Args {
					if strings.HasSuffix(ra.Type().String(), "AccAddress") && SameExpr(ra, wa, 5) {
						same = true
					}
				}
			}
			if !same {
				r.Fail("R3", ck+" votes-append", e.InstrPos(ap), "contiguity is checked for a different oracle than the one whose last nonce is written")
				continue
			}
			r.Ok("R3", ck+" votes-append", e.InstrPos(ap), "guarded by claim.nonce == get(0x23, oracle)+1 with error on mismatch")
			// R4b: not-yet-voted guard when deleters exist
			if len(del23) > 0 {
				if e.notYetVotedGuard(ap) {
					r.Ok("R4", "votes-append", e.InstrPos(ap), fmt.Sprintf("0x23 has %d tx-reachable deleter(s); append guarded by a not-yet-voted test", len(del23)))
				} else {
					r.Fail("R4", "votes-append", e.InstrPos(ap), "0x23 can be deleted ("+e.FnKey(del23[0].Caller)+") while votes persist, and the vote append is not guarded by a membership test of the appended value itself in the vote list: an oracle can be counted twice")
				}
			} else {
				r.Ok("R4", "votes-append", e.InstrPos(ap), "no tx-reachable deleter of 0x23")
			}
		}
		// 0x23 write on every success path after the attestation write
		var w17 ssa.Instruction
		allCalls(A, func(c ssa.CallInstruction) {
			if w17 == nil && e.callDirectOp(c, cc, "17", "set") {
				w17 = c
			}
		})
		if w17 == nil {
			r.Fail("R3", ck+" set(0x23) on success", e.Pos(A.Pos()), "vote recorder does not persist the attestation (0x17)")
		} else if ret := MustPassThrough(A, w17, func(i ssa.Instruction) bool { return i == ssa.Instruction(cs.Call) }); ret != nil {
			r.Fail("R3", ck+" set(0x23) on success", e.InstrPos(ret), "a success return after the vote is persisted skips the write of the oracle's last nonce")
		} else {
			r.Ok("R3", ck+" set(0x23) on success", e.InstrPos(cs.Call), "every success path after set(0x17) writes 0x23 := claim.nonce")
		}
	}
	// R4a: writers closed: all non-genesis call sites of 0x23 writers are in recorders, which append votes (checked above)
	for _, w := range w23 {
		r.Ok("R4", "writers "+e.FnKey(w), e.Pos(w.Pos()), fmt.Sprintf("%d non-genesis call site(s), all checked as vote recorders", len(sites23)))
	}
	// direct raw writers elsewhere (set on 0x23 not via the writer functions) are already in FuncsWithOp

	// ---------- R7: the per-oracle nonce is forgotten only when it is not ahead of the last observed nonce ----------
	// Deleting 0x23 makes the oracle start over from the last observed event nonce. If its stored nonce is ahead of that, it
	// has votes in attestations that are still pending and could vote for those nonces again, for a competing claim
	// (K-C01-2). Every tx-reachable deletion must therefore be guarded by `get(0x23, oracle) <= get(0x24)`.
	checkDel := func(at ssa.Instruction, addrArgs []ssa.Value, ck string) {
		okGuard := false
		for _, g := range GuardsOf(at) {
			ci, ok := NormCond(g)
			if !ok || ci.X == nil || ci.Y == nil {
				continue
			}
			var lo, hi ssa.Value
			switch ci.Op {
			case "<=", "<", "==":
				lo, hi = ci.X, ci.Y
			case ">=", ">":
				lo, hi = ci.Y, ci.X
			default:
				continue
			}
			rc, ok1 := e.valueReadsFamily(lo, cc, "23")
			_, ok2 := e.valueReadsFamily(hi, cc, "24")
			_, hi23 := e.valueReadsFamily(hi, cc, "23")
			if !ok1 || !ok2 || hi23 {
				continue
			}
			// the nonce that is compared is the one of the oracle whose nonce is deleted
			same := false
			for _, a := range rc.Call.Args {
				for _, b := range addrArgs {
					if isAddrLike(a.Type()) && isAddrLike(b.Type()) && SameExpr(a, b, 6) {
						same = true
					}
				}
			}
			if same {
				okGuard = true
			}
		}
		if okGuard {
			r.Ok("R7", ck, e.InstrPos(at), "guarded by get(0x23, oracle) <= get(0x24): no pending vote of the oracle exists")
		} else {
			r.Fail("R7", ck, e.InstrPos(at), "the oracle's last event nonce is deleted without a dominating test that it is not ahead of the last observed event nonce: an oracle with votes in pending attestations starts over from the last observed nonce and can vote for a pending nonce a second time, for a competing claim")
		}
	}
	// sites: call sites of the deleting primitive (its key comes from a parameter) — in transactions and in upgrade /
	// migration code alike, only genesis import/export builds the state from scratch — and bulk deletions (key from an
	// iterator) at the deleting instruction itself
	nDel := 0
	for _, so := range e.OpsOn(cc, "23", "delete") {
		f := so.Fn
		if isAuxPkg(fnPkgPath(f)) || strings.Contains(rootFn(f).Name(), "Genesis") {
			continue
		}
		fromParam := false
		if so.Key != nil {
			kk := vkey(so.Key, 0)
			for _, p := range f.Params {
				if isAddrLike(p.Type()) && strings.Contains(kk, "P:"+p.Name()) {
					fromParam = true
				}
			}
		}
		if !fromParam {
			nDel++
			checkDel(so.Instr, nil, e.CanonFnKey(f)+" bulk delete(0x23)")
			continue
		}
		for _, cs := range e.CallSites(f) {
			if isAuxPkg(fnPkgPath(cs.Caller)) || strings.Contains(rootFn(cs.Caller).Name(), "Genesis") {
				continue
			}
			nDel++
			checkDel(cs.Call, cs.Call.Common().Args, e.CanonFnKey(cs.Caller)+" delete(0x23)")
		}
	}
	if nDel == 0 {
		r.Ok("R7", "no deleter", "", "0x23 is never deleted in transaction-reachable code")
	}

	// ---------- R8: genesis import rebuilds every oracle's nonce from every vote ----------
	// 0x23 is not exported; InitGenesis rebuilds it as the highest nonce among the attestations an oracle voted for. The rebuild
	// may be conditional on that maximum only: skipping attestations by comparing their nonce with the last observed one loses
	// the record of an oracle whose newest vote is at or below it (the fallback is lastObserved-1, and moves), so the oracle can
	// vote again for a nonce it voted, or skip one.
	n8 := 0
	for _, w := range w23 {
		for _, cs := range e.CallSites(w) {
			if isAuxPkg(fnPkgPath(cs.Caller)) || !isGenesisOrUpgrade(cs.Caller) {
				continue
			}
			n8++
			ck := e.CanonFnKey(cs.Caller) + " rebuild(0x23)"
			bad := ""
			for _, g := range GuardsOf(cs.Call) {
				ci, ok := NormCond(g)
				if !ok {
					continue
				}
				for _, v := range []ssa.Value{ci.X, ci.Y} {
					if v == nil {
						continue
					}
					_, r24 := e.valueReadsFamily(v, cc, "24")
					_, r23 := e.valueReadsFamily(v, cc, "23")
					if r24 && !r23 {
						bad = "a comparison with the last observed event nonce (0x24)"
					}
				}
			}
			if bad != "" {
				r.Fail("R8", ck, e.InstrPos(cs.Call), "the per-oracle nonce is rebuilt only for attestations selected by "+bad+": an oracle whose newest vote is not above it loses its record across export/import and can vote twice for, or skip, an event nonce")
			} else {
				r.Ok("R8", ck, e.InstrPos(cs.Call), "rebuilt from every attestation and vote (conditional only on the running maximum)")
			}
		}
	}
	if n8 == 0 {
		r.Fail("R8", "genesis rebuild", "", "UNRESOLVED-ANCHOR: no genesis-time writer call of 0x23")
	}

	// ---------- R5 ----------
	_, del54 := e.writerCallSites(cc, "54", "delete")
	if len(del54) == 0 {
		r.Fail("R5", "family crosschain:54", "", "UNRESOLVED-ANCHOR: no deleter of 0x54")
	}
	for _, cs := range del54 {
		E := cs.Caller
		ck := e.FnKey(E)
		// every effect other than the delete itself is dominated by the delete
		bad := ""
		var badPos string
		allInstrs(E, func(i ssa.Instruction) {
			if bad != "" || i == ssa.Instruction(cs.Call) {
				return
			}
			if eff := e.EffectOf(i); eff != "" && !Dominates(cs.Call, i) {
				bad, badPos = eff, e.InstrPos(i)
			}
		})
		if bad != "" {
			r.Fail("R5", ck+" delete-first", badPos, "effect `"+bad+"` can run before the pending claim is deleted (claim could be executed twice)")
		} else {
			r.Ok("R5", ck+" delete-first", e.InstrPos(cs.Call), "delete(0x54) dominates every handler effect")
		}
		// delete key == looked-up key, found guard
		dk := firstArgOfKind(cs.Call, types.Uint64)
		okKey := false
		for _, g := range GuardsOf(cs.Call) {
			ci, ok := NormCond(g)
			if !ok || ci.Op != "found" {
				continue
			}
			if rc, ok := ci.X.(*ssa.Call); ok && e.callDirectOp(rc, cc, "54", "get") {
				rk := firstArgOfKind(rc, types.Uint64)
				if SameExpr(rk, dk, 5) {
					okKey = true
				}
			}
		}
		r.Check(okKey, "R5", ck+" same-key", e.InstrPos(cs.Call), "deletes the nonce it looked up, under `found`", "the deleted key is not the looked-up key or the lookup result is not checked")
	}
	// writers of 0x54: only the dispatcher(s); key = claim's own nonce
	for _, w := range w54 {
		for _, so := range e.Effects(w) {
			if so.Op != "set" {
				continue
			}
			res := e.Slice(so.Key, SliceOpts{MaxDepth: 10, IntoCallees: true, ConstLeafOK: true}, func(v ssa.Value) Verdict {
				if _, ok := eventNonceOf(v); ok {
					return Accept
				}
				if u, ok := v.(*ssa.UnOp); ok {
					if _, ok := u.X.(*ssa.Global); ok {
						return Accept // prefix
					}
				}
				return Continue
			})
			r.Check(res.AnyAccepted() && len(res.Leaves) == 0, "R5", e.FnKey(w)+" key", e.InstrPos(so.Instr), "0x54 key built from the stored claim's own GetEventNonce()", "0x54 key is not derived from the claim's own event nonce")
		}
		for _, c := range e.Callers(w) {
			if isAuxPkg(fnPkgPath(c)) || !isDisp(c) {
				continue
			}
			r.Ok("R5", "caller "+e.FnKey(c), e.Pos(c.Pos()), "parks claims under the tally (attestation handler)")
		}
	}
	for _, cs := range strayParkers {
		c := cs.Caller
		ck := "caller " + e.FnKey(c)
		if !e.onlyFromGenesisOrUpgrade(c) {
			r.Fail("R5", ck, e.InstrPos(cs.Call), "a claim is parked (0x54) outside the handler dispatch of the tally: a claim that is not being observed right now (already executed, or never observed) can be parked and executed")
			continue
		}
		// genesis import / upgrade: restoring parked claims from a list of parked claims is fine; deriving them from
		// the attestations is not -- an observed attestation does not say whether its claim was executed already
		fromAtt := false
		for _, a := range cs.Call.Common().Args {
			e.Slice(a, SliceOpts{MaxDepth: 12, IntoCallees: true, IntoCallers: true, ConstLeafOK: true}, func(v ssa.Value) Verdict {
				if call, ok := v.(*ssa.Call); ok && strings.Contains(calleeName(call), "UnpackAttestationClaim") {
					fromAtt = true
					return Accept
				}
				if fa, ok := v.(*ssa.FieldAddr); ok && strings.HasSuffix(namedTypeName(fa.X.Type()), "types.Attestation") {
					fromAtt = true
					return Accept
				}
				if f, ok := v.(*ssa.Field); ok && strings.HasSuffix(namedTypeName(f.X.Type()), "types.Attestation") {
					fromAtt = true
					return Accept
				}
				return Continue
			})
		}
		r.Check(!fromAtt, "R5", ck, e.InstrPos(cs.Call), "parked claims restored from a source other than the attestations", "genesis import / upgrade parks the claims of attestations again: an observed attestation does not record whether its claim was executed, so an executed claim can be executed a second time")
	}

	// ---------- R6 ----------
	impls := e.TypesImplementing(ModPath+"/x/crosschain/types", "ExternalClaim")
	asserted := func(fns []*ssa.Function) map[string]bool {
		out := map[string]bool{}
		for _, f := range fns {
			allInstrs(f, func(i ssa.Instruction) {
				if ta, ok := i.(*ssa.TypeAssert); ok {
					out[types.TypeString(ta.AssertedType, nil)] = true
				}
			})
		}
		return out
	}
	inDisp := asserted(dispatchers)
	for _, T := range impls {
		n := types.TypeString(T, nil)
		r.Check(inDisp[n], "R6", "dispatch "+shortTypeName(T), "", "has a case in the attestation handler", "ExternalClaim implementer has no case in the attestation handler (event would be observed with no effect)")
	}
	// parked kinds: those whose ok-branch contains the 0x54 writer call
	var executors []*ssa.Function
	for _, cs := range del54 {
		executors = append(executors, cs.Caller)
	}
	inExec := asserted(executors)
	for _, d := range dispatchers {
		allInstrs(d, func(i ssa.Instruction) {
			ta, ok := i.(*ssa.TypeAssert)
			if !ok || !ta.CommaOk {
				return
			}
			// find If on extract #1
			for _, ref := range *ta.Referrers() {
				ex, ok := ref.(*ssa.Extract)
				if !ok || ex.Index != 1 {
					continue
				}
				for _, r2 := range *ex.Referrers() {
					iff, ok := r2.(*ssa.If)
					if !ok {
						continue
					}
					body := iff.Block().Succs[0]
					parks := false
					for _, bi := range body.Instrs {
						if c, ok := bi.(ssa.CallInstruction); ok && e.callDirectOp(c, cc, "54", "set") {
							parks = true
						}
					}
					if parks {
						n := types.TypeString(ta.AssertedType, nil)
						r.Check(inExec[n], "R6", "execute "+shortTypeName(ta.AssertedType), e.InstrPos(ta), "parked kind has a case in the executor", "claim kind is parked in 0x54 but the executor has no case for it")
					}
				}
			}
		})
	}
}

// observedFalseGuard: some guard dominating `at` tests field Observed == false.
func (e *Engine) observedFalseGuard(at ssa.Instruction) bool {
	for _, g := range GuardsOf(at) {
		v, pol := g.Cond, g.Pol
		for {
			if u, ok := v.(*ssa.UnOp); ok && u.Op.String() == "!" {
				v, pol = u.X, !pol
				continue
			}
			break
		}
		if u, ok := v.(*ssa.UnOp); ok {
			if fa, ok := u.X.(*ssa.FieldAddr); ok {
				if n, _, _ := fieldName(fa); n == "Observed" && !pol {
					return true
				}
			}
		}
		if c, ok := v.(*ssa.Call); ok && callName(c) == "GetObserved" && !pol {
			return true
		}
	}
	return false
}

// appendedElems: elements e1.. of a store `x.F = append(x.F, e1, ...)`.
func appendedElems(st *ssa.Store) []ssa.Value {
	c, ok := stripConv(st.Val).(*ssa.Call)
	if !ok || callName(c) != "append" || len(c.Call.Args) != 2 {
		return nil
	}
	sl, ok := c.Call.Args[1].(*ssa.Slice)
	if !ok {
		return nil
	}
	arr, ok := sl.X.(*ssa.Alloc)
	if !ok || arr.Referrers() == nil {
		return nil
	}
	var out []ssa.Value
	for _, r := range *arr.Referrers() {
		if ia, ok := r.(*ssa.IndexAddr); ok && ia.Referrers() != nil {
			for _, rr := range *ia.Referrers() {
				if s2, ok := rr.(*ssa.Store); ok && s2.Addr == ssa.Value(ia) {
					out = append(out, s2.Val)
				}
			}
		}
	}
	return out
}

// notYetVotedGuard: a dominating guard with negative polarity whose condition is a bool call taking (a value derived
// from field Votes, needle) — slices.Contains(att.Votes, x) or a helper of the same shape — where the needle is the
// very expression that is appended (testing membership of some other value does not prevent a duplicate).
func (e *Engine) notYetVotedGuard(at ssa.Instruction) bool {
	var elems []ssa.Value
	if st, ok := at.(*ssa.Store); ok {
		elems = appendedElems(st)
	}
	for _, g := range GuardsOf(at) {
		ci, ok := NormCond(g)
		if !ok || ci.Call == nil || !strings.HasPrefix(ci.Op, "!call:") {
			continue
		}
		overVotes := false
		var needles []ssa.Value
		for _, a := range callArgs(ci.Call) {
			res := e.Slice(a, SliceOpts{MaxDepth: 4}, func(v ssa.Value) Verdict {
				if fa, ok := v.(*ssa.FieldAddr); ok {
					if n, _, _ := fieldName(fa); n == "Votes" {
						return Accept
					}
				}
				return Continue
			})
			if res.AnyAccepted() {
				overVotes = true
			} else {
				needles = append(needles, a)
			}
		}
		if !overVotes {
			continue
		}
		if len(elems) == 0 {
			return true // shape of the append not resolved: keep the weaker form
		}
		all := true
		for _, el := range elems {
			hit := false
			for _, nd := range needles {
				if vkey(nd, 0) == vkey(el, 0) || SameExpr(nd, el, 6) {
					hit = true
				}
			}
			if !hit {
				all = false
			}
		}
		if all {
			return true
		}
	}
	return false
}

func fnKeys(e *Engine, fs []*ssa.Function) string {
	var s []string
	for _, f := range fs {
		s = append(s, e.FnKey(f))
	}
	return strings.Join(s, ", ")
}

// eventNonceOf: v is <claim>.GetEventNonce() or a load of <claim>.EventNonce; returns the claim value.
func eventNonceOf(v ssa.Value) (ssa.Value, bool) {
	if r, ok := methodCallOn(v, "GetEventNonce"); ok {
		return r, true
	}
	v = stripConv(v)
	if u, ok := v.(*ssa.UnOp); ok {
		if fa, ok := u.X.(*ssa.FieldAddr); ok {
			if n, _, _ := fieldName(fa); n == "EventNonce" {
				return fa.X, true
			}
		}
	}
	if f, ok := v.(*ssa.Field); ok {
		if n, _, _ := fieldName(f); n == "EventNonce" {
			return f.X, true
		}
	}
	return nil, false
}

// isAddrLike: an account address value (sdk.AccAddress / []byte / common.Address).
func isAddrLike(t types.Type) bool {
	ts := t.String()
	if strings.HasSuffix(ts, "AccAddress") || strings.HasSuffix(ts, "common.Address") {
		return true
	}
	if sl, ok := t.Underlying().(*types.Slice); ok {
		if b, ok := sl.Elem().Underlying().(*types.Basic); ok && b.Kind() == types.Byte {
			return true
		}
	}
	return false
}
