package main

import (
	"go/token"
	"fmt"
	"go/types"
	"sort"
	"strings"

	"golang.org/x/tools/go/ssa"
)

func init() { register("C17", "other", runC17) }

// consensusScope: fx-core functions reachable from transaction, block and genesis entry points.
func (e *Engine) consensusScope() map[*ssa.Function]bool {
	roots := append(e.TxEntryPoints(), e.BlockEntryPoints()...)
	for _, fn := range e.Funcs {
		if fn.Parent() == nil && !isAuxPkg(fnPkgPath(fn)) && (fn.Name() == "InitGenesis" || strings.Contains(fnPkgPath(fn), "/app/upgrades")) {
			roots = append(roots, fn)
		}
		if r := fn.Signature.Recv(); r != nil && strings.HasSuffix(namedTypeName(r.Type()), ".Migrator") {
			roots = append(roots, fn)
		}
	}
	scope := map[*ssa.Function]bool{}
	for f := range e.Reach(roots, func(x *ssa.Function) bool { return !isFx(x) }) {
		if isFx(f) && !isAuxPkg(fnPkgPath(f)) && !strings.Contains(fnPkgPath(f), "/server") && !strings.Contains(fnPkgPath(f), "/telemetry") {
			scope[f] = true
		}
	}
	return scope
}

func isFloat(t types.Type) bool {
	b, ok := t.Underlying().(*types.Basic)
	return ok && b.Info()&types.IsFloat != 0
}

func runC17(e *Engine, r *Report, tier string) {
	r.Explanation = "C17, structural clauses over fx-core code reachable (module-scoped call graph) from transaction, block, genesis and upgrade entry points. Decided: R1 every `range` over a map is classified by what its body does to anything that outlives the loop — allowed: writes into other maps, delete, counting, commutative exact accumulation (math.Int / LegacyDec .Add, integer +=), append to a slice that is sorted before any other use; violation: a call with a state effect or taking a context, event emission, append without a dominating sort, an early exit; R2 no wall clock, randomness, environment, goroutines, select or channel operations, and no process-local data (stack dumps, caller info, goroutine/CPU counts, pid) outside logger calls; R3 floating point only in the two reviewed places (power difference, rendered with fixed precision before use), no float value reaches a store write or branch elsewhere; R4 node-local switches (IsCheckTx, IsReCheckTx, MinGasPrices) never guard a state effect, and a switch read from the node's configuration (IsTelemetryEnabled) never guards a call that takes the context (a metered store read under it changes gas used); R5 no process-local mutable state: no package-level variable is written and no sync/atomic or sync.Map/Once cell is updated by code in scope (a memoised value would depend on what the process executed before); R6 no function writes in place into bytes it read from a KVStore or iterator — those slices are shared with the parent store's pending writes and the process's cached tree nodes, so a discarded branch (simulation, gas estimation, reverted frame) would change what later blocks read on this process only. Not decided: determinism of dependencies, cgo and the Go runtime."
	scope := e.consensusScope()
	var fns []*ssa.Function
	for f := range scope {
		fns = append(fns, f)
	}
	sort.Slice(fns, func(i, j int) bool { return e.FnKey(fns[i]) < e.FnKey(fns[j]) })
	r.Note("consensus scope: %d fx-core functions", len(fns))
	r.Rule("R1", "map iteration has only order-insensitive effects", 2, "range-over-map sites in scope")
	r.Rule("R2", "no clock / randomness / env / concurrency in scope", 1, "")
	r.Rule("R5", "no process-local mutable state (package variables, sync/atomic cells) written during execution", 1, "stores to globals and atomic/sync updates in scope")
	r.Rule("R6", "bytes read from a store are never written in place: a discarded execution (simulation, reverted frame) cannot change what the next block reads from the process's cached nodes (C09.R6)", 40, "KVStore / iterator read sites")
	e.storeAliasRule(r, "R6")
	nglob := 0
	r.Rule("R3", "floating point confined to the reviewed fixed-precision sites", 1, "")
	r.Rule("R4", "node-local switches never guard a state effect", 1, "")
	if len(fns) < 300 {
		r.Fail("R2", "scope", "", fmt.Sprintf("UNRESOLVED-ANCHOR: consensus scope has only %d functions", len(fns)))
	}

	nmap := 0
	nbad2, nfloat, nlocal := 0, 0, 0
	for _, fn := range fns {
		fn := fn
		key := e.FnKey(fn)
		allInstrs(fn, func(i ssa.Instruction) {
			switch x := i.(type) {
			case *ssa.Range:
				if _, ok := x.X.Type().Underlying().(*types.Map); !ok {
					return
				}
				nmap++
				e.checkMapRange(r, fn, x, nmap)
			case *ssa.Store:
				// R5: package-level state written while executing
				if g, ok := x.Addr.(*ssa.Global); ok && fn.Name() != "init" && !strings.HasPrefix(fn.Name(), "init#") {
					nglob++
					ck := key + " writes " + g.Name()
					if why, ok := processStateExempt[g.Name()]; ok {
						r.Ok("R5", ck, e.InstrPos(i), "reviewed: "+why)
					} else {
						r.Fail("R5", ck, e.InstrPos(i), "a package-level variable is written by code that runs during block execution: its value depends on what this process happened to execute before (queries, mempool checks, restarts), not only on the chain state")
					}
				}
			case *ssa.Go:
				nbad2++
				r.Fail("R2", key+" go", e.InstrPos(i), "goroutine started in consensus code")
			case *ssa.Select:
				nbad2++
				r.Fail("R2", key+" select", e.InstrPos(i), "select in consensus code")
			case ssa.CallInstruction:
				f := x.Common().StaticCallee()
				if f != nil && f.Pkg != nil {
					full := f.Pkg.Pkg.Path() + "." + f.Name()
					switch {
					case full == "time.Now" || full == "time.Since" || full == "time.Until":
						nbad2++
						r.Fail("R2", key+" "+full, e.InstrPos(i), "wall clock in consensus code (use the block time)")
					case strings.HasPrefix(full, "math/rand.") || strings.HasPrefix(full, "crypto/rand."):
						nbad2++
						r.Fail("R2", key+" "+full, e.InstrPos(i), "randomness in consensus code")
					case full == "os.Getenv" || full == "os.LookupEnv" || full == "os.Hostname":
						nbad2++
						r.Fail("R2", key+" "+full, e.InstrPos(i), "environment read in consensus code")
					case full == "runtime/debug.Stack" || full == "runtime.Stack" || full == "runtime.Caller" || full == "runtime.Callers" ||
						full == "runtime.NumGoroutine" || full == "runtime.NumCPU" || full == "runtime.GOMAXPROCS" || full == "os.Getpid" || full == "os.Getppid":
						// process-local data (goroutine ids, addresses, machine shape): harmless in a log line, not anywhere else
						if v, ok := x.(ssa.Value); ok && !onlyLogged(v, 0) {
							nbad2++
							r.Fail("R2", key+" "+full, e.InstrPos(i), "process-local data ("+full+") flows into something other than a logger call: if it reaches an error text, an event or the store, validators disagree")
						}
					}
				}
				// R5: process-local mutable cells (sync/atomic, sync.Map, sync.Once) used from consensus code
				if f != nil {
					pp := fnPkgPath(f)
					if o := f.Origin(); o != nil && pp == "" {
						pp = fnPkgPath(o)
					}
					nm := f.Name()
					if k := strings.Index(nm, "["); k > 0 {
						nm = nm[:k]
					}
					if (pp == "sync/atomic" || pp == "sync") && f.Signature.Recv() != nil {
						switch nm {
						case "Store", "Swap", "CompareAndSwap", "Add", "LoadOrStore", "LoadAndDelete", "Delete", "Do", "And", "Or":
							nglob++
							r.Fail("R5", key+" "+pp+"."+nm, e.InstrPos(i), "a process-local memory cell ("+recvTypeName(x)+") is updated by code that runs during block execution: what later blocks read from it depends on this process's own history (queries, mempool checks, restarts), so validators can diverge")
						}
					}
				}
				// R4
				n := callName(x)
				if n == "IsCheckTx" || n == "IsReCheckTx" || n == "MinGasPrices" || n == "IsTelemetryEnabled" {
					if v, ok := x.(ssa.Value); ok {
						for _, ref := range *v.Referrers() {
							iff, ok := ref.(*ssa.If)
							if !ok {
								if u, ok2 := ref.(*ssa.UnOp); ok2 {
									for _, r2 := range *u.Referrers() {
										if i2, ok3 := r2.(*ssa.If); ok3 {
											iff = i2
										}
									}
								}
							}
							if iff == nil {
								continue
							}
							for _, pol := range []bool{true, false} {
								start := iff.Block().Succs[1]
								if pol {
									start = iff.Block().Succs[0]
								}
								for _, b := range fn.Blocks {
									if (b == start || start.Dominates(b)) && edgeDominates(iff.Block(), start, b) {
										for _, in := range b.Instrs {
											// a switch read from the node's own configuration while a block is executed: even a store *read*
											// under it changes the gas a transaction uses
											if n == "IsTelemetryEnabled" {
												if c2, ok := in.(ssa.CallInstruction); ok {
													for _, a := range callArgs(c2) {
														if isCtxType(a.Type()) && callName(c2) != "Logger" {
															nlocal++
															r.Fail("R4", key+" "+n, e.InstrPos(in), "`"+callName(c2)+"(ctx, …)` runs only when this node has telemetry enabled ("+n+"() reads the node's own app.toml): a gas-metered store access under it makes gas used, and with a tight gas limit the outcome of the transaction, differ between nodes")
														}
													}
												}
												continue
											}
											if eff := e.EffectOf(in); eff != "" && !strings.Contains(fnPkgPath(fn), "/ante") {
												nlocal++
												r.Fail("R4", key+" "+n, e.InstrPos(in), "state effect `"+eff+"` depends on the node-local switch "+n+"(): nodes would compute different states")
											}
										}
									}
								}
							}
						}
					}
				}
			case *ssa.BinOp:
				if isFloat(x.Type()) {
					nfloat++
					allowed := map[string]string{
						"(x/crosschain/types.BridgeValidators).PowerDiff": "addends are |int64| powers < 2^33, a few hundred at most: every partial sum is an exactly representable integer; result rendered with %.8f before use",
					}
					if why, ok := allowed[e.FnKey(rootFn(fn))]; ok {
						r.Ok("R3", key+" float", e.InstrPos(i), "reviewed: "+why)
					} else {
						r.Fail("R3", key+" float", e.InstrPos(i), "floating-point arithmetic in consensus code outside the reviewed fixed-precision site")
					}
				}
			}
		})
	}
	if nbad2 == 0 {
		r.Ok("R2", "scope", "", fmt.Sprintf("%d functions scanned: no clock, randomness, env, goroutine or select", len(fns)))
	}
	// a package-level *big.Int (or other pointer-to-mutable number) used as the RECEIVER of a mutating method: big.Int's
	// arithmetic writes into its receiver (`z.Sub(x, y)` sets z), so `zero.Sub(a, b)` on a shared "constant" changes it for
	// every later user in this process (round-8 seed C17)
	for _, fn := range fns {
		fn := fn
		allCalls(fn, func(c ssa.CallInstruction) {
			f := c.Common().StaticCallee()
			if f == nil || f.Signature.Recv() == nil || !strings.HasSuffix(namedTypeName(f.Signature.Recv().Type()), "math/big.Int") {
				return
			}
			switch f.Name() {
			case "Add", "Sub", "Mul", "Quo", "Div", "Mod", "Rem", "Exp", "Neg", "Abs", "Set", "SetInt64", "SetUint64", "SetBytes", "SetString", "Lsh", "Rsh", "And", "Or", "Xor", "Not", "Sqrt", "DivMod", "QuoRem", "SetBit", "ModInverse", "GCD":
			default:
				return
			}
			args := c.Common().Args
			if len(args) == 0 {
				return
			}
			if u, ok := args[0].(*ssa.UnOp); ok && u.Op == token.MUL {
				if g, ok := u.X.(*ssa.Global); ok && g.Pkg != nil && strings.HasPrefix(g.Pkg.Pkg.Path(), ModPath) {
					nglob++
					r.Fail("R5", e.FnKey(fn)+" "+g.Name()+"."+f.Name(), e.InstrPos(c), "the package-level big.Int `"+g.Name()+"` is the receiver of "+f.Name()+", which stores its result in the receiver: the shared value changes for every later execution in this process (queries, simulations and restarts then change what transactions compute)")
				}
			}
		})
	}
	if nglob == 0 {
		r.Ok("R5", "scope", "", fmt.Sprintf("%d functions scanned: no package variable is written and no sync/atomic cell is updated during execution", len(fns)))
	}
	if nfloat == 0 {
		r.Fail("R3", "float sites", "", "UNRESOLVED-ANCHOR: the reviewed float site (PowerDiff) is not in scope any more")
	}
	if nlocal == 0 {
		r.Ok("R4", "scope", "", "no state effect is control dependent on IsCheckTx/IsReCheckTx/MinGasPrices")
	}
	if nmap == 0 {
		r.Fail("R1", "map ranges", "", "UNRESOLVED-ANCHOR: no range-over-map in scope")
	}
}

func (e *Engine) checkMapRange(r *Report, fn *ssa.Function, rg *ssa.Range, ord int) {
	// loop blocks: the natural loop containing the Next instruction
	var next *ssa.Next
	for _, ref := range *rg.Referrers() {
		if n, ok := ref.(*ssa.Next); ok {
			next = n
		}
	}
	k := fmt.Sprintf("%s range-map(%s)", e.FnKey(fn), shortMapDesc(e, rg))
	if next == nil {
		r.Undecided("R1", k, e.InstrPos(rg), "range without Next")
		return
	}
	_, body := loopOf(next.Block())
	if body == nil {
		r.Undecided("R1", k, e.InstrPos(rg), "cannot determine the loop body")
		return
	}
	bad := ""
	badPos := ""
	var appendVals []ssa.Value
	for b := range body {
		for _, in := range b.Instrs {
			if bad != "" {
				break
			}
			switch x := in.(type) {
			case ssa.CallInstruction:
				if eff := e.EffectOf(in); eff != "" {
					bad, badPos = "state effect `"+eff+"` executed in map order", e.InstrPos(in)
					continue
				}
				n := callName(x)
				if bi, ok := x.Common().Value.(*ssa.Builtin); ok {
					if bi.Name() == "append" {
						if v, ok := x.(ssa.Value); ok {
							appendVals = append(appendVals, v)
						}
					}
					continue
				}
				if n == "EmitEvent" || n == "EmitEvents" || n == "EmitTypedEvent" || n == "AddLog" {
					bad, badPos = "event emitted in map order", e.InstrPos(in)
					continue
				}
				if strings.HasPrefix(n, "Write") && strings.Contains(recvTypeName(x), "strings.Builder") {
					bad, badPos = "string built in map order", e.InstrPos(in)
					continue
				}
				for _, a := range callArgs(x) {
					if isCtxType(a.Type()) && !isReadName(n) {
						bad, badPos = "call `"+n+"` with a context executed in map order", e.InstrPos(in)
					}
				}
			case *ssa.Return:
				bad, badPos = "early return inside a map iteration (which element is seen first is random)", e.InstrPos(in)
			case *ssa.BinOp:
				if isFloat(x.Type()) {
					// float accumulation in map order is order-independent only while every partial sum is exact: an ADD
					// of the running total and an integer-valued addend (a conversion from an integer type, possibly
					// through math.Abs). Anything else (a division or product inside the loop makes the addends
					// fractional, and float addition is not associative) depends on the iteration order.
					if !(x.Op == token.ADD && (integerValuedFloat(x.X) || integerValuedFloat(x.Y))) {
						bad, badPos = "floating-point arithmetic in map order whose operands are not integer-valued (the rounded sum depends on the iteration order)", e.InstrPos(in)
					}
				}
			}
		}
	}
	if bad != "" {
		r.Fail("R1", k, badPos, bad)
		return
	}
	// appends must be sorted before use
	for _, av := range appendVals {
		// the slice variable: phi in loop header fed by av
		var slicePhi ssa.Value = av
		for _, ref := range *av.Referrers() {
			if ph, ok := ref.(*ssa.Phi); ok {
				slicePhi = ph
			}
		}
		sorted := false
		var sortCall ssa.Instruction
		allCalls(fn, func(c ssa.CallInstruction) {
			f := c.Common().StaticCallee()
			if f == nil || f.Pkg == nil {
				return
			}
			pp := f.Pkg.Pkg.Path()
			if !(pp == "sort" || pp == "slices") || !(strings.HasPrefix(f.Name(), "Sort") || f.Name() == "Slice" || f.Name() == "SliceStable" || f.Name() == "Strings" || f.Name() == "Ints") {
				return
			}
			for _, a := range c.Common().Args {
				res := e.Slice(a, SliceOpts{MaxDepth: 6}, func(y ssa.Value) Verdict {
					if y == slicePhi || y == av {
						return Accept
					}
					return Continue
				})
				if res.AnyAccepted() {
					sorted, sortCall = true, c
				}
			}
		})
		if !sorted {
			r.Fail("R1", k, e.InstrPos(av.(ssa.Instruction)), "elements are appended to a slice in map order and the slice is never sorted: whatever consumes it (state writes, events, ids assigned in sequence) happens in a different order on every run")
			return
		}
		// other uses outside the loop must be dominated by the sort
		okUse := true
		for _, ref := range *slicePhi.Referrers() {
			ri, ok := ref.(ssa.Instruction)
			if !ok || body[ri.Block()] || ri == sortCall {
				continue
			}
			if _, isPhi := ref.(*ssa.Phi); isPhi {
				continue
			}
			if !Dominates(sortCall, ri) {
				// conversions feeding the sort call itself
				if mi, ok := ref.(*ssa.MakeInterface); ok {
					_ = mi
					continue
				}
				okUse = false
			}
		}
		if !okUse {
			r.Fail("R1", k, e.InstrPos(sortCall), "the slice filled in map order is used before it is sorted")
			return
		}
	}
	r.Ok("R1", k, e.InstrPos(rg), fmt.Sprintf("order-insensitive body (%d sorted append(s))", len(appendVals)))
}

func shortMapDesc(e *Engine, rg *ssa.Range) string {
	v := stripConv(rg.X)
	switch x := v.(type) {
	case *ssa.Parameter:
		return x.Name()
	case *ssa.MakeMap:
		return "local#" + x.Name()
	case *ssa.Call:
		return callName(x) + "()"
	case *ssa.UnOp:
		if n, _, ok := fieldName(x.X); ok {
			return "." + n
		}
		if g, ok := x.X.(*ssa.Global); ok {
			return g.Name()
		}
	case *ssa.Phi:
		return "var"
	}
	return v.Name()
}

// onlyLogged: every use of v (through interface boxing and variadic argument packing) is an argument of a logger call.
func onlyLogged(v ssa.Value, depth int) bool {
	if depth > 6 || v.Referrers() == nil {
		return false
	}
	for _, ref := range *v.Referrers() {
		switch t := ref.(type) {
		case *ssa.DebugRef:
		case *ssa.MakeInterface:
			if !onlyLogged(t, depth+1) {
				return false
			}
		case *ssa.Convert:
			if !onlyLogged(t, depth+1) {
				return false
			}
		case *ssa.ChangeType:
			if !onlyLogged(t, depth+1) {
				return false
			}
		case *ssa.Extract:
			if !onlyLogged(t, depth+1) {
				return false
			}
		case *ssa.Store:
			// packing into a variadic argument array
			ia, ok := t.Addr.(*ssa.IndexAddr)
			if !ok {
				return false
			}
			arr, ok := ia.X.(*ssa.Alloc)
			if !ok || arr.Referrers() == nil {
				return false
			}
			for _, r2 := range *arr.Referrers() {
				if sl, ok := r2.(*ssa.Slice); ok {
					if !onlyLogged(sl, depth+1) {
						return false
					}
				}
			}
		case ssa.CallInstruction:
			n := callName(t)
			rt := recvTypeName(t)
			isLog := (n == "Info" || n == "Error" || n == "Debug" || n == "Warn") && strings.Contains(rt, "log.Logger")
			if !isLog {
				return false
			}
		default:
			return false
		}
	}
	return true
}

// processStateExempt: package-level variables that consensus-reachable code may write, each with its reason.
var processStateExempt = map[string]string{}


// integerValuedFloat: float64(<integer>) possibly through math.Abs / negation.
func integerValuedFloat(v ssa.Value) bool {
	for i := 0; i < 4; i++ {
		switch x := v.(type) {
		case *ssa.Convert:
			if b, ok := x.X.Type().Underlying().(*types.Basic); ok && b.Info()&types.IsInteger != 0 {
				return true
			}
			return false
		case *ssa.Call:
			if callName(x) == "Abs" && len(x.Common().Args) == 1 {
				v = x.Common().Args[0]
				continue
			}
			return false
		case *ssa.UnOp:
			if x.Op == token.SUB {
				v = x.X
				continue
			}
			return false
		default:
			return false
		}
	}
	return false
}
