package main

import (
	"flag"
	"fmt"
	"os"
	"path/filepath"
	"runtime/debug"
	"sort"
	"strconv"
	"strings"
	"time"
)

type PropCheck struct {
	ID    string
	Level string
	Run   func(e *Engine, r *Report, tier string)
}

var registry = map[string]*PropCheck{}

func register(id, level string, run func(e *Engine, r *Report, tier string)) {
	registry[id] = &PropCheck{ID: id, Level: level, Run: run}
}

func main() {
	prop := flag.String("prop", "", "property id (C01..C20) or 'all'")
	tier := flag.String("tier", "quick", "quick|thorough")
	repo := flag.String("repo", "/repo", "repository root")
	verif := flag.String("verif", "", "verif dir (default: parent of the binary's dir)")
	dump := flag.String("dump", "", "debug: fams|ops|fn:<key>|callers:<key>|reach:<key>")
	flag.Parse()
	if t := os.Getenv("VERIF_TIER"); t != "" && *tier == "" {
		*tier = t
	}
	var seed int64
	if s := os.Getenv("VERIF_SEED"); s != "" {
		seed, _ = strconv.ParseInt(s, 10, 64)
	}
	if *verif == "" {
		exe, _ := os.Executable()
		*verif = filepath.Dir(filepath.Dir(exe))
		if _, err := os.Stat(filepath.Join(*verif, "properties.jsonl")); err != nil {
			*verif = "/verif"
		}
	}
	verifDirGlobal = *verif
	start := time.Now()
	var overlay map[string][]byte
	if ov := os.Getenv("FXCHECK_OVERLAY"); ov != "" {
		var err error
		overlay, err = readOverlay(ov)
		if err != nil {
			fmt.Println("overlay:", err)
			os.Exit(2)
		}
	}
	e, err := Load(*repo, overlay)
	if err != nil {
		// load failure = alarm for the requested property (cannot decide)
		fmt.Println("LOAD-ERROR:", err)
		ids := propIDs(*prop)
		code := 1
		for _, id := range ids {
			r := NewReport(id, levelOf(id))
			r.Explanation = "load failed; nothing decided"
			r.Fail("engine", "load", "", err.Error())
			r.Finish(*verif, *tier, seed, start, nil)
		}
		os.Exit(code)
	}
	if *dump != "" {
		doDump(e, *dump)
		return
	}
	ids := propIDs(*prop)
	if len(ids) == 0 {
		fmt.Println("unknown property", *prop)
		os.Exit(2)
	}
	exit := 0
	loadS := time.Since(start).Seconds()
	for _, id := range ids {
		pc := registry[id]
		t0 := time.Now()
		if len(ids) == 1 {
			t0 = start
		}
		r := NewReport(id, pc.Level)
		func() {
			defer func() {
				if p := recover(); p != nil {
					r.Fail("engine", "panic", "", fmt.Sprintf("checker panicked: %v\n%s", p, debug.Stack()))
				}
			}()
			pc.Run(e, r, *tier)
		}()
		stats := map[string]any{
			"packages_loaded":      len(e.Pkgs),
			"fxcore_functions":     len(e.Funcs),
			"dep_functions_bodies": len(e.DepFuncs),
			"load_s":               loadS,
		}
		if c := r.Finish(*verif, *tier, seed, t0, stats); c != 0 {
			exit = 1
		}
	}
	os.Exit(exit)
}

func levelOf(id string) string {
	if pc, ok := registry[id]; ok {
		return pc.Level
	}
	return "other"
}

func propIDs(p string) []string {
	if p == "all" {
		var ids []string
		for id := range registry {
			ids = append(ids, id)
		}
		sort.Strings(ids)
		return ids
	}
	if _, ok := registry[p]; ok {
		return []string{p}
	}
	return nil
}

func readOverlay(spec string) (map[string][]byte, error) {
	// spec: file=replacementfile[,file=replacementfile]
	out := map[string][]byte{}
	for _, kv := range strings.Split(spec, ",") {
		p := strings.SplitN(kv, "=", 2)
		if len(p) != 2 {
			return nil, fmt.Errorf("bad overlay spec %q", kv)
		}
		b, err := os.ReadFile(p[1])
		if err != nil {
			return nil, err
		}
		out[p[0]] = b
	}
	return out, nil
}

func doDump(e *Engine, what string) {
	if f, ok := extraDumps[what]; ok {
		f(e)
		return
	}
	switch {
	case what == "fams":
		for _, id := range e.FamilyIDs() {
			f := e.families().byID[id]
			fmt.Printf("%-40s %s.%s\n", id, ShortPkg(f.Pkg), f.Var)
		}
	case what == "ops":
		un := 0
		for _, so := range e.AllOps(true) {
			var fs []string
			for k := range so.Fams {
				fs = append(fs, k)
			}
			sort.Strings(fs)
			if len(fs) == 0 {
				un++
			}
			fmt.Printf("%-8s %-50s %s  %s\n", so.Op, strings.Join(fs, ","), e.FnKey(so.Fn), e.InstrPos(so.Instr))
		}
		fmt.Println("unresolved:", un)
	case strings.HasPrefix(what, "fn:"):
		k := what[3:]
		for _, f := range e.Funcs {
			if strings.Contains(e.FnKey(f), k) {
				fmt.Println("==", e.FnKey(f))
				f.WriteTo(os.Stdout)
			}
		}
	case strings.HasPrefix(what, "callers:"):
		k := what[8:]
		for _, f := range e.Funcs {
			if strings.HasSuffix(e.FnKey(f), k) {
				fmt.Println("==", e.FnKey(f))
				for _, c := range e.Callers(f) {
					fmt.Println("   <-", e.FnKey(c))
				}
			}
		}
	case strings.HasPrefix(what, "callees:"):
		k := what[8:]
		for _, f := range e.Funcs {
			if strings.HasSuffix(e.FnKey(f), k) {
				fmt.Println("==", e.FnKey(f))
				for _, ed := range e.CallGraph().Out[f] {
					fmt.Println("   ->", e.FnKey(ed.Callee), ed.Kind)
				}
			}
		}
	case what == "funcs":
		for _, f := range e.Funcs {
			fmt.Println(e.FnKey(f))
		}
	}
}

func init() {
	extraDumps["proto"] = func(e *Engine) {
		for _, f := range e.ProtoFiles() {
			fmt.Println("FILE", f.Path, len(f.Messages), "msgs", len(f.RPCs), "rpcs")
			for _, r := range f.RPCs {
				m := f.Messages[r.Req]
				fmt.Printf("   rpc %s(%s) msg=%v\n", r.Name, r.Req, m != nil)
				if m != nil {
					fmt.Printf("      signers=%v fields=%d\n", m.Signers, len(m.Fields))
				}
			}
		}
	}
}

var extraDumps = map[string]func(e *Engine){}
