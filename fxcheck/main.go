package main

import (
	"bytes"
	"encoding/json"
	"flag"
	"fmt"
	"os"
	"os/exec"
	"path/filepath"
	"runtime/debug"
	"sort"
	"strconv"
	"strings"
	"time"
)

type PropCheck struct {
	ID    string
	Level string
	Run   func(e *Engine, r *Report, tier string)
}

var registry = map[string]*PropCheck{}

func register(id, level string, run func(e *Engine, r *Report, tier string)) {
	registry[id] = &PropCheck{ID: id, Level: level, Run: run}
}

func main() {
	prop := flag.String("prop", "", "property id (C01..C20) or 'all'")
	tier := flag.String("tier", "quick", "quick|thorough")
	repo := flag.String("repo", "/repo", "repository root")
	verif := flag.String("verif", "", "verif dir (default: parent of the binary's dir)")
	dump := flag.String("dump", "", "debug: fams|ops|fn:<key>|callers:<key>|reach:<key>")
	flag.Parse()
	if t := os.Getenv("VERIF_TIER"); t != "" && *tier == "" {
		*tier = t
	}
	var seed int64
	if s := os.Getenv("VERIF_SEED"); s != "" {
		seed, _ = strconv.ParseInt(s, 10, 64)
	}
	if *verif == "" {
		exe, _ := os.Executable()
		*verif = filepath.Dir(filepath.Dir(exe))
		if _, err := os.Stat(filepath.Join(*verif, "properties.jsonl")); err != nil {
			*verif = "/verif"
		}
	}
	verifDirGlobal = *verif
	start := time.Now()
	var overlay map[string][]byte
	if ov := os.Getenv("FXCHECK_OVERLAY"); ov != "" {
		var err error
		overlay, err = readOverlay(ov)
		if err != nil {
			fmt.Println("overlay:", err)
			os.Exit(2)
		}
	}
	currentOverlay = overlay
	e, err := Load(*repo, overlay)
	if err != nil {
		// load failure = alarm for the requested property (cannot decide)
		fmt.Println("LOAD-ERROR:", err)
		ids := propIDs(*prop)
		code := 1
		for _, id := range ids {
			r := NewReport(id, levelOf(id))
			r.Explanation = "load failed; nothing decided"
			r.Fail("engine", "load", "", err.Error())
			r.Finish(*verif, *tier, seed, start, nil)
		}
		os.Exit(code)
	}
	if *dump == "funcs-baseline" {
		dumpBaselineFuncs(e)
		return
	}
	if *dump != "" {
		doDump(e, *dump)
		return
	}
	ids := propIDs(*prop)
	if len(ids) == 0 {
		fmt.Println("unknown property", *prop)
		os.Exit(2)
	}
	exit := 0
	loadS := time.Since(start).Seconds()
	for _, id := range ids {
		pc := registry[id]
		t0 := time.Now()
		if len(ids) == 1 {
			t0 = start
		}
		r := NewReport(id, pc.Level)
		func() {
			defer func() {
				if p := recover(); p != nil {
					r.Fail("engine", "panic", "", fmt.Sprintf("checker panicked: %v\n%s", p, debug.Stack()))
				}
			}()
			pc.Run(e, r, *tier)
		}()
		stats := map[string]any{
			"packages_loaded":      len(e.Pkgs),
			"fxcore_functions":     len(e.Funcs),
			"dep_functions_bodies": len(e.DepFuncs),
			"load_s":               loadS,
		}
		var buf bytes.Buffer
		finishOut = &buf
		c := r.Finish(*verif, *tier, seed, t0, stats)
		finishOut = os.Stdout
		if c != 0 {
			if out, ok := tryInlinedView(e, overlay, id, *tier, *repo, *verif, buf.String()); ok {
				fmt.Print(out)
				continue
			}
			exit = 1
			// both forms violate the property: print the reports that are present in both (by rule and construct); if the
			// two forms name different constructs, print those of the program as written
			if len(secondViewKeys) > 0 {
				lines := strings.Split(buf.String(), "\n")
				var kept []string
				nkept := 0
				for i := 0; i < len(lines); i++ {
					k := reportKey(lines[i])
					if k == "" {
						kept = append(kept, lines[i])
						continue
					}
					if secondViewKeys[k] {
						kept = append(kept, lines[i])
						nkept++
						continue
					}
					// drop the report and the VIOLATION line that follows it
					if i+1 < len(lines) && strings.HasPrefix(lines[i+1], "VIOLATION ") {
						i++
					}
				}
				if nkept > 0 {
					fmt.Print(strings.Join(kept, "\n"))
					continue
				}
			}
		}
		fmt.Print(buf.String())
	}
	if d := inlinedOverlayCache.dir; d != "" && os.Getenv("FXCHECK_INLINE_DEBUG") == "" {
		os.RemoveAll(d)
	}
	os.Exit(exit)
}

func levelOf(id string) string {
	if pc, ok := registry[id]; ok {
		return pc.Level
	}
	return "other"
}

func propIDs(p string) []string {
	if p == "all" {
		var ids []string
		for id := range registry {
			ids = append(ids, id)
		}
		sort.Strings(ids)
		return ids
	}
	if _, ok := registry[p]; ok {
		return []string{p}
	}
	return nil
}

func readOverlay(spec string) (map[string][]byte, error) {
	// spec: file=replacementfile[,file=replacementfile]
	out := map[string][]byte{}
	for _, kv := range strings.Split(spec, ",") {
		p := strings.SplitN(kv, "=", 2)
		if len(p) != 2 {
			return nil, fmt.Errorf("bad overlay spec %q", kv)
		}
		b, err := os.ReadFile(p[1])
		if err != nil {
			return nil, err
		}
		out[p[0]] = b
	}
	return out, nil
}

func doDump(e *Engine, what string) {
	if f, ok := extraDumps[what]; ok {
		f(e)
		return
	}
	switch {
	case what == "fams":
		for _, id := range e.FamilyIDs() {
			f := e.families().byID[id]
			fmt.Printf("%-40s %s.%s\n", id, ShortPkg(f.Pkg), f.Var)
		}
	case what == "ops":
		un := 0
		for _, so := range e.AllOps(true) {
			var fs []string
			for k := range so.Fams {
				fs = append(fs, k)
			}
			sort.Strings(fs)
			if len(fs) == 0 {
				un++
			}
			fmt.Printf("%-8s %-50s %s  %s\n", so.Op, strings.Join(fs, ","), e.FnKey(so.Fn), e.InstrPos(so.Instr))
		}
		fmt.Println("unresolved:", un)
	case strings.HasPrefix(what, "fn:"):
		k := what[3:]
		for _, f := range e.Funcs {
			if strings.Contains(e.FnKey(f), k) {
				fmt.Println("==", e.FnKey(f))
				f.WriteTo(os.Stdout)
			}
		}
	case strings.HasPrefix(what, "callers:"):
		k := what[8:]
		for _, f := range e.Funcs {
			if strings.HasSuffix(e.FnKey(f), k) {
				fmt.Println("==", e.FnKey(f))
				for _, c := range e.Callers(f) {
					fmt.Println("   <-", e.FnKey(c))
				}
			}
		}
	case strings.HasPrefix(what, "callees:"):
		k := what[8:]
		for _, f := range e.Funcs {
			if strings.HasSuffix(e.FnKey(f), k) {
				fmt.Println("==", e.FnKey(f))
				for _, ed := range e.CallGraph().Out[f] {
					fmt.Println("   ->", e.FnKey(ed.Callee), ed.Kind)
				}
			}
		}
	case what == "funcs":
		for _, f := range e.Funcs {
			fmt.Println(e.FnKey(f))
		}
	}
}

func init() {
	extraDumps["proto"] = func(e *Engine) {
		for _, f := range e.ProtoFiles() {
			fmt.Println("FILE", f.Path, len(f.Messages), "msgs", len(f.RPCs), "rpcs")
			for _, r := range f.RPCs {
				m := f.Messages[r.Req]
				fmt.Printf("   rpc %s(%s) msg=%v\n", r.Name, r.Req, m != nil)
				if m != nil {
					fmt.Printf("      signers=%v fields=%d\n", m.Signers, len(m.Fields))
				}
			}
		}
	}
}

var extraDumps = map[string]func(e *Engine){}

var inlinedOverlayCache struct {
	done  bool
	spec  string
	n     int
	dir   string
	files []string
}

// tryInlinedView repeats the check of one property on the helper-inlined normal form of the program (inline.go) in a
// sub-process. ok=true means the property holds there: the reports of the first view were artefacts of where function
// boundaries lie, and the evidence of the second view is installed as this run's evidence.
func tryInlinedView(e *Engine, overlay map[string][]byte, id, tier, repo, verif, firstOut string) (string, bool) {
	secondViewKeys = nil
	if os.Getenv("FXCHECK_NOINLINE") != "" {
		return "", false
	}
	round := 0
	fmt.Sscanf(os.Getenv("FXCHECK_INLINE_ROUND"), "%d", &round)
	if round >= 2 {
		return "", false
	}
	c := &inlinedOverlayCache
	if !c.done {
		c.done = true
		files, n := InlineOverlay(e, overlay)
		c.n = n
		if n > 0 {
			dir, err := os.MkdirTemp("/var/tmp", "fxinl-")
			if err != nil {
				return "", false
			}
			c.dir = dir
			merged := map[string][]byte{}
			for k, v := range overlay {
				merged[k] = v
			}
			for k, v := range files {
				merged[k] = v
				c.files = append(c.files, k)
			}
			var parts []string
			i := 0
			for k, v := range merged {
				fp := filepath.Join(dir, fmt.Sprintf("ov%d.go", i))
				i++
				if os.WriteFile(fp, v, 0o644) != nil {
					return "", false
				}
				parts = append(parts, k+"="+fp)
			}
			sort.Strings(parts)
			c.spec = strings.Join(parts, ",")
		}
	}
	if c.n == 0 {
		if os.Getenv("FXCHECK_INLINE_DEBUG") != "" {
			fmt.Fprintln(os.Stderr, "INLINE-DEBUG nothing to fold")
		}
		return "", false
	}
	vdir := filepath.Join(c.dir, "verif-"+id)
	os.MkdirAll(filepath.Join(vdir, "evidence"), 0o755)
	for _, f := range []string{"known_findings.jsonl", "properties.jsonl", "baseline_funcs.txt"} {
		if b, err := os.ReadFile(filepath.Join(verif, f)); err == nil {
			os.WriteFile(filepath.Join(vdir, f), b, 0o644)
		}
	}
	exe, err := os.Executable()
	if err != nil {
		return "", false
	}
	cmd := exec.Command(exe, "-prop", id, "-tier", tier, "-repo", repo, "-verif", vdir)
	cmd.Env = append(os.Environ(), "FXCHECK_OVERLAY="+c.spec, fmt.Sprintf("FXCHECK_INLINE_ROUND=%d", round+1))
	outb, err := cmd.CombinedOutput()
	out := string(outb)
	if os.Getenv("FXCHECK_INLINE_DEBUG") != "" {
		fmt.Fprintf(os.Stderr, "INLINE-DEBUG folded=%d dir=%s files=%v err=%v\n%s\n", c.n, c.dir, c.files, err, out)
	}
	if err != nil || strings.Contains(out, "LOAD-ERROR") || strings.Contains(out, "VIOLATION ") {
		if !strings.Contains(out, "LOAD-ERROR") {
			secondViewKeys = map[string]bool{}
			for _, l := range strings.Split(out, "\n") {
				if k := reportKey(l); k != "" {
					secondViewKeys[k] = true
				}
			}
		}
		return "", false
	}
	evb, err := os.ReadFile(filepath.Join(vdir, "evidence", id+".json"))
	if err != nil {
		return "", false
	}
	var ev map[string]any
	if json.Unmarshal(evb, &ev) != nil {
		return "", false
	}
	var firstReports []string
	for _, l := range strings.Split(firstOut, "\n") {
		if strings.HasPrefix(l, "REPORT ") {
			if len(l) > 300 {
				l = l[:300]
			}
			firstReports = append(firstReports, l)
		}
	}
	if cov, ok := ev["coverage"].(map[string]any); ok {
		sort.Strings(c.files)
		cov["normal_form"] = map[string]any{
			"what":               "decided on the helper-inlined normal form: helpers that are new with respect to baseline_funcs.txt were folded into their callers at the source level (a behaviour-preserving rewrite) and the program was type-checked and analysed again; the reports below were raised on the program as written and are not present in the equivalent program, i.e. they were artefacts of where function boundaries lie",
			"calls_folded":       c.n,
			"files_rewritten":    c.files,
			"reports_as_written": firstReports,
			"inline_round":       round + 1,
		}
	}
	nb, _ := json.MarshalIndent(ev, "", " ")
	if os.WriteFile(filepath.Join(verif, "evidence", id+".json"), nb, 0o644) != nil {
		return "", false
	}
	old, _ := filepath.Glob(filepath.Join(verif, "evidence", "violations", id+"-*.json"))
	for _, f := range old {
		os.Remove(f)
	}
	var keep []string
	for _, l := range strings.Split(out, "\n") {
		if strings.HasPrefix(l, "KNOWN-FINDING") || strings.HasPrefix(l, "SUMMARY") || strings.HasPrefix(l, "NORMAL-FORM") {
			keep = append(keep, l)
		}
	}
	keep = append(keep, fmt.Sprintf("NORMAL-FORM property=%s round=%d: %d report(s) on the program as written are absent from the helper-inlined equivalent program (%d calls folded)", id, round+1, len(firstReports), c.n))
	return strings.Join(keep, "\n") + "\n", true
}


var secondViewKeys map[string]bool

// reportKey: "rule|construct" of a REPORT line ("REPORT C13 R2 violated: <construct> -- detail"), "" for other lines.
func reportKey(l string) string {
	if !strings.HasPrefix(l, "REPORT ") {
		return ""
	}
	f := strings.SplitN(l, " ", 5)
	if len(f) < 5 {
		return ""
	}
	rest := f[4]
	if i := strings.Index(rest, " -- "); i >= 0 {
		rest = rest[:i]
	}
	return f[2] + "|" + rest
}
