package main

import (
	"fmt"
	"go/token"
	"go/types"
	"strings"

	"golang.org/x/tools/go/ssa"
)

func init() { register("C11", "other", runC11) }

// shareTransferRoutine: the fx-core function in a precompile package that rewrites delegations (calls SetDelegation).
func (e *Engine) shareTransferRoutine() *ssa.Function {
	var out *ssa.Function
	for _, fn := range e.Funcs {
		if !strings.HasSuffix(fnPkgPath(fn), "/precompile") || fn.Parent() != nil {
			continue
		}
		allCalls(fn, func(c ssa.CallInstruction) {
			if callName(c) == "SetDelegation" {
				out = fn
			}
		})
	}
	return out
}

// rootsAtParam: all roots of v are parameter p (through Bytes()/conversions/String()).
func (e *Engine) rootsAtParam(v ssa.Value, p *ssa.Parameter) bool {
	res := e.Slice(v, SliceOpts{MaxDepth: 8}, func(x ssa.Value) Verdict {
		if x == ssa.Value(p) {
			return Accept
		}
		return Continue
	})
	return res.AllAccepted()
}

func runC11(e *Engine, r *Report, tier string) {
	r.Explanation = "C11, structural clauses of the share-transfer routine (located as the precompile function that rewrites delegations). Decided: R1 alias guard — sender == recipient is refused (or returns) before anything is read or written, otherwise the second record would be written from a stale copy; R2 the amount subtracted from the sender's shares and added to the recipient's is the same value, and `sender shares >= amount` (else error) dominates, and the sender's delegation is removed only on a zero test of the record's exact remaining Shares (not a truncated view); R3 no validator-mutating staking API is reachable; R4 reward withdrawal of the sender precedes every delegation write, on the remove branch reference-count decrement and starting-info delete follow on every success path, for a new recipient period increment precedes and reference-count increment + starting-info set follow, and every starting-info Stake is recomputed as validator.TokensFromSharesTruncated(<shares>) — never share/token arithmetic on the old stake; R5 the receiving-redelegation refusal dominates all writes; R6 the amount handed to the routine is refused unless it is > 0 — by the routine or by Validate() of the argument struct each call site takes it from (Validate runs inside ParseMethodArgs, C20.R3): a zero transfer would create a zero-share delegation and pass any allowance. Not decided: SDK invariants after arbitrary histories, arithmetic inside x/staking and x/distribution."
	r.Rule("R1", "sender == recipient refused before any read/write", 1, "")
	r.Rule("R2", "same amount subtracted and added; sufficiency check dominates; removal only at exactly zero remaining shares", 3, "")
	r.Rule("R3", "no validator-mutating staking API reachable from the routine", 1, "")
	r.Rule("R4", "rewards withdrawn first; F1 bookkeeping paired per branch; stake recomputed from shares", 6, "")
	r.Rule("R5", "receiving-redelegation refusal dominates all writes", 1, "")
	r.Rule("R7", "a delegation record created by the transfer names its delegator and validator by the canonical rendering of the parsed addresses (String() of an address value), never by a string taken from call data", 1, "NewDelegation calls in the routine")
	r.Rule("R6", "only a positive amount of shares reaches the transfer routine (refused in the routine or in Validate() of the argument struct)", 2, "call sites of the routine")

	fn := e.shareTransferRoutine()
	if fn == nil {
		r.Fail("R1", "share-transfer routine", "", "UNRESOLVED-ANCHOR: no function in a precompile package rewrites delegations")
		return
	}
	key := e.FnKey(fn)
	var addrPars []*ssa.Parameter
	for _, p := range fn.Params {
		if strings.HasSuffix(p.Type().String(), "common.Address") {
			addrPars = append(addrPars, p)
		}
	}
	// first effect / first keeper read
	var firstExt ssa.Instruction
	for _, b := range fn.DomPreorder() {
		for _, i := range b.Instrs {
			if c, ok := i.(ssa.CallInstruction); ok && firstExt == nil {
				for _, a := range callArgs(c) {
					if isCtxType(a.Type()) {
						firstExt = i
					}
				}
			}
		}
		if firstExt != nil {
			break
		}
	}
	// R1
	okAlias := false
	if len(addrPars) >= 2 {
		allInstrs(fn, func(i ssa.Instruction) {
			iff, ok := i.(*ssa.If)
			if !ok {
				return
			}
			b, ok := iff.Cond.(*ssa.BinOp)
			if !ok || (b.Op != token.EQL && b.Op != token.NEQ) {
				// bytes.Equal / Equals forms
				ci, ok2 := NormCond(Guard{Cond: iff.Cond, Pol: true, If: iff})
				if !ok2 || (ci.Op != "==" && ci.Op != "!=") || ci.X == nil || ci.Y == nil {
					return
				}
				if (e.rootsAtParam(ci.X, addrPars[0]) && e.rootsAtParam(ci.Y, addrPars[1])) || (e.rootsAtParam(ci.X, addrPars[1]) && e.rootsAtParam(ci.Y, addrPars[0])) {
					eqPol := ci.Op == "=="
					if exitsWithoutEffect(e, iff, eqPol) && (firstExt == nil || iff.Block().Dominates(firstExt.Block()) || iff.Block() == firstExt.Block() && false) {
						okAlias = true
					}
				}
				return
			}
			x, y := stripConv(b.X), stripConv(b.Y)
			if (x == ssa.Value(addrPars[0]) && y == ssa.Value(addrPars[1])) || (x == ssa.Value(addrPars[1]) && y == ssa.Value(addrPars[0])) {
				eqPol := b.Op == token.EQL
				if exitsWithoutEffect(e, iff, eqPol) {
					// must precede every keeper call
					if firstExt == nil || Dominates(iff, firstExt) {
						okAlias = true
					}
				}
			}
		})
	}
	if !okAlias && len(addrPars) >= 2 {
		// the guard may sit in the callers instead: then EVERY call site must be preceded by a test of the two values it
		// passes as sender and recipient (in the calling function, or in the function enclosing the calling closure)
		norm := func(k string) string {
			return strings.ReplaceAll(strings.ReplaceAll(regNames.ReplaceAllString(k, ""), "F:", "P:"), "*", "")
		}
		sites := e.CallSites(fn)
		all := len(sites) > 0
		for _, cs := range sites {
			if isAuxPkg(fnPkgPath(cs.Caller)) {
				continue
			}
			args := cs.Call.Common().Args
			i0, i1 := paramIndex(addrPars[0]), paramIndex(addrPars[1])
			if i0 >= len(args) || i1 >= len(args) {
				all = false
				continue
			}
			k0, k1 := norm(vkey(args[i0], 0)), norm(vkey(args[i1], 0))
			guarded := false
			scan := func(F *ssa.Function, before ssa.Instruction) {
				allInstrs(F, func(i ssa.Instruction) {
					iff, ok := i.(*ssa.If)
					if !ok || guarded {
						return
					}
					ci, ok := NormCond(Guard{Cond: iff.Cond, Pol: true, If: iff})
					if !ok || (ci.Op != "==" && ci.Op != "!=") || ci.X == nil || ci.Y == nil {
						return
					}
					a, b := norm(vkey(ci.X, 0)), norm(vkey(ci.Y, 0))
					if !((a == k0 && b == k1) || (a == k1 && b == k0)) {
						return
					}
					if !exitsWithoutEffect(e, iff, ci.Op == "==") {
						return
					}
					if before == nil || Dominates(iff, before) {
						guarded = true
					}
				})
			}
			scan(cs.Caller, cs.Call)
			if !guarded && cs.Caller.Parent() != nil {
				// the closure is created in its parent: the test must dominate that creation
				var mk ssa.Instruction
				allInstrs(cs.Caller.Parent(), func(i ssa.Instruction) {
					if m, ok := i.(*ssa.MakeClosure); ok && m.Fn == ssa.Value(cs.Caller) {
						mk = m
					}
				})
				if mk != nil {
					scan(cs.Caller.Parent(), mk)
				}
			}
			if !guarded {
				all = false
			}
		}
		if all {
			okAlias = true
		}
	}
	r.Check(okAlias, "R1", key, e.Pos(fn.Pos()), "from == to exits before the first keeper call", "a transfer to oneself is not refused before the two delegation copies are loaded: the recipient copy written last would be stale and the delegation grows by the transferred shares")

	// R2: Shares stores
	var subStore, addStore *ssa.Store
	var subAmt, addAmt ssa.Value
	allInstrs(fn, func(i ssa.Instruction) {
		st, ok := i.(*ssa.Store)
		if !ok {
			return
		}
		fa, ok := st.Addr.(*ssa.FieldAddr)
		if !ok {
			return
		}
		n, stt, _ := fieldName(fa)
		if n != "Shares" || !strings.HasSuffix(namedTypeName(stt), "Delegation") {
			return
		}
		if c, ok := st.Val.(*ssa.Call); ok {
			a := callArgs(c)
			if len(a) == 2 {
				if callName(c) == "Sub" {
					subStore, subAmt = st, a[1]
				}
				if callName(c) == "Add" {
					addStore, addAmt = st, a[1]
				}
			}
		}
	})
	if subStore == nil || addStore == nil {
		r.Fail("R2", key+" amounts", e.Pos(fn.Pos()), "UNRESOLVED-ANCHOR: Shares.Sub / Shares.Add stores not found")
	} else {
		r.Check(SameExpr(subAmt, addAmt, 6), "R2", key+" amounts", e.InstrPos(addStore), "the value added to the recipient's shares is the value subtracted from the sender's", "the recipient is credited a different share amount than the sender is debited")
		// sufficiency guard: GetShares().LT(amount) -> fail  => passing branch has >=
		okSuf := false
		for _, g := range GuardsOf(subStore) {
			rel, ok := RelOf(g)
			if !ok {
				continue
			}
			// <something> >= amount, in any spelling (LT / GT mirrored, Cmp, negated)
			isAmt := func(v ssa.Value) bool { return SameExpr(v, subAmt, 6) }
			notAmt := func(v ssa.Value) bool { return !SameExpr(v, subAmt, 6) }
			if rel.Says(">=", notAmt, isAmt) && BranchFailsClean(g.If, !g.Pol, func(i ssa.Instruction) bool { return e.EffectOf(i) != "" }) {
				okSuf = true
			}
		}
		r.Check(okSuf, "R2", key+" sufficiency", e.InstrPos(subStore), "sender shares >= amount (else error) dominates the subtraction", "shares are subtracted without a dominating check that the sender owns that many")
		// the amount comes from call data (a uint256 scaled by 10^18): pricing it (TokensFromShares* multiplies LegacyDecs
		// and panics beyond 315 bits) is allowed only once the sufficiency test has bounded it by the sender's own shares
		allCalls(fn, func(c ssa.CallInstruction) {
			n := callName(c)
			if !strings.HasPrefix(n, "TokensFromShares") && n != "MulInt" && n != "MulTruncate" && n != "Mul" {
				return
			}
			uses := false
			for _, a := range callArgs(c) {
				if SameExpr(a, subAmt, 6) {
					uses = true
				}
			}
			if !uses {
				return
			}
			bounded := false
			for _, g := range GuardsOf(c) {
				rel, ok := RelOf(g)
				if !ok {
					continue
				}
				isAmt := func(v ssa.Value) bool { return SameExpr(v, subAmt, 6) }
				notAmt := func(v ssa.Value) bool { return !SameExpr(v, subAmt, 6) }
				if rel.Says(">=", notAmt, isAmt) && BranchFailsClean(g.If, !g.Pol, nil) {
					bounded = true
				}
			}
			r.Check(bounded, "R2", key+" "+n+" bounded", e.InstrPos(c), "the transferred amount is priced only after it was bounded by the sender's shares", "the transferred amount — an arbitrary 256-bit number from call data — is multiplied ("+n+") before the test that bounds it by the sender's shares: LegacyDec multiplication panics on overflow, so an extreme amount panics inside the precompile instead of being refused")
		})
	}

	// R3
	banned := map[string]bool{"SetValidator": true, "AddValidatorTokensAndShares": true, "RemoveValidatorTokensAndShares": true, "RemoveValidatorTokens": true, "Delegate": true, "Unbond": true, "Undelegate": true, "BeginRedelegate": true, "SetValidatorByPowerIndex": true}
	bad := ""
	for f := range e.Reach([]*ssa.Function{fn}, func(x *ssa.Function) bool { return !isFx(x) }) {
		if !isFx(f) {
			continue
		}
		allCalls(f, func(c ssa.CallInstruction) {
			if banned[callName(c)] && len(e.calleesOf(c)) == 0 {
				bad = callName(c) + " in " + e.FnKey(f)
			}
		})
	}
	r.Check(bad == "", "R3", key, e.Pos(fn.Pos()), "no validator-mutating staking call reachable", "share transfer reaches a call that changes the validator's tokens/total shares: "+bad)

	// R4
	var writes []ssa.CallInstruction
	var withdraws []ssa.CallInstruction
	var removeDel, incPeriod ssa.CallInstruction
	allCalls(fn, func(c ssa.CallInstruction) {
		switch callName(c) {
		case "SetDelegation", "RemoveDelegation":
			writes = append(writes, c)
			if callName(c) == "RemoveDelegation" {
				removeDel = c
			}
		case "WithdrawDelegatorReward":
			withdraws = append(withdraws, c)
		case "IncrementValidatorPeriod":
			incPeriod = c
		}
	})
	// sender withdrawal dominates all writes
	okW := false
	for _, w := range withdraws {
		all := len(writes) > 0
		for _, wr := range writes {
			if !Dominates(w, wr) {
				all = false
			}
		}
		if all {
			if ok, _ := errorHandled(w); ok {
				okW = true
			}
		}
	}
	r.Check(okW, "R4", key+" withdraw-first", e.Pos(fn.Pos()), "a reward withdrawal (error-checked) dominates every delegation write", "delegations are rewritten before accrued rewards are paid out")
	r.Check(len(withdraws) >= 2, "R4", key+" withdraw-both", e.Pos(fn.Pos()), fmt.Sprintf("%d reward withdrawals (sender, and recipient when it already delegates)", len(withdraws)), "rewards of only one party are withdrawn")
	calledAfter := func(from ssa.Instruction, names ...string) (bool, ssa.Instruction) {
		for _, n := range names {
			off := MustPassThrough(fn, from, func(i ssa.Instruction) bool {
				c, ok := i.(ssa.CallInstruction)
				if !ok {
					return false
				}
				if callName(c) == n {
					return true
				}
				for _, f := range e.calleesOf(c) {
					if f.Name() == n {
						return true
					}
					// the reference-count helpers are recognised by what they do, not by their names
					if n == "decrementReferenceCount" && refCountDelta(f) == -1 {
						return true
					}
					if n == "incrementReferenceCount" && refCountDelta(f) == 1 {
						return true
					}
				}
				return false
			})
			if off != nil {
				return false, off
			}
		}
		return true, nil
	}
	if removeDel == nil {
		r.Fail("R4", key+" remove-branch", e.Pos(fn.Pos()), "UNRESOLVED-ANCHOR: no RemoveDelegation branch")
	} else {
		ok, off := calledAfter(removeDel, "decrementReferenceCount", "DeleteDelegatorStartingInfo")
		pos := e.InstrPos(removeDel)
		if off != nil {
			pos = e.InstrPos(off)
		}
		r.Check(ok, "R4", key+" remove-branch", pos, "after RemoveDelegation every success path decrements the reference count and deletes the starting info", "a delegation is removed without releasing its historical-rewards reference or its starting info")
	}
	// R2: the delegation is removed only when its remaining shares are exactly zero — the zero test is on the Shares of the
	// very record that is removed, not on a truncated / rounded view of it
	if removeDel != nil {
		args := nonCtxArgs(removeDel)
		var delKey string
		for _, a := range args {
			if strings.HasSuffix(namedTypeName(a.Type()), "staking/types.Delegation") {
				delKey = vkey(a, 0)
			}
		}
		verdict, why := 0, "the removal of the sender's delegation is not guarded by a zero test of its remaining shares"
		for _, g := range GuardsOf(removeDel) {
			ci, ok := NormCond(g)
			if !ok || ci.Call == nil {
				continue
			}
			var subj ssa.Value
			switch {
			case ci.Op == "call:IsZero":
				if a := callArgs(ci.Call); len(a) >= 1 {
					subj = a[0]
				}
			case ci.Op == "==" && ci.Y != nil && isZeroValue(ci.Y):
				subj = ci.X
			case ci.Op == "<=" && ci.Y != nil && isZeroValue(ci.Y):
				subj = ci.X
			case ci.Op == "!call:IsPositive":
				if a := callArgs(ci.Call); len(a) >= 1 {
					subj = a[0]
				}
			}
			if subj == nil {
				continue
			}
			sk := vkey(subj, 0)
			exact := delKey != "" && (sk == delKey+".Shares" || sk == "GetShares("+delKey+")")
			if !exact {
				// the tested value is the same Dec that is stored into <del>.Shares
				allInstrs(fn, func(i ssa.Instruction) {
					if st, ok := i.(*ssa.Store); ok {
						if fa, ok := st.Addr.(*ssa.FieldAddr); ok {
							if n, _, _ := fieldName(fa); n == "Shares" && vkey(st.Val, 0) == sk {
								exact = true
							}
						}
					}
				})
			}
			if exact {
				verdict, why = 1, "removed only when the record's own remaining Shares are exactly zero"
			} else if verdict == 0 {
				verdict, why = -1, "the delegation is removed on a zero test of "+regNames.ReplaceAllString(sk, "")+", which is not the record's exact remaining Shares (a truncated or rounded view is zero while a fraction of a share remains): the sender loses the remainder and delegator shares no longer sum to the validator's"
			}
		}
		r.Check(verdict == 1, "R2", key+" remove-iff-zero", e.InstrPos(removeDel), why, why)
	}
	if incPeriod == nil {
		r.Fail("R4", key+" new-recipient", e.Pos(fn.Pos()), "UNRESOLVED-ANCHOR: no IncrementValidatorPeriod for a new recipient")
	} else {
		// the not-found branch later: incrementReferenceCount + SetDelegatorStartingInfo in the branch creating the recipient
		var incRef ssa.CallInstruction
		allCalls(fn, func(c ssa.CallInstruction) {
			for _, f := range e.calleesOf(c) {
				if refCountDelta(f) == 1 {
					incRef = c
				}
			}
		})
		if incRef == nil {
			r.Fail("R4", key+" new-recipient", e.InstrPos(incPeriod), "new recipient: historical-rewards reference count is never incremented")
		} else {
			ok, off := calledAfter(incRef, "SetDelegatorStartingInfo")
			pos := e.InstrPos(incRef)
			if off != nil {
				pos = e.InstrPos(off)
			}
			okErr, _ := errorHandled(incPeriod)
			r.Check(ok && okErr, "R4", key+" new-recipient", pos, "period increment (checked) for a new recipient; reference-count increment followed by starting-info set on every success path", "a new recipient's delegation is created without consistent F1 starting info")
		}
	}
	// stake recomputation
	nStake := 0
	checkStake := func(v ssa.Value, at ssa.Instruction, what string) {
		nStake++
		ck := fmt.Sprintf("%s stake#%d", key, nStake)
		c, ok := stripConv(v).(*ssa.Call)
		if !ok || callName(c) != "TokensFromSharesTruncated" {
			r.Fail("R4", ck, e.InstrPos(at), what+": starting-info Stake is not recomputed as validator.TokensFromSharesTruncated(shares) — stake is in tokens, shares are in shares, the two differ once the validator has been slashed")
			return
		}
		a := callArgs(c)
		okArg := false
		if len(a) == 2 {
			if _, ok := methodCallOn(a[1], "GetShares"); ok {
				okArg = true
			}
			// the transferred amount is the delegation's whole share only for a recipient created by this transfer
			if what == "create" && subAmt != nil && SameExpr(a[1], subAmt, 6) {
				okArg = true
			}
			if n, _, ok := fieldNameOfLoad(a[1]); ok && n == "Shares" {
				okArg = true
			}
			// a local holding the very value that is stored into a delegation's Shares (`rest := d.Shares.Sub(x); d.Shares = rest`)
			allInstrs(fn, func(i ssa.Instruction) {
				if st, ok := i.(*ssa.Store); ok {
					if fa, ok := st.Addr.(*ssa.FieldAddr); ok {
						if n, stt, _ := fieldName(fa); n == "Shares" && strings.HasSuffix(namedTypeName(stt), "Delegation") && st.Val == stripConv(a[1]) {
							okArg = true
						}
					}
				}
			})
		}
		r.Check(okArg, "R4", ck, e.InstrPos(at), what+": Stake = validator.TokensFromSharesTruncated(<delegation shares | transferred shares>)", what+": Stake is computed from something that is not the delegation's shares (for an existing delegation the transferred amount is only part of them: its rewards would accrue on the moved shares alone)")
	}
	// whose rewards were withdrawn where: the delegator of each WithdrawDelegatorReward message
	paramRoot := func(v ssa.Value) *ssa.Parameter {
		var out *ssa.Parameter
		e.Slice(v, SliceOpts{MaxDepth: 8}, func(x ssa.Value) Verdict {
			if p, ok := x.(*ssa.Parameter); ok && strings.HasSuffix(p.Type().String(), "common.Address") {
				out = p
				return Accept
			}
			return Continue
		})
		return out
	}
	type wd struct {
		call  ssa.CallInstruction
		party *ssa.Parameter
	}
	var wds []wd
	allCalls(fn, func(c ssa.CallInstruction) {
		if callName(c) != "WithdrawDelegatorReward" && callName(c) != "WithdrawDelegationRewards" {
			return
		}
		for _, a := range c.Common().Args {
			if al, ok := a.(*ssa.Alloc); ok {
				for _, ref := range *al.Referrers() {
					if fa, ok := ref.(*ssa.FieldAddr); ok {
						if n, _, _ := fieldName(fa); n == "DelegatorAddress" {
							for _, r2 := range *fa.Referrers() {
								if st, ok := r2.(*ssa.Store); ok {
									if p := paramRoot(st.Val); p != nil {
										wds = append(wds, wd{c, p})
									}
								}
							}
						}
					}
				}
			} else if p := paramRoot(a); p != nil && isAddrLike(a.Type()) {
				wds = append(wds, wd{c, p})
			}
		}
	})
	nUpd := 0
	allInstrs(fn, func(i ssa.Instruction) {
		if st, ok := i.(*ssa.Store); ok {
			if fa, ok := st.Addr.(*ssa.FieldAddr); ok {
				if n, stt, _ := fieldName(fa); n == "Stake" && strings.HasSuffix(namedTypeName(stt), "DelegatorStartingInfo") {
					checkStake(st.Val, i, "update")
					// an existing starting info keeps its old period: it may be given a new stake only after that party's rewards
					// were withdrawn (which re-bases it to the current period) — on every path, also when the payout rounds to 0
					nUpd++
					var party *ssa.Parameter
					e.Slice(fa.X, SliceOpts{MaxDepth: 8}, func(x ssa.Value) Verdict {
						if c, ok := x.(*ssa.Call); ok && callName(c) == "GetDelegatorStartingInfo" {
							for _, a := range c.Call.Args {
								if p := paramRoot(a); p != nil {
									party = p
								}
							}
							return Accept
						}
						return Continue
					})
					ck := fmt.Sprintf("%s rebase#%d", key, nUpd)
					if party == nil {
						r.Undecided("R4", ck, e.InstrPos(i), "the party whose starting info is updated could not be determined")
						return
					}
					okW := false
					for _, w := range wds {
						if w.party == party && DominatesF(w.call, i) {
							okW = true
						}
					}
					r.Check(okW, "R4", ck, e.InstrPos(i), "the stake of "+party.Name()+"'s existing starting info is replaced only after "+party.Name()+"'s rewards were withdrawn, on every path", "the stake of "+party.Name()+"'s existing starting info is replaced on a path on which "+party.Name()+"'s rewards were not withdrawn (the withdrawal is conditional): the record keeps its old period, so the enlarged stake earns rewards for periods before the transfer — paid out of other delegators' rewards")
				}
			}
		}
		if c, ok := i.(*ssa.Call); ok && callName(c) == "NewDelegatorStartingInfo" && len(c.Common().Args) == 3 {
			checkStake(c.Common().Args[1], i, "create")
		}
	})
	if nStake < 3 {
		r.Fail("R4", key+" stake sites", e.Pos(fn.Pos()), fmt.Sprintf("only %d starting-info stake computations (sender update, recipient update, recipient create expected)", nStake))
	}

	// R7: staking groups and looks delegations up by the validator STRING stored in the record (invariants, gov tally); bech32
	// also accepts an all-upper-case spelling, so a raw call-data string stored there splits one validator's delegations in
	// two (round-8 seed C11 passed args.Validator through)
	{
		n7 := 0
		allCalls(fn, func(c ssa.CallInstruction) {
			if callName(c) != "NewDelegation" {
				return
			}
			for ai, a := range c.Common().Args {
				if b, ok := a.Type().Underlying().(*types.Basic); !ok || b.Kind() != types.String {
					continue
				}
				n7++
				canonical := false
				if sc, ok := stripConv(a).(*ssa.Call); ok && callName(sc) == "String" {
					rt := recvTypeName(sc)
					if strings.HasSuffix(rt, "types.ValAddress") || strings.HasSuffix(rt, "types.AccAddress") {
						canonical = true
					}
				}
				r.Check(canonical, "R7", fmt.Sprintf("%s NewDelegation arg#%d", key, ai), e.InstrPos(c), "String() of a parsed address", "the new delegation record is given an address string that is not the canonical rendering of a parsed address (e.g. the caller's own spelling from call data): bech32 accepts upper case, the record then names the validator differently from every other record and staking's per-validator sums and lookups miss it")
			}
		})
		if n7 == 0 {
			r.Fail("R7", key+" NewDelegation", e.Pos(fn.Pos()), "UNRESOLVED-ANCHOR: the routine creates no delegation record for a new recipient")
		}
	}
	// R5
	okRed := false
	allCalls(fn, func(c ssa.CallInstruction) {
		if callName(c) != "HasReceivingRedelegation" {
			return
		}
		v := c.(ssa.Value)
		for _, ref := range *v.Referrers() {
			ex, ok := ref.(*ssa.Extract)
			if !ok || ex.Index != 0 {
				continue
			}
			for _, r2 := range *ex.Referrers() {
				iff, ok := r2.(*ssa.If)
				if !ok || !BranchFailsClean(iff, true, func(i ssa.Instruction) bool { return e.EffectOf(i) != "" }) {
					continue
				}
				all := true
				for _, wr := range writes {
					if !Dominates(iff, wr) {
						all = false
					}
				}
				for _, w := range withdraws {
					if !Dominates(iff, w) {
						all = false
					}
				}
				// the redelegation looked up is the sender's
				if all {
					okRed = true
				}
			}
		}
	})
	r.Check(okRed, "R5", key, e.Pos(fn.Pos()), "`has receiving redelegation` -> error dominates withdrawals and delegation writes", "shares can be transferred while the sender has an incoming redelegation (slashing of the source validator could no longer reach them)")

	// ---------- R6: only a positive amount of shares is transferred ----------
	// With zero shares the routine would still create a delegation record (Shares = 0) and starting info for a new recipient
	// and pass every allowance (0 <= allowance). The amount handed to the routine must therefore be refused unless > 0: in the
	// routine itself, or in Validate() of the argument struct it is taken from (run by ParseMethodArgs, C20.R3).
	var sharesPar *ssa.Parameter
	for _, p := range fn.Params {
		if strings.HasSuffix(p.Type().String(), "big.Int") {
			sharesPar = p
		}
	}
	if sharesPar == nil {
		r.Fail("R6", key+" amount", e.Pos(fn.Pos()), "UNRESOLVED-ANCHOR: the routine has no *big.Int amount parameter")
		return
	}
	if e.positivityGuard(fn, func(v ssa.Value) bool { return stripConv(v) == ssa.Value(sharesPar) }, 0) {
		r.Ok("R6", key+" amount", e.Pos(fn.Pos()), "the routine refuses a non-positive amount itself")
		return
	}
	pidx := paramIndex(sharesPar)
	css := e.CallSites(fn)
	if len(css) == 0 {
		r.Fail("R6", key+" amount", e.Pos(fn.Pos()), "UNRESOLVED-ANCHOR: no call site of the routine")
	}
	for _, cs := range css {
		ck := e.CanonFnKey(rootFn(cs.Caller)) + " -> " + fn.Name() + " amount"
		args := cs.Call.Common().Args
		if pidx >= len(args) {
			r.Fail("R6", ck, e.InstrPos(cs.Call), "UNRESOLVED-ANCHOR: amount argument not found")
			continue
		}
		// the amount is a field of a decoded argument struct
		ld, _ := stripConv(args[pidx]).(*ssa.UnOp)
		var fa *ssa.FieldAddr
		if ld != nil {
			fa, _ = ld.X.(*ssa.FieldAddr)
		}
		if fa == nil {
			r.Fail("R6", ck, e.InstrPos(cs.Call), "the transferred amount is neither tested for > 0 in the routine nor a field of a validated argument struct")
			continue
		}
		st := fieldStructOf(fa)
		var named types.Type = fa.X.Type()
		if pt, ok := named.Underlying().(*types.Pointer); ok {
			named = pt.Elem()
		}
		var validate *ssa.Function
		for _, cand := range e.Funcs {
			if cand.Name() != "Validate" || cand.Signature.Recv() == nil {
				continue
			}
			rt := cand.Signature.Recv().Type()
			if pt, ok := rt.Underlying().(*types.Pointer); ok {
				rt = pt.Elem()
			}
			if types.Identical(rt, named) {
				validate = cand
			}
		}
		if validate == nil || st == nil {
			r.Fail("R6", ck, e.InstrPos(cs.Call), "UNRESOLVED-ANCHOR: no Validate() method for the argument struct "+named.String())
			continue
		}
		field := fa.Field
		isField := func(v ssa.Value) bool {
			u, ok := stripConv(v).(*ssa.UnOp)
			if !ok {
				return false
			}
			f2, ok := u.X.(*ssa.FieldAddr)
			return ok && f2.Field == field && fieldStructOf(f2) == st
		}
		if e.positivityGuard(validate, isField, 0) {
			r.Ok("R6", ck, e.InstrPos(cs.Call), e.FnKey(validate)+" refuses an amount <= 0")
		} else {
			r.Fail("R6", ck, e.InstrPos(cs.Call), "a transfer of zero (or negative) shares is not refused: "+e.FnKey(validate)+" has no failing branch for `"+st.Field(field).Name()+" <= 0` and the routine does not test its amount either; a zero transfer creates a zero-share delegation for a new recipient and passes any allowance")
		}
	}
}

// positivityGuard: function g refuses (clean failing branch) a value selected by isVal unless it is > 0. Recognised tests:
// v.Sign() <= 0 / < 1 / != 1, v.Cmp(zero) <= 0, !v.IsPositive(), and the same test inside a helper that is handed v and
// whose error g propagates.
func (e *Engine) positivityGuard(g *ssa.Function, isVal func(ssa.Value) bool, depth int) bool {
	found := false
	allInstrs(g, func(i ssa.Instruction) {
		iff, ok := i.(*ssa.If)
		if !ok || found {
			return
		}
		for _, pol := range []bool{true, false} {
			ci, ok := NormCond(Guard{Cond: iff.Cond, Pol: pol, If: iff})
			if !ok {
				continue
			}
			nonPos := false
			switch {
			case ci.Call == nil && ci.X != nil && ci.Y != nil:
				c, isC := stripConv(ci.X).(*ssa.Call)
				k, isK := constInt(ci.Y)
				if isC && isK && (callName(c) == "Sign" || callName(c) == "Cmp") {
					rv := callArgs(c)
					if len(rv) > 0 && isVal(rv[0]) {
						if callName(c) == "Cmp" && !(len(rv) > 1 && isZeroBig(rv[1])) {
							break
						}
						switch {
						case ci.Op == "<=" && k == 0, ci.Op == "<" && k == 1, ci.Op == "!=" && k == 1:
							nonPos = true
						}
					}
				}
			case ci.Call != nil && ci.Op == "!call:IsPositive":
				rv := callArgs(ci.Call)
				if len(rv) > 0 && isVal(rv[0]) {
					nonPos = true
				}
			}
			if nonPos && BranchFailsClean(iff, pol, nil) {
				found = true
			}
		}
	})
	if found || depth > 0 {
		return found
	}
	// helper form
	allCalls(g, func(c ssa.CallInstruction) {
		if found {
			return
		}
		for ai, a := range c.Common().Args {
			if !isVal(a) {
				continue
			}
			for _, h := range e.calleesOf(c) {
				if h.Blocks == nil || ai >= len(h.Params) || c.Common().IsInvoke() {
					continue
				}
				hp := h.Params[ai]
				if ok, _ := errorHandled(c); ok && e.positivityGuard(h, func(v ssa.Value) bool { return stripConv(v) == ssa.Value(hp) }, depth+1) {
					found = true
				}
			}
		}
	})
	return found
}

// isZeroBig: big.NewInt(0) / a package-level zero / new(big.Int).
func isZeroBig(v ssa.Value) bool {
	v = stripConv(v)
	if c, ok := v.(*ssa.Call); ok && callName(c) == "NewInt" {
		as := c.Common().Args
		if len(as) == 1 {
			if k, ok := constInt(as[0]); ok && k == 0 {
				return true
			}
		}
	}
	if a, ok := v.(*ssa.Alloc); ok && strings.HasSuffix(a.Type().String(), "big.Int") {
		return true
	}
	return false
}

// exitsWithoutEffect: taking branch pol of iff leads to a return (any) or panic without executing an effect.
func exitsWithoutEffect(e *Engine, iff *ssa.If, pol bool) bool {
	b := iff.Block()
	start := b.Succs[1]
	if pol {
		start = b.Succs[0]
	}
	seen := map[*ssa.BasicBlock]bool{}
	var walk func(x *ssa.BasicBlock) bool
	walk = func(x *ssa.BasicBlock) bool {
		if seen[x] {
			return true
		}
		seen[x] = true
		for _, in := range x.Instrs {
			if e.EffectOf(in) != "" {
				return false
			}
			if c, ok := in.(ssa.CallInstruction); ok {
				for _, a := range callArgs(c) {
					if isCtxType(a.Type()) {
						return false // any keeper call
					}
				}
			}
			switch in.(type) {
			case *ssa.Return, *ssa.Panic:
				return true
			}
		}
		for _, s := range x.Succs {
			if !walk(s) {
				return false
			}
		}
		return len(x.Succs) > 0
	}
	return walk(start)
}
