package main

import (
	"regexp"
	"fmt"
	"go/token"
	"go/types"
	"sort"
	"strconv"
	"strings"

	"golang.org/x/tools/go/ssa"
)

func init() { register("C04", "other", runC04) }

// ---------------------------------------------------------------------------------------------------------------------
// structural keys: a canonical string for an SSA value that is the same for two syntactically equal source expressions
// (go/ssa performs no CSE), looks through local-variable spills, conversions and sdk.NewCoin(d, a).Denom / .Amount.
// ---------------------------------------------------------------------------------------------------------------------

func singleStore(a *ssa.Alloc) ssa.Value {
	var v ssa.Value
	n := 0
	if a.Referrers() == nil {
		return nil
	}
	for _, r := range *a.Referrers() {
		if st, ok := r.(*ssa.Store); ok && st.Addr == ssa.Value(a) {
			v = st.Val
			n++
		}
	}
	if n == 1 {
		return v
	}
	return nil
}

var amountWrappers = map[string]bool{"NewIntFromBigInt": true, "BigInt": true, "NewInt": true}

func isNewCoin(c *ssa.Call) bool {
	f := c.Common().StaticCallee()
	return f != nil && f.Name() == "NewCoin" && f.Pkg != nil && strings.HasSuffix(f.Pkg.Pkg.Path(), "cosmos-sdk/types")
}

func vkey(v ssa.Value, depth int) string {
	if v == nil {
		return "<nil>"
	}
	if depth > 12 {
		return v.Name()
	}
	v = stripConv(v)
	switch x := v.(type) {
	case *ssa.Const:
		if x.Value == nil {
			return "nil"
		}
		if x.Value.Kind().String() == "String" {
			return x.Value.ExactString()
		}
		return x.Value.ExactString()
	case *ssa.Parameter:
		return "P:" + x.Name()
	case *ssa.Global:
		return "G:" + x.Name()
	case *ssa.FreeVar:
		// a captured variable is the enclosing function's variable: use that one's key, so that an expression has the same
		// key inside and outside the closure
		if fn := x.Parent(); fn != nil && fn.Parent() != nil {
			idx := -1
			for i, fv := range fn.FreeVars {
				if fv == x {
					idx = i
				}
			}
			var mk *ssa.MakeClosure
			allInstrs(fn.Parent(), func(i ssa.Instruction) {
				if m, ok := i.(*ssa.MakeClosure); ok && m.Fn == ssa.Value(fn) {
					mk = m
				}
			})
			if mk != nil && idx >= 0 && idx < len(mk.Bindings) {
				if a, ok := mk.Bindings[idx].(*ssa.Alloc); ok {
					// binding is the address of the captured variable; a load of the free variable is a load of it
					return "&" + vkey(a, depth+1)
				}
				return vkey(mk.Bindings[idx], depth+1)
			}
		}
		return "F:" + x.Name()
	case *ssa.Alloc:
		if sv := singleStore(x); sv != nil {
			switch sv.(type) {
			case *ssa.MakeMap, *ssa.MakeSlice, *ssa.MakeChan:
				if x.Comment != "" {
					return "alloc:" + x.Comment
				}
			}
			return vkey(sv, depth+1)
		}
		return "alloc:" + x.Comment + "@" + x.Name()
	case *ssa.UnOp:
		if x.Op == token.MUL {
			switch a := x.X.(type) {
			case *ssa.FieldAddr:
				n, _, _ := fieldName(a)
				return fkey(a.X, n, depth+1)
			case *ssa.Alloc:
				return vkey(a, depth+1)
			case *ssa.Global:
				return "G:" + a.Name()
			}
			if k := vkey(x.X, depth+1); strings.HasPrefix(k, "&") {
				return k[1:]
			} else {
				return "*" + k
			}
		}
		return x.Op.String() + vkey(x.X, depth+1)
	case *ssa.Field:
		n, _, _ := fieldName(x)
		return fkey(x.X, n, depth+1)
	case *ssa.FieldAddr:
		n, _, _ := fieldName(x)
		return "&" + fkey(x.X, n, depth+1)
	case *ssa.Extract:
		return vkey(x.Tuple, depth+1) + "#" + strconv.Itoa(x.Index)
	case *ssa.Call:
		n := callName(x)
		args := callArgs(x)
		if amountWrappers[n] && len(args) >= 1 {
			return vkey(args[len(args)-1], depth+1)
		}
		if k, ok := inlineWrapperKey(x, depth); ok {
			return k
		}
		var ks []string
		for _, a := range args {
			if isCtxType(a.Type()) {
				continue
			}
			ks = append(ks, vkey(a, depth+1))
		}
		if n == "" {
			n = "dyn:" + x.Name()
		}
		return n + "(" + strings.Join(ks, ",") + ")"
	case *ssa.BinOp:
		return "(" + vkey(x.X, depth+1) + x.Op.String() + vkey(x.Y, depth+1) + ")"
	case *ssa.Slice:
		return vkey(x.X, depth+1)
	case *ssa.Next:
		return "next(" + vkey(x.Iter, depth+1) + ")"
	case *ssa.Range:
		return "range(" + vkey(x.X, depth+1) + ")"
	case *ssa.Lookup:
		return vkey(x.X, depth+1) + "[" + vkey(x.Index, depth+1) + "]"
	case *ssa.Index:
		return vkey(x.X, depth+1) + "[" + vkey(x.Index, depth+1) + "]"
	case *ssa.IndexAddr:
		return "&" + vkey(x.X, depth+1) + "[" + vkey(x.Index, depth+1) + "]"
	case *ssa.Phi:
		return "phi:" + x.Name()
	}
	return v.Name()
}

// fkey: key of base.<field>
func fkey(base ssa.Value, field string, depth int) string {
	b := stripConv(base)
	if a, ok := b.(*ssa.Alloc); ok {
		if sv := singleStore(a); sv != nil {
			b = stripConv(sv)
		} else {
			return "alloc:" + a.Comment + "." + field
		}
	}
	if u, ok := b.(*ssa.UnOp); ok && u.Op == token.MUL {
		if a, ok := u.X.(*ssa.Alloc); ok {
			return fkey(a, field, depth+1)
		}
	}
	if c, ok := b.(*ssa.Call); ok && isNewCoin(c) && len(c.Call.Args) == 2 {
		if field == "Denom" {
			return vkey(c.Call.Args[0], depth+1)
		}
		if field == "Amount" {
			return vkey(c.Call.Args[1], depth+1)
		}
	}
	return vkey(b, depth+1) + "." + field
}

type coinTerm struct{ Denom, Amt string }

func (t coinTerm) String() string { return t.Denom + "*" + t.Amt }

func isCoinType(t types.Type) bool  { return strings.HasSuffix(namedTypeName(t), "cosmos-sdk/types.Coin") }
func isCoinsType(t types.Type) bool { return strings.HasSuffix(namedTypeName(t), "cosmos-sdk/types.Coins") }

func coinTermOf(v ssa.Value) coinTerm { return coinTerm{fkey(v, "Denom", 0), fkey(v, "Amount", 0)} }

// coinsTerms: the coins of an sdk.Coins argument. exact=true when it is sdk.NewCoins(c1, c2, ...) of resolvable coins.
func coinsTerms(v ssa.Value) ([]coinTerm, bool) {
	v = stripConv(v)
	if isCoinType(v.Type()) {
		return []coinTerm{coinTermOf(v)}, true
	}
	if c, ok := v.(*ssa.Call); ok && callName(c) == "NewCoins" && len(c.Call.Args) == 1 {
		if sl, ok := c.Call.Args[0].(*ssa.Slice); ok {
			if arr, ok := sl.X.(*ssa.Alloc); ok && arr.Referrers() != nil {
				var out []coinTerm
				for _, r := range *arr.Referrers() {
					if ia, ok := r.(*ssa.IndexAddr); ok && ia.Referrers() != nil {
						for _, rr := range *ia.Referrers() {
							if st, ok := rr.(*ssa.Store); ok && st.Addr == ssa.Value(ia) {
								out = append(out, coinTermOf(st.Val))
							}
						}
					}
				}
				if len(out) > 0 {
					return out, true
				}
			}
		}
	}
	k := vkey(v, 0)
	return []coinTerm{{"coins:" + k, "coins:" + k}}, false
}

// addrKey: canonical key of an account expression, looking through representation changes.
func addrKey(v ssa.Value) string {
	for i := 0; i < 12; i++ {
		v = stripConv(v)
		switch x := v.(type) {
		case *ssa.Call:
			switch callName(x) {
			case "Bytes", "String", "Hex", "BytesToAddress", "HexToAddress", "MustAccAddressFromBech32", "AccAddress", "ExternalAddrToAccAddr", "Hash":
				a := callArgs(x)
				if len(a) > 0 {
					v = a[len(a)-1]
					continue
				}
			}
		case *ssa.Extract:
			if c, ok := x.Tuple.(*ssa.Call); ok && x.Index == 0 && callName(c) == "AccAddressFromBech32" {
				v = c.Call.Args[0]
				continue
			}
		case *ssa.Slice:
			v = x.X
			continue
		case *ssa.UnOp:
			if a, ok := x.X.(*ssa.Alloc); ok && x.Op == token.MUL {
				if sv := singleStore(a); sv != nil {
					v = sv
					continue
				}
			}
		case *ssa.Alloc:
			if sv := singleStore(x); sv != nil {
				v = sv
				continue
			}
		}
		break
	}
	return vkey(v, 0)
}

// ---------------------------------------------------------------------------------------------------------------------
// bank value operations and success-path enumeration
// ---------------------------------------------------------------------------------------------------------------------

type bankEvent struct {
	Kind   string // in (account->module) | out (module->account) | mint | burn | send (account->account)
	Mod    string
	Holder string // in/out: the account; send: from
	To     string // send only
	Coins  []coinTerm
	Exact  bool
	Call   ssa.CallInstruction
}

func isBankKeeperCall(c ssa.CallInstruction) bool {
	rt := recvTypeName(c)
	return strings.Contains(rt, "BankKeeper") || strings.Contains(rt, "x/bank/keeper")
}

func bankEventOf(c ssa.CallInstruction) (bankEvent, bool) {
	if !isBankKeeperCall(c) {
		return bankEvent{}, false
	}
	a := nonCtxArgs(c)
	if c.Common().IsInvoke() {
		// nonCtxArgs leaves invoke args untouched apart from ctx
	}
	ev := bankEvent{Call: c}
	switch callName(c) {
	case "SendCoinsFromAccountToModule":
		if len(a) != 3 {
			return ev, false
		}
		ev.Kind, ev.Holder, ev.Mod = "in", addrKey(a[0]), vkey(a[1], 0)
		ev.Coins, ev.Exact = coinsTerms(a[2])
	case "SendCoinsFromModuleToAccount":
		if len(a) != 3 {
			return ev, false
		}
		ev.Kind, ev.Mod, ev.Holder = "out", vkey(a[0], 0), addrKey(a[1])
		ev.Coins, ev.Exact = coinsTerms(a[2])
	case "MintCoins":
		if len(a) != 2 {
			return ev, false
		}
		ev.Kind, ev.Mod = "mint", vkey(a[0], 0)
		ev.Coins, ev.Exact = coinsTerms(a[1])
	case "BurnCoins":
		if len(a) != 2 {
			return ev, false
		}
		ev.Kind, ev.Mod = "burn", vkey(a[0], 0)
		ev.Coins, ev.Exact = coinsTerms(a[1])
	case "SendCoins":
		if len(a) != 3 {
			return ev, false
		}
		ev.Kind, ev.Holder, ev.To = "send", addrKey(a[0]), addrKey(a[1])
		ev.Coins, ev.Exact = coinsTerms(a[2])
	default:
		return ev, false
	}
	return ev, true
}

type vpath struct {
	Atoms  map[string]bool
	Events []bankEvent
	Calls  []ssa.CallInstruction
	Ret    *ssa.Return
}

// atomOf: canonical atom of a branch condition and the polarity with which cond==true asserts it.
func atomOf(cond ssa.Value) (string, bool) {
	pol := true
	for {
		if u, ok := cond.(*ssa.UnOp); ok && u.Op == token.NOT {
			cond, pol = u.X, !pol
			continue
		}
		break
	}
	switch x := cond.(type) {
	case *ssa.BinOp:
		if x.Op == token.EQL || x.Op == token.NEQ {
			a, b := vkey(x.X, 0), vkey(x.Y, 0)
			if a > b {
				a, b = b, a
			}
			if x.Op == token.NEQ {
				pol = !pol
			}
			return "eq(" + a + "," + b + ")", pol
		}
		return "cmp:" + vkey(x, 0), pol
	case *ssa.Call:
		return "call:" + vkey(x, 0), pol
	case *ssa.Extract:
		return "ok:" + vkey(x, 0), pol
	}
	return "val:" + vkey(cond, 0), pol
}

// successPaths enumerates the loop-free success paths of fn (a path that re-enters a block is dropped and reported
// through hasLoop). Contradictory repeated atoms are pruned.
func successPaths(fn *ssa.Function) (paths []vpath, hasLoop bool) {
	if len(fn.Blocks) == 0 {
		return nil, false
	}
	onPath := map[*ssa.BasicBlock]bool{}
	var walk func(b *ssa.BasicBlock, cur vpath)
	walk = func(b *ssa.BasicBlock, cur vpath) {
		if len(paths) > 5000 {
			return
		}
		if onPath[b] {
			hasLoop = true
			return
		}
		onPath[b] = true
		defer func() { onPath[b] = false }()
		for _, in := range b.Instrs {
			switch t := in.(type) {
			case ssa.CallInstruction:
				if ev, ok := bankEventOf(t); ok {
					cur.Events = append(append([]bankEvent{}, cur.Events...), ev)
				}
				cur.Calls = append(append([]ssa.CallInstruction{}, cur.Calls...), t)
			}
			switch t := in.(type) {
			case *ssa.Return:
				if !IsFailureReturn(t) {
					cur.Ret = t
					paths = append(paths, cur)
				}
				return
			case *ssa.Panic:
				return
			case *ssa.If:
				atom, pol := atomOf(t.Cond)
				for i, succ := range b.Succs {
					val := pol
					if i == 1 {
						val = !pol
					}
					if old, ok := cur.Atoms[atom]; ok {
						if old != val {
							continue
						}
						walk(succ, cur)
						continue
					}
					nx := cur
					nx.Atoms = map[string]bool{}
					for k, v := range cur.Atoms {
						nx.Atoms[k] = v
					}
					nx.Atoms[atom] = val
					walk(succ, nx)
				}
				return
			}
		}
		for _, s := range b.Succs {
			walk(s, cur)
		}
	}
	walk(fn.Blocks[0], vpath{Atoms: map[string]bool{}})
	return paths, hasLoop
}

// ---------------------------------------------------------------------------------------------------------------------
// token-kind configurations and the interpretation of branch atoms under them (explicit table, confirmed by reading)
// ---------------------------------------------------------------------------------------------------------------------

type tokenCfg struct {
	Kind      string // fx | module-owned | external-owned
	CoinClass string // class of the routine's coin parameter: base | bridge | ibc
}

// interpAtom: value of a branch atom under cfg for a routine whose coin parameter is coinPar and whose base-denom
// parameter (the one handed to GetTokenPair) is basePar. known=false: atom is not about the token kind (free).
func interpAtom(atom string, cfg tokenCfg, coinPar, basePar string) (val bool, known bool) {
	coinDenom := "P:" + coinPar + ".Denom"
	switch {
	case strings.HasPrefix(atom, "eq("):
		body := strings.TrimSuffix(strings.TrimPrefix(atom, "eq("), ")")
		// `x == "FX"`: the coin's own denom, or the denom of its token pair
		if strings.Contains(body, `"FX"`) {
			other := strings.Trim(strings.Replace(body, `"FX"`, "", 1), ",")
			if other == coinDenom || strings.HasPrefix(other, "GetDenom(") {
				// FX has no alias denominations (types/metadata.go GetFXMetaData): its bridge denom and base denom are "FX"
				return cfg.Kind == "fx", true
			}
			return false, false
		}
		// `coin.Denom == baseDenom`
		if basePar != "" && (body == "P:"+basePar+","+coinDenom || body == coinDenom+",P:"+basePar) {
			return cfg.CoinClass == "base", true
		}
	case strings.HasPrefix(atom, "call:IsNativeCoin("):
		// x/erc20/types TokenPair.IsNativeCoin: ContractOwner == OWNER_MODULE (FX itself is module-owned)
		return cfg.Kind != "external-owned", true
	case strings.HasPrefix(atom, "call:IsNativeERC20("):
		// TokenPair.IsNativeERC20: ContractOwner == OWNER_EXTERNAL
		return cfg.Kind == "external-owned", true
	case strings.HasPrefix(atom, "call:HasPrefix("+coinDenom+`,"ibc/")`):
		return cfg.CoinClass == "ibc", true
	}
	return false, false
}

type effect struct{ supply, holder int }

// pathEffects: per denom class (the routine's coin -> coinClass, any other coin of the same amount -> otherClass)
func pathEffects(p vpath, coinPar, coinClass, otherClass string) (map[string]effect, string) {
	out := map[string]effect{}
	cd, ca := "P:"+coinPar+".Denom", "P:"+coinPar+".Amount"
	for _, ev := range p.Events {
		if ev.Kind == "send" {
			continue
		}
		for _, t := range ev.Coins {
			cls := ""
			switch {
			case t.Denom == cd && t.Amt == ca:
				cls = coinClass
			case t.Amt == ca:
				cls = otherClass
			default:
				return nil, fmt.Sprintf("operation on %s whose amount is not the routine's coin amount", t)
			}
			e := out[cls]
			switch ev.Kind {
			case "in":
				e.holder--
			case "out":
				e.holder++
			case "mint":
				e.supply++
			case "burn":
				e.supply--
			}
			out[cls] = e
		}
	}
	return out, ""
}

type valueRoutine struct {
	Fn       *ssa.Function
	Key      string
	Paths    []vpath
	HasLoop  bool
	CoinPar  string
	BasePar  string
	Release  bool // has an own mint / module->account operation
	OwnOps   int
	ModKeys  map[string]bool
	HoldKeys map[string]bool
}

func (e *Engine) valueRoutineOf(fn *ssa.Function) *valueRoutine {
	vr := &valueRoutine{Fn: fn, Key: e.FnKey(fn), ModKeys: map[string]bool{}, HoldKeys: map[string]bool{}}
	allCalls(fn, func(c ssa.CallInstruction) {
		if ev, ok := bankEventOf(c); ok && ev.Kind != "send" {
			vr.OwnOps++
			vr.ModKeys[ev.Mod] = true
			if ev.Holder != "" {
				vr.HoldKeys[ev.Holder] = true
			}
			if ev.Kind == "mint" || ev.Kind == "out" {
				vr.Release = true
			}
		}
	})
	if vr.OwnOps == 0 {
		return nil
	}
	ncoin := 0
	for _, p := range fn.Params {
		if isCoinType(p.Type()) {
			vr.CoinPar = p.Name()
			ncoin++
		}
	}
	if ncoin != 1 {
		vr.CoinPar = ""
	}
	allCalls(fn, func(c ssa.CallInstruction) {
		if callName(c) == "GetTokenPair" {
			for _, a := range nonCtxArgs(c) {
				if p, ok := stripConv(a).(*ssa.Parameter); ok {
					vr.BasePar = p.Name()
				}
			}
		}
	})
	vr.Paths, vr.HasLoop = successPaths(fn)
	return vr
}

var sameRoleCfgs = []tokenCfg{{"fx", "bridge"}, {"module-owned", "bridge"}, {"external-owned", "bridge"}}

// swapped: F converts class c1 -> c2, G converts c2 -> c1
var swappedCfgs = [][2]string{{"base", "bridge"}, {"bridge", "base"}, {"base", "ibc"}, {"ibc", "base"}}

func pathsUnder(vr *valueRoutine, cfg tokenCfg) []vpath {
	var out []vpath
	for _, p := range vr.Paths {
		ok := true
		for a, v := range p.Atoms {
			if iv, known := interpAtom(a, cfg, vr.CoinPar, vr.BasePar); known && iv != v {
				ok = false
				break
			}
		}
		if ok {
			out = append(out, p)
		}
	}
	return out
}

// inverseOf decides whether G undoes F for every token kind. Returns (compared configurations with operations on both
// sides, first counterexample or "").
func inverseOf(F, G *valueRoutine, swapped bool) (int, string) {
	compared := 0
	check := func(cfgF, cfgG tokenCfg, fOther, gOther string) string {
		pf, pg := pathsUnder(F, cfgF), pathsUnder(G, cfgG)
		for _, p := range pf {
			if len(p.Events) == 0 {
				continue
			}
			for _, q := range pg {
				if len(q.Events) == 0 {
					continue
				}
				ef, why := pathEffects(p, F.CoinPar, cfgF.CoinClass, fOther)
				if why != "" {
					return why
				}
				eg, why := pathEffects(q, G.CoinPar, cfgG.CoinClass, gOther)
				if why != "" {
					return why
				}
				compared++
				cls := map[string]bool{}
				for k := range ef {
					cls[k] = true
				}
				for k := range eg {
					cls[k] = true
				}
				for k := range cls {
					s := effect{ef[k].supply + eg[k].supply, ef[k].holder + eg[k].holder}
					if s.supply != 0 || s.holder != 0 {
						return fmt.Sprintf("token kind %s, %s denom: %s changes supply by %+d and the holder by %+d, %s changes supply by %+d and the holder by %+d — together supply %+d, holder %+d, module escrow %+d",
							cfgF.Kind, k, shortFn(F.Key), ef[k].supply, ef[k].holder, shortFn(G.Key), eg[k].supply, eg[k].holder, s.supply, s.holder, s.supply-s.holder)
					}
				}
			}
		}
		return ""
	}
	if !swapped {
		for _, cfg := range sameRoleCfgs {
			if why := check(cfg, cfg, "other", "other"); why != "" {
				return compared, why
			}
		}
		return compared, ""
	}
	for _, kind := range []string{"fx", "module-owned", "external-owned"} {
		for _, d := range swappedCfgs {
			if why := check(tokenCfg{kind, d[0]}, tokenCfg{kind, d[1]}, d[1], d[0]); why != "" {
				return compared, why
			}
		}
	}
	return compared, ""
}

// freeAtoms: branch atoms of G that the configuration table does not interpret (other than error / found tests)
func freeAtoms(G *valueRoutine) int {
	seen := map[string]bool{}
	for _, p := range G.Paths {
		for a := range p.Atoms {
			if strings.HasPrefix(a, "ok:") || strings.Contains(a, "nil") {
				continue
			}
			if _, known := interpAtom(a, tokenCfg{"fx", "bridge"}, G.CoinPar, G.BasePar); !known {
				seen[a] = true
			}
		}
	}
	return len(seen)
}

func shortFn(k string) string {
	if i := strings.LastIndex(k, "."); i >= 0 {
		return k[i+1:]
	}
	return k
}

// ---------------------------------------------------------------------------------------------------------------------

func runC04(e *Engine, r *Report, tier string) {
	r.Explanation = "C04, structural necessary conditions of bridge solvency, decided on the success paths of the routines that move bridged value (x/crosschain/keeper). " +
		"R1 path ledger: on every success path of a routine that calls the bank keeper with a module account, each coin that is minted is paid out and each coin that is burned was collected on that path (module escrow unchanged when supply changes), all operations use one module account and one holder, and every amount is the amount of the routine's coin parameter; a success path without any operation is accepted only when the coin is FX, is not the representation the routine converts, or the test is on the coin's own amount. " +
		"R2/R3 inverse agreement: every routine that releases value from a module account (mint or module->account) has, in the same package, a routine that undoes it for every token kind (FX, module-owned pair, externally-owned pair) and conversion direction: branch conditions are interpreted over that finite configuration space and the supply and holder effects of each pair of paths must cancel; a releasing routine with no inverse is a second, unproved implementation of deposit/refund. " +
		"R4 holder agreement: coins credited to an account by a crediting routine are later debited only from that account (or after an explicit transfer to the debited account). " +
		"R5 escrowed amount = recorded in-flight amount at creation of pool entries and outgoing bridge calls. R6 imports the obligations decided under C05 on refund amount, fee-increase amount and token, and on which batch a cancel returns to the pool (never the executed one). R7 composite conversions (functions chaining two value routines): per success path the holder effects of the chained routines — taken from their verified signatures — cancel on every intermediate representation and leave exactly the consumed or the returned coin, for one holder. R9 imports the apply-once obligations of C01 (the handler dispatch is reached only once per event nonce; a parked claim is deleted before any handler effect, so it cannot be executed twice, not even re-entrantly through the executeClaim precompile). R8 the error of every call to a value-moving routine is propagated — the failing branch ends in an error return or panic — unless the call ran on a cached context. " +
		"Not decided: balances and supply at run time over histories, loops (routines with loops are only subject to R3), the bank and erc20 keepers' own behaviour, the migration of escrow held by earlier versions."
	r.Rule("R1", "per success path: mint => paid out, burn => collected; one module account, one holder, one amount", 6, "routines with own bank-module operations")
	r.Rule("R2", "releasing routine has an inverse routine for every token kind and direction", 4, "routines with own mint / module->account")
	r.Rule("R3", "no releasing routine outside the inverse-agreement proof", 1, "same set as R2")
	r.Rule("R4", "credited account == debited account for one flow of coins", 5, "functions that credit and then debit the same coins")
	r.Rule("R5", "escrowed amount == recorded in-flight amount", 2, "creation of 0x18 / 0x48 records")
	r.Rule("R7", "composite conversions: intermediate representations cancel; net effect is the consumed / returned coin; one holder", 2, "functions chaining two value routines")
	r.Rule("R8", "the error of every value-moving call is propagated (or the call runs on a cached context)", 10, "calls to routines with a debit/credit summary")
	r.Rule("R6", "refund amount, fee-increase amount and token, cancel target, no timeout refund of a call whose result is parked (C05.R2/R3/R5/R8)", 6, "C05 obligations")
	r.Rule("R9", "an observed event's effects (mint / release) are applied once: apply-once dispatch and parked claims executed once (C01.R2/R5)", 4, "C01 obligations")
	r.Rule("R10", "results of immutable Int/Dec/Coin arithmetic are used (an amount that is added or subtracted with the result dropped is lost from the books)", 1, "")
	r.Rule("R11", "no update is written into a struct copy that nobody reads (a range variable over a slice of struct values): an amount merged into it is lost", 1, "")
	r.Assume("A1: the token pair stored for a base denom has owner MODULE or EXTERNAL (x/erc20 RegisterNativeCoin / RegisterNativeERC20 are the only writers)")
	r.Assume("A2: FX has no alias denominations: the bridge denom of FX is FX (types/metadata.go GetFXMetaData carries no aliases; ManyToOne returns FX for FX)")

	e.ruleDiscardedArithmetic(r, "R10", "/x/crosschain", "/x/erc20", "/x/ibc", "/x/evm")
	e.ruleLostStructWrites(r, "R11", "/x/crosschain", "/x/erc20", "/x/ibc", "/x/evm")

	// ---------- collect value routines ----------
	var routines []*valueRoutine
	for _, fn := range e.Funcs {
		if fn.Parent() != nil || isAuxPkg(fnPkgPath(fn)) {
			continue
		}
		if !strings.HasSuffix(fnPkgPath(fn), "x/crosschain/keeper") {
			continue
		}
		if vr := e.valueRoutineOf(fn); vr != nil {
			routines = append(routines, vr)
		}
	}
	sort.Slice(routines, func(i, j int) bool { return routines[i].Key < routines[j].Key })
	if len(routines) == 0 {
		r.Fail("R1", "value-routines", "", "UNRESOLVED-ANCHOR: no routine in x/crosschain/keeper calls the bank keeper with a module account")
	}

	// ---------- R1 ----------
	for _, vr := range routines {
		k := vr.Key
		pos := e.Pos(vr.Fn.Pos())
		if vr.HasLoop {
			r.Note("R1: %s has a loop; its paths are not enumerated (covered by R3 only)", k)
			continue
		}
		if len(vr.Paths) == 0 {
			r.Undecided("R1", k+" ledger", pos, "no success path enumerated")
			continue
		}
		bad := ""
		nops := 0
		for _, p := range vr.Paths {
			type led struct{ supply, holder int }
			l := map[string]*led{}
			mods, holds := map[string]bool{}, map[string]bool{}
			for _, ev := range p.Events {
				if ev.Kind == "send" {
					continue
				}
				nops++
				mods[ev.Mod] = true
				if ev.Holder != "" {
					holds[ev.Holder] = true
				}
				for _, t := range ev.Coins {
					x := l[t.String()]
					if x == nil {
						x = &led{}
						l[t.String()] = x
					}
					switch ev.Kind {
					case "in":
						x.holder--
					case "out":
						x.holder++
					case "mint":
						x.supply++
					case "burn":
						x.supply--
					}
				}
				if vr.CoinPar != "" {
					for _, t := range ev.Coins {
						if t.Amt != "P:"+vr.CoinPar+".Amount" {
							bad = fmt.Sprintf("%s at %s moves %s: not the amount of the routine's coin %q", callName(ev.Call), e.InstrPos(ev.Call), t, vr.CoinPar)
						}
					}
				}
			}
			for t, x := range l {
				if x.supply != 0 && x.supply-x.holder != 0 {
					if x.supply > 0 {
						bad = fmt.Sprintf("a success path mints %s without paying it out (module escrow %+d)", t, x.supply-x.holder)
					} else {
						bad = fmt.Sprintf("a success path burns %s without having collected it (module escrow %+d)", t, x.supply-x.holder)
					}
				}
				if x.supply > 1 || x.supply < -1 || x.holder > 1 || x.holder < -1 {
					bad = fmt.Sprintf("a success path moves %s more than once (supply %+d, holder %+d)", t, x.supply, x.holder)
				}
			}
			if len(mods) > 1 {
				bad = "a success path operates on more than one module account: " + strings.Join(keysOf(mods), ", ")
			}
			if len(holds) > 1 {
				bad = "a success path collects from / pays to more than one account: " + strings.Join(keysOf(holds), ", ")
			}
		}
		// a success path that performs no operation at all is only acceptable where the routine has nothing to do:
		// the coin is FX, is not the representation the routine converts, or the test is on the coin's own amount
		if bad == "" && vr.CoinPar != "" {
			for _, p := range vr.Paths {
				if len(p.Events) > 0 {
					continue
				}
				okNoop := false
				for a, v := range p.Atoms {
					if iv, known := interpAtom(a, tokenCfg{"fx", "base"}, vr.CoinPar, vr.BasePar); known && strings.Contains(a, `"FX"`) && v == iv && v {
						okNoop = true // coin is FX
					}
					if strings.HasPrefix(a, "call:HasPrefix(P:"+vr.CoinPar+".Denom,") {
						okNoop = true // representation test on the coin's own denom
					}
					if strings.Contains(a, "P:"+vr.CoinPar+".Amount") || strings.HasPrefix(a, "call:IsZero(P:"+vr.CoinPar) || strings.HasPrefix(a, "call:IsPositive(P:"+vr.CoinPar) {
						okNoop = true // nothing to move
					}
				}
				if !okNoop {
					var as []string
					for a, v := range p.Atoms {
						if !strings.HasPrefix(a, "ok:") && !strings.Contains(a, "nil") {
							as = append(as, fmt.Sprintf("%s=%v", a, v))
						}
					}
					sort.Strings(as)
					bad = "a success path performs no value operation although the coin is neither FX nor of a representation the routine skips (conditions: " + strings.Join(as, "; ") + "): callers treat the conversion as done"
				}
			}
		}
		if bad != "" {
			r.Fail("R1", k+" ledger", pos, bad)
		} else {
			r.Ok("R1", k+" ledger", pos, fmt.Sprintf("%d success paths, %d operations: minted coins are paid out, burned coins were collected, one module account, one holder, one amount", len(vr.Paths), nops))
		}
	}

	// ---------- R2 / R3 ----------
	nrel := 0
	for _, F := range routines {
		if !F.Release {
			continue
		}
		nrel++
		pos := e.Pos(F.Fn.Pos())
		if F.HasLoop || F.CoinPar == "" {
			why := "it has no single coin parameter"
			if F.HasLoop {
				why = "it loops over several tokens"
			}
			r.Fail("R3", e.CanonFnKey(F.Fn)+" release", pos, "releases value from a module account (mint / module->account) but "+why+" and no routine is proved to be its inverse: a second implementation of deposit/refund beside the many-to-one primitives")
			continue
		}
		best, bestN := "", -1<<30
		covered := ""
		for _, G := range routines {
			if G.HasLoop || G.CoinPar == "" {
				continue
			}
			for _, sw := range []bool{false, true} {
				if !sw && G == F {
					continue
				}
				n, why := inverseOf(F, G, sw)
				if why == "" && n > 0 {
					covered = fmt.Sprintf("%s (%s roles, %d path pairs over token kinds fx / module-owned / external-owned cancel)", shortFn(G.Key), map[bool]string{false: "same", true: "swapped"}[sw], n)
				} else if why != "" && n*100-freeAtoms(G) > bestN {
					best, bestN = why, n*100-freeAtoms(G)
				}
			}
			if covered != "" {
				break
			}
		}
		if covered != "" {
			r.Ok("R2", F.Key+" inverse", pos, "undone by "+covered)
			r.Ok("R3", F.Key+" release", pos, "covered by the inverse-agreement proof")
		} else {
			if best == "" {
				best = "no candidate routine with operations on the same configurations"
			}
			r.Fail("R2", F.Key+" inverse", pos, "no routine in the package undoes it for every token kind; closest candidate: "+best)
		}
	}
	if nrel == 0 {
		r.Fail("R2", "releasing-routines", "", "UNRESOLVED-ANCHOR: no routine releases value from a module account")
	}

	e.c04Composite(r, routines)
	e.c04Holder(r)
	e.c04Recorded(r)

	// ---------- R6: C05 obligations on amounts ----------
	sub := NewReport("C05", "other")
	runC05(e, sub, tier)
	for _, o := range sub.Obls {
		// a transfer deleted from the pool without entering the batch is value taken from its sender that is neither queued
		// nor refundable (round-8 seed C04 = the edit of C05-3): the pick obligations of C05.R2 are C04's as well
		if o.Rule == "R8" || (o.Rule == "R2" && (strings.HasSuffix(o.Construct, " target") || strings.HasSuffix(o.Construct, " pick"))) || (o.Rule == "R3" && strings.HasSuffix(o.Construct, "refund-amount")) || (o.Rule == "R5" && (strings.HasSuffix(o.Construct, " amount") || strings.HasSuffix(o.Construct, " same-token"))) {
			r.add("R6", "C05."+o.Rule+" "+o.Construct, o.Status, o.Pos, o.Detail)
		}
	}

	// ---------- R8 (erc20 side): the bridge's conversions into and out of ERC-20 run through x/erc20's conversion routines;
	// a leg of those that fails without failing the conversion moves value on one side of the books only (C08.R7)
	sub08 := NewReport("C08", "other")
	runC08(e, sub08, tier)
	for _, o := range sub08.Obls {
		if o.Rule == "R7" {
			r.add("R8", "C08.R7 "+o.Construct, o.Status, o.Pos, o.Detail)
		}
	}

	// ---------- R9: an observed deposit is credited once (C01.R2 apply-once dispatch, C01.R5 parked claim executed once) ----------
	sub01 := NewReport("C01", "other")
	runC01(e, sub01, tier)
	for _, o := range sub01.Obls {
		if o.Rule == "R2" || o.Rule == "R5" {
			r.add("R9", "C01."+o.Rule+" "+o.Construct, o.Status, o.Pos, o.Detail)
		}
	}
}

// ---------------------------------------------------------------------------------------------------------------------
// R4: holder agreement
// ---------------------------------------------------------------------------------------------------------------------

type debitFact struct{ coin, holder int } // parameter indexes

func isAddrType(t types.Type) bool {
	s := t.String()
	return strings.HasSuffix(s, "types.AccAddress") || strings.HasSuffix(s, "common.Address") || s == "[]byte"
}

// rootsParam: does v derive from parameter p (through calls, fields, phis, range elements)?
func (e *Engine) rootsParam(v ssa.Value, p *ssa.Parameter) bool {
	hit := false
	e.Slice(v, SliceOpts{MaxDepth: 10, ThroughCalls: true, ThroughBinOps: true, ConstLeafOK: true}, func(x ssa.Value) Verdict {
		if x == ssa.Value(p) {
			hit = true
			return Accept
		}
		return Continue
	})
	return hit
}

func (e *Engine) rootsValue(v ssa.Value, target ssa.Value) bool {
	hit := false
	e.Slice(v, SliceOpts{MaxDepth: 10, ThroughCalls: true, ThroughBinOps: true, ConstLeafOK: true}, func(x ssa.Value) Verdict {
		if x == target {
			hit = true
			return Accept
		}
		if ex, ok := x.(*ssa.Extract); ok && ssa.Value(ex.Tuple) == target {
			hit = true
			return Accept
		}
		return Continue
	})
	return hit
}

// externalDebit: (coin value, holder value) of a call that takes coins out of an account, by the dependency API used.
func (e *Engine) externalDebit(c ssa.CallInstruction) (coin, holder ssa.Value, ok bool) {
	a := nonCtxArgs(c)
	switch callName(c) {
	case "SendCoinsFromAccountToModule":
		if isBankKeeperCall(c) && len(a) == 3 {
			return a[2], a[0], true
		}
	case "ConvertCoin":
		// (ctx, *MsgConvertCoin{Coin, Receiver, Sender})
		if len(a) == 1 {
			var cv, sv ssa.Value
			if al, ok := stripConv(a[0]).(*ssa.Alloc); ok {
				for _, r := range *al.Referrers() {
					if fa, ok := r.(*ssa.FieldAddr); ok {
						n, _, _ := fieldName(fa)
						for _, rr := range *fa.Referrers() {
							if st, ok := rr.(*ssa.Store); ok && st.Addr == ssa.Value(fa) {
								if n == "Coin" {
									cv = st.Val
								}
								if n == "Sender" {
									sv = st.Val
								}
							}
						}
					}
				}
			}
			if cv != nil && sv != nil {
				return cv, sv, true
			}
		}
	case "Transfer":
		// ibcTransferKeeper.Transfer(ctx, NewMsgTransfer(port, channel, coin, sender, receiver, ...))
		if len(a) == 1 {
			if mc, ok := stripConv(a[0]).(*ssa.Call); ok && callName(mc) == "NewMsgTransfer" && len(mc.Call.Args) >= 4 {
				return mc.Call.Args[2], mc.Call.Args[3], true
			}
		}
	}
	return nil, nil, false
}

// skippedOnlyWhenMoot: transfer T precedes D and every condition under which T is skipped (and D still runs) is
// "the two accounts are the same" or a predicate over the transferred coins themselves (nothing to move).
func (e *Engine) skippedOnlyWhenMoot(C, T, D ssa.CallInstruction, h1, h2 string, coins ssa.Value) bool {
	// edges on which T is skipped for a moot reason
	type edge struct{ from, to *ssa.BasicBlock }
	moot := map[edge]bool{}
	for _, g := range GuardsOf(T) {
		cond := g.Cond
		for {
			if u, isNot := cond.(*ssa.UnOp); isNot && u.Op == token.NOT {
				cond = u.X
				continue
			}
			break
		}
		ok := false
		switch x := cond.(type) {
		case *ssa.BinOp:
			if x.Op == token.NEQ || x.Op == token.EQL {
				a, b := addrKey(x.X), addrKey(x.Y)
				if (a == h1 && b == h2) || (a == h2 && b == h1) {
					ok = true
				}
			}
		case *ssa.Call:
			for _, a := range callArgs(x) {
				if e.rootsValue(a, coins) {
					ok = true
				}
			}
		}
		if !ok {
			continue
		}
		blk := g.If.Block()
		// g.Pol: the polarity of Cond under which T runs; the other successor is the skip edge
		skip := blk.Succs[0]
		if g.Pol {
			skip = blk.Succs[1]
		}
		moot[edge{blk, skip}] = true
	}
	if len(moot) == 0 {
		return false
	}
	// can D be reached from C without executing T and without taking a moot skip edge?
	if C.Block() == D.Block() && instrIndex(C) < instrIndex(D) {
		return false
	}
	seen := map[*ssa.BasicBlock]bool{}
	var dfs func(b *ssa.BasicBlock) bool
	dfs = func(b *ssa.BasicBlock) bool {
		if b == T.Block() {
			return false
		}
		if b == D.Block() {
			return true
		}
		if seen[b] {
			return false
		}
		seen[b] = true
		for _, s := range b.Succs {
			if moot[edge{b, s}] {
				continue
			}
			if dfs(s) {
				return true
			}
		}
		return false
	}
	for _, s := range C.Block().Succs {
		if moot[edge{C.Block(), s}] {
			continue
		}
		if dfs(s) {
			return false
		}
	}
	return canReachInstr(T, D)
}

func canReachInstr(a, b ssa.Instruction) bool {
	if a.Block() == b.Block() {
		return instrIndex(a) < instrIndex(b)
	}
	seen := map[*ssa.BasicBlock]bool{}
	var dfs func(x *ssa.BasicBlock) bool
	dfs = func(x *ssa.BasicBlock) bool {
		if x == b.Block() {
			return true
		}
		if seen[x] {
			return false
		}
		seen[x] = true
		for _, s := range x.Succs {
			if dfs(s) {
				return true
			}
		}
		return false
	}
	for _, s := range a.Block().Succs {
		if dfs(s) {
			return true
		}
	}
	return false
}

func (e *Engine) c04Holder(r *Report) {
	inScope := func(fn *ssa.Function) bool {
		p := fnPkgPath(fn)
		return !isAuxPkg(p) && (strings.Contains(p, "x/crosschain/") || strings.Contains(p, "x/erc20/keeper") || strings.Contains(p, "x/ibc/middleware"))
	}
	// ---- summaries by fixpoint ----
	debit := map[*ssa.Function]map[debitFact]bool{}
	credit := map[*ssa.Function]map[int]bool{} // holder parameter indexes; function returns Coin/Coins
	returnsCoins := func(fn *ssa.Function) bool {
		res := fn.Signature.Results()
		for i := 0; i < res.Len(); i++ {
			if isCoinType(res.At(i).Type()) || isCoinsType(res.At(i).Type()) {
				return true
			}
		}
		return false
	}
	var scope []*ssa.Function
	for _, fn := range e.Funcs {
		if inScope(fn) && fn.Parent() == nil {
			scope = append(scope, fn)
		}
	}
	paramIdxRooted := func(fn *ssa.Function, v ssa.Value, pred func(types.Type) bool) []int {
		var out []int
		for i, p := range fn.Params {
			if pred(p.Type()) && e.rootsParam(v, p) {
				out = append(out, i)
			}
		}
		return out
	}
	coinish := func(t types.Type) bool {
		return isCoinType(t) || isCoinsType(t) || strings.HasSuffix(namedTypeName(t), "math.Int") || strings.HasSuffix(t.String(), "big.Int")
	}
	for changed, iter := true, 0; changed && iter < 8; iter++ {
		changed = false
		for _, fn := range scope {
			addDebit := func(cv, hv ssa.Value) {
				for _, ci := range paramIdxRooted(fn, cv, coinish) {
					for _, hi := range paramIdxRooted(fn, hv, isAddrType) {
						if debit[fn] == nil {
							debit[fn] = map[debitFact]bool{}
						}
						f := debitFact{ci, hi}
						if !debit[fn][f] {
							debit[fn][f] = true
							changed = true
						}
					}
				}
			}
			allCalls(fn, func(c ssa.CallInstruction) {
				if cv, hv, ok := e.externalDebit(c); ok {
					addDebit(cv, hv)
				}
				if ev, ok := bankEventOf(c); ok && ev.Kind == "out" {
					a := nonCtxArgs(c)
					for _, hi := range paramIdxRooted(fn, a[1], isAddrType) {
						if credit[fn] == nil {
							credit[fn] = map[int]bool{}
						}
						if !credit[fn][hi] {
							credit[fn][hi] = true
							changed = true
						}
					}
				}
				for _, cal := range e.calleesOf(c) {
					args := c.Common().Args
					if c.Common().IsInvoke() {
						args = append([]ssa.Value{c.Common().Value}, args...)
					}
					for f := range debit[cal] {
						if f.coin < len(args) && f.holder < len(args) {
							addDebit(args[f.coin], args[f.holder])
						}
					}
					{
						for hi := range credit[cal] {
							if hi < len(args) {
								for _, pi := range paramIdxRooted(fn, args[hi], isAddrType) {
									if credit[fn] == nil {
										credit[fn] = map[int]bool{}
									}
									if !credit[fn][pi] {
										credit[fn][pi] = true
										changed = true
									}
								}
							}
						}
					}
				}
			})
		}
	}
	r.Note("R4: %d functions debit a (coin, account) parameter pair, %d functions credit an account parameter and return the coins", len(debit), len(credit))

	// ---- sites ----
	n := 0
	for _, fn := range scope {
		type cr struct {
			call   ssa.CallInstruction
			holder ssa.Value
		}
		var credits []cr
		allCalls(fn, func(c ssa.CallInstruction) {
			for _, cal := range e.calleesOf(c) {
				args := c.Common().Args
				if c.Common().IsInvoke() {
					args = append([]ssa.Value{c.Common().Value}, args...)
				}
				for hi := range credit[cal] {
					if hi < len(args) && returnsCoins(cal) {
						credits = append(credits, cr{c, args[hi]})
					}
				}
			}
		})
		if len(credits) == 0 {
			continue
		}
		// transfers
		type tr struct {
			call     ssa.CallInstruction
			from, to string
			coins    ssa.Value
		}
		var transfers []tr
		allCalls(fn, func(c ssa.CallInstruction) {
			if ev, ok := bankEventOf(c); ok && ev.Kind == "send" {
				transfers = append(transfers, tr{c, ev.Holder, ev.To, nonCtxArgs(c)[2]})
			}
		})
		seenC := map[string]bool{}
		for _, C := range credits {
			cv, ok := C.call.(ssa.Value)
			if !ok {
				continue
			}
			h1 := addrKey(C.holder)
			check := func(D ssa.CallInstruction, coinArg, holdArg ssa.Value) {
				if D == C.call || !e.rootsValue(coinArg, cv) {
					return
				}
				h2 := addrKey(holdArg)
				ck := fmt.Sprintf("%s: %s -> %s", e.FnKey(fn), callName(C.call), callName(D))
				if seenC[ck+h2] {
					return
				}
				seenC[ck+h2] = true
				n++
				if h1 == h2 {
					r.Ok("R4", ck, e.InstrPos(D), "coins credited to "+h1+" are debited from the same account")
					return
				}
				for _, t := range transfers {
					if t.from == h1 && t.to == h2 && e.rootsValue(t.coins, cv) && (Dominates(t.call, D) || e.skippedOnlyWhenMoot(C.call, t.call, D, h1, h2, cv)) {
						r.Ok("R4", ck, e.InstrPos(D), "coins credited to "+h1+" are transferred to "+h2+" before being debited from it (the transfer is skipped only when both are the same account or there are no coins)")
						return
					}
				}
				r.Fail("R4", ck, e.InstrPos(D), fmt.Sprintf("coins credited to %s (%s) are debited from %s: the credited account keeps them and another account pays", h1, e.InstrPos(C.call), h2))
			}
			allCalls(fn, func(D ssa.CallInstruction) {
				if coin, hold, ok := e.externalDebit(D); ok {
					check(D, coin, hold)
				}
				for _, cal := range e.calleesOf(D) {
					args := D.Common().Args
					if D.Common().IsInvoke() {
						args = append([]ssa.Value{D.Common().Value}, args...)
					}
					for f := range debit[cal] {
						if f.coin < len(args) && f.holder < len(args) {
							check(D, args[f.coin], args[f.holder])
						}
					}
				}
			})
		}
	}
	if n == 0 {
		r.Fail("R4", "credit-debit-sites", "", "UNRESOLVED-ANCHOR: no function debits coins that it had credited")
	}

	// ---- R8: a failed value movement fails the operation ----
	// every call to a routine that debits or credits an account (summaries above) has its error propagated: the
	// `err != nil` branch ends in an error return (or panic) without further effects. A tolerated failure is accepted only
	// when the call ran on a cached context (its partial writes are dropped; C18 decides the write-back).
	n8 := 0
	for _, fn := range scope {
		if !strings.Contains(fnPkgPath(fn), "x/crosschain/") && !strings.Contains(fnPkgPath(fn), "x/ibc/middleware") {
			continue
		}
		var fns []*ssa.Function
		fns = append(fns, fn)
		fns = append(fns, fn.AnonFuncs...)
		for _, f := range fns {
			allCalls(f, func(c ssa.CallInstruction) {
				moving := false
				for _, cal := range e.calleesOf(c) {
					if len(debit[cal]) > 0 || len(credit[cal]) > 0 {
						moving = true
					}
				}
				if _, _, ok := e.externalDebit(c); ok {
					moving = true
				}
				if ev, ok := bankEventOf(c); ok && ev.Kind != "" {
					moving = true
				}
				if !moving {
					return
				}
				n8++
				ck := e.FnKey(f) + " -> " + callName(c) + " error"
				if ok, _ := errorHandled(c); ok {
					r.Ok("R8", ck, e.InstrPos(c), "error propagated")
					return
				}
				// cached context?
				for _, a := range c.Common().Args {
					if isCtxType(a.Type()) {
						cached := false
						e.Slice(a, SliceOpts{MaxDepth: 6}, func(x ssa.Value) Verdict {
							if cc0, ok := x.(*ssa.Call); ok && callName(cc0) == "CacheContext" {
								cached = true
								return Accept
							}
							return Continue
						})
						if cached {
							r.Ok("R8", ck, e.InstrPos(c), "runs on a cached context: a tolerated failure leaves no partial movement (write-back decided by C18)")
							return
						}
					}
				}
				r.Fail("R8", ck, e.InstrPos(c), "the error of a call that moves value is not propagated (discarded, or the failing branch continues / returns success) and the call does not run on a cached context: what it moved before failing is kept while the operation counts as done")
			})
		}
	}
	if n8 < 10 {
		r.Fail("R8", "value-moving calls", "", fmt.Sprintf("UNRESOLVED-ANCHOR: only %d calls to value-moving routines found", n8))
	}
}

// ---------------------------------------------------------------------------------------------------------------------
// R5: escrowed amount == recorded amount
// ---------------------------------------------------------------------------------------------------------------------

func (e *Engine) leafSet(v ssa.Value) map[string]bool {
	out := map[string]bool{}
	res := e.Slice(v, SliceOpts{MaxDepth: 10, ThroughCalls: true, ThroughBinOps: true, ConstLeafOK: true}, func(x ssa.Value) Verdict {
		switch x.(type) {
		case *ssa.Parameter:
			if isCoinType(x.Type()) || isCoinsType(x.Type()) {
				out["P:"+x.Name()] = true
				return Accept
			}
		case *ssa.Extract, *ssa.Index, *ssa.Lookup, *ssa.Next:
			if isCoinType(x.Type()) {
				out[x.Name()] = true
				return Accept
			}
		case *ssa.UnOp:
			if isCoinType(x.Type()) {
				if u := x.(*ssa.UnOp); u.Op == token.MUL {
					if _, ok := u.X.(*ssa.IndexAddr); ok {
						out[vkey(u.X.(*ssa.IndexAddr).X, 0)+"[i]"] = true
						return Accept
					}
				}
			}
		}
		return Continue
	})
	_ = res
	return out
}

func (e *Engine) c04Recorded(r *Report) {
	n := 0
	for _, fn := range e.Funcs {
		if fn.Parent() != nil || !strings.HasSuffix(fnPkgPath(fn), "x/crosschain/keeper") {
			continue
		}
		rec := map[string]bool{}
		var recPos ssa.Instruction
		allCalls(fn, func(c ssa.CallInstruction) {
			if callName(c) == "NewERC20Token" && len(c.Common().Args) == 2 {
				for k := range e.leafSet(c.Common().Args[0]) {
					rec[k] = true
				}
				recPos = c
			}
		})
		if len(rec) == 0 {
			continue
		}
		esc := map[string]bool{}
		var escCall ssa.CallInstruction
		allCalls(fn, func(c ssa.CallInstruction) {
			for _, cal := range e.calleesOf(c) {
				if !strings.HasSuffix(fnPkgPath(cal), "x/crosschain/keeper") {
					continue
				}
				// a callee that collects coins: has a Coin parameter and (transitively) an account->module operation
				collects := false
				seen := map[*ssa.Function]bool{}
				var dfs func(f *ssa.Function, d int)
				dfs = func(f *ssa.Function, d int) {
					if seen[f] || d > 4 || collects {
						return
					}
					seen[f] = true
					allCalls(f, func(c2 ssa.CallInstruction) {
						if ev, ok := bankEventOf(c2); ok && ev.Kind == "in" {
							collects = true
						}
						for _, g := range e.calleesOf(c2) {
							if strings.HasSuffix(fnPkgPath(g), "x/crosschain/keeper") {
								dfs(g, d+1)
							}
						}
					})
				}
				dfs(cal, 0)
				if !collects {
					continue
				}
				for _, a := range nonCtxArgs(c) {
					if isCoinType(a.Type()) {
						for k := range e.leafSet(a) {
							esc[k] = true
						}
						escCall = c
					}
				}
			}
		})
		if escCall == nil {
			continue
		}
		n++
		k := e.FnKey(fn)
		rs, es := strings.Join(keysOf(rec), "+"), strings.Join(keysOf(esc), "+")
		r.Check(rs == es, "R5", k+" recorded-amount", e.InstrPos(recPos),
			"the in-flight record's amounts ("+rs+") are the coins collected by "+callName(escCall),
			"the in-flight record carries amounts from {"+rs+"} but "+callName(escCall)+" collects {"+es+"}: value in flight differs from value escrowed")
	}
	if n == 0 {
		r.Fail("R5", "creation-sites", "", "UNRESOLVED-ANCHOR: no function both collects coins and builds an in-flight token record")
	}
}

// ---------------------------------------------------------------------------------------------------------------------
// R7: composite conversions
// ---------------------------------------------------------------------------------------------------------------------

type routineSig struct {
	coinIdx, holderIdx int
	coinDelta          int
	targetDelta        int
	targetDenomIdx     int // parameter index of the target denom, -1 if none / local
}

// sigOf: the uniform holder effect of a value routine over its operating success paths, or ok=false.
func (e *Engine) sigOf(vr *valueRoutine) (routineSig, bool) {
	sig := routineSig{coinIdx: -1, holderIdx: -1, targetDenomIdx: -1}
	if vr.HasLoop || vr.CoinPar == "" || len(vr.HoldKeys) != 1 {
		return sig, false
	}
	var hk string
	for k := range vr.HoldKeys {
		hk = k
	}
	for i, p := range vr.Fn.Params {
		if p.Name() == vr.CoinPar {
			sig.coinIdx = i
		}
		if "P:"+p.Name() == hk {
			sig.holderIdx = i
		}
	}
	if sig.coinIdx < 0 || sig.holderIdx < 0 {
		return sig, false
	}
	first := true
	cd, ca := "P:"+vr.CoinPar+".Denom", "P:"+vr.CoinPar+".Amount"
	for _, p := range vr.Paths {
		if len(p.Events) == 0 {
			continue
		}
		c, t, td := 0, 0, ""
		for _, ev := range p.Events {
			d := 0
			switch ev.Kind {
			case "in":
				d = -1
			case "out":
				d = 1
			default:
				continue
			}
			for _, x := range ev.Coins {
				switch {
				case x.Denom == cd && x.Amt == ca:
					c += d
				case x.Amt == ca:
					t += d
					td = x.Denom
				default:
					return sig, false
				}
			}
		}
		tdi := -1
		for i, q := range vr.Fn.Params {
			if td == "P:"+q.Name() {
				tdi = i
			}
		}
		if first {
			sig.coinDelta, sig.targetDelta, sig.targetDenomIdx = c, t, tdi
			first = false
		} else if sig.coinDelta != c || sig.targetDelta != t || sig.targetDenomIdx != tdi {
			return sig, false
		}
	}
	return sig, !first
}

func (e *Engine) c04Composite(r *Report, routines []*valueRoutine) {
	sigs := map[*ssa.Function]routineSig{}
	for _, vr := range routines {
		if sg, ok := e.sigOf(vr); ok {
			sigs[vr.Fn] = sg
		}
	}
	n := 0
	for _, fn := range e.Funcs {
		if fn.Parent() != nil || !strings.HasSuffix(fnPkgPath(fn), "x/crosschain/keeper") {
			continue
		}
		if _, isRoutine := sigs[fn]; isRoutine {
			continue
		}
		cnt := 0
		allCalls(fn, func(c ssa.CallInstruction) {
			if f := calleeOf(c); f != nil {
				if _, ok := sigs[f]; ok {
					cnt++
				}
			}
		})
		if cnt < 2 {
			continue
		}
		paths, loop := successPaths(fn)
		k := e.FnKey(fn) + " composite"
		pos := e.Pos(fn.Pos())
		if loop || len(paths) == 0 {
			r.Note("R7: %s chains value routines inside a loop; not decided", e.FnKey(fn))
			continue
		}
		n++
		var ownCoin *coinTerm
		for _, p := range fn.Params {
			if isCoinType(p.Type()) {
				t := coinTerm{"P:" + p.Name() + ".Denom", "P:" + p.Name() + ".Amount"}
				ownCoin = &t
			}
		}
		bad := ""
		for _, p := range paths {
			net := map[coinTerm]int{}
			holders := map[string]bool{}
			used := 0
			for _, c := range p.Calls {
				f := calleeOf(c)
				if f == nil {
					continue
				}
				sg, ok := sigs[f]
				if !ok {
					continue
				}
				used++
				args := c.Common().Args
				ct := coinTermOf(args[sg.coinIdx])
				holders[addrKey(args[sg.holderIdx])] = true
				net[ct] += sg.coinDelta
				if sg.targetDelta != 0 {
					tt := coinTerm{"ret:" + vkey(c.(ssa.Value), 0), ct.Amt}
					if sg.targetDenomIdx >= 0 {
						tt.Denom = vkey(args[sg.targetDenomIdx], 0)
					}
					net[tt] += sg.targetDelta
				}
			}
			if used == 0 {
				continue
			}
			if len(holders) > 1 {
				bad = "the chained routines act on different accounts: " + strings.Join(keysOf(holders), ", ")
			}
			var left []string
			okNet := false
			nz := 0
			for t, d := range net {
				if d == 0 {
					continue
				}
				nz++
				left = append(left, fmt.Sprintf("%+d %s", d, t))
				if d == -1 && ownCoin != nil && t == *ownCoin {
					okNet = true
				}
				if d == 1 && p.Ret != nil && len(p.Ret.Results) > 0 && isCoinType(p.Ret.Results[0].Type()) {
					rt := coinTermOf(p.Ret.Results[0])
					if rt == t || strings.HasPrefix(t.Denom, "ret:") {
						okNet = true
					}
				}
			}
			sort.Strings(left)
			if nz != 1 || !okNet {
				bad = "net effect on the holder over a success path is {" + strings.Join(left, ", ") + "}: it should be exactly the coin consumed or the coin returned, with every intermediate representation cancelling"
			}
		}
		if bad != "" {
			r.Fail("R7", k, pos, bad)
		} else {
			r.Ok("R7", k, pos, fmt.Sprintf("%d success paths: intermediate representations cancel, one holder", len(paths)))
		}
	}
	if n == 0 {
		r.Fail("R7", "composites", "", "UNRESOLVED-ANCHOR: no function chains two value routines")
	}
}

// inlineWrapperKey: a call to a one-block fx-core function without effects that only returns an expression over its
// parameters (`func isIBCDenom(d string) bool { return strings.HasPrefix(d, "ibc/") }`) is keyed as that expression with the
// arguments substituted, so that extracting a test into a helper does not change what the test is known to mean.
func inlineWrapperKey(x *ssa.Call, depth int) (string, bool) {
	f := x.Call.StaticCallee()
	if f == nil || len(f.Blocks) != 1 || x.Call.IsInvoke() || len(f.Params) != len(x.Call.Args) || len(f.FreeVars) > 0 || f.Signature.Recv() != nil {
		return "", false
	}
	if !strings.HasPrefix(fnPkgPath(f), ModPath) {
		return "", false
	}
	var ret *ssa.Return
	for _, in := range f.Blocks[0].Instrs {
		switch t := in.(type) {
		case *ssa.Return:
			ret = t
		case *ssa.Call:
			if c := t.Call.StaticCallee(); t.Call.IsInvoke() || c == nil || c.Blocks != nil {
				return "", false // only calls into dependencies without bodies (strings.HasPrefix, …)
			}
		case *ssa.BinOp, *ssa.UnOp, *ssa.FieldAddr, *ssa.Field, *ssa.Convert, *ssa.ChangeType, *ssa.Slice, *ssa.IndexAddr, *ssa.Index, *ssa.DebugRef:
		default:
			return "", false
		}
	}
	if ret == nil || len(ret.Results) != 1 {
		return "", false
	}
	k := vkey(ret.Results[0], depth+1)
	for i, p := range f.Params {
		re := regexp.MustCompile(`P:` + regexp.QuoteMeta(p.Name()) + `\b`)
		ak := vkey(x.Call.Args[i], depth+1)
		k = re.ReplaceAllLiteralString(k, "\x00"+ak)
	}
	return strings.ReplaceAll(k, "\x00", ""), true
}
