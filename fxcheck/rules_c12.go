package main

import (
	"go/types"
	"encoding/hex"
	"encoding/json"
	"fmt"
	"go/ast"
	"go/token"
	"os"
	"path/filepath"
	"regexp"
	"strconv"
	"strings"

	"golang.org/x/tools/go/ssa"
)

func init() { register("C12", "other", runC12) }

type abiInput struct{ Name, Type string }

// bridgeABIMethods parses the ABI JSON string embedded in contract/IFxBridgeLogic.go.
func (e *Engine) bridgeABIMethods() map[string][]abiInput {
	out := map[string][]abiInput{}
	p := e.ByPath[ModPath+"/contract"]
	if p == nil {
		return out
	}
	for _, f := range p.Syntax {
		ast.Inspect(f, func(n ast.Node) bool {
			bl, ok := n.(*ast.BasicLit)
			if !ok || bl.Kind != token.STRING || !strings.Contains(bl.Value, "oracleSetCheckpoint") {
				return true
			}
			s, err := strconv.Unquote(bl.Value)
			if err != nil {
				return true
			}
			var items []struct {
				Type   string `json:"type"`
				Name   string `json:"name"`
				Inputs []struct {
					Name string `json:"name"`
					Type string `json:"type"`
				} `json:"inputs"`
			}
			if json.Unmarshal([]byte(s), &items) != nil {
				return true
			}
			for _, it := range items {
				if it.Type != "function" {
					continue
				}
				var ins []abiInput
				for _, in := range it.Inputs {
					ins = append(ins, abiInput{in.Name, in.Type})
				}
				out[it.Name] = ins
			}
			return true
		})
	}
	return out
}

// solidityEncodeSites: for every FxBridgeLogic*.sol file, the argument lists of abi.encode( ... ) keyed by enclosing function.
type solEncode struct {
	File, Func string
	Args       []string
}

var reSolFunc = regexp.MustCompile(`function\s+(\w+)\s*\(`)

func (e *Engine) solidityEncodeSites() []solEncode {
	var out []solEncode
	files, _ := filepath.Glob(filepath.Join(e.Repo, "solidity/contracts/bridge/FxBridgeLogic*.sol"))
	for _, f := range files {
		b, err := os.ReadFile(f)
		if err != nil {
			continue
		}
		src := regexp.MustCompile(`(?m)//.*$`).ReplaceAllString(string(b), "")
		// function positions
		type fpos struct {
			pos  int
			name string
		}
		var fps []fpos
		for _, m := range reSolFunc.FindAllStringSubmatchIndex(src, -1) {
			fps = append(fps, fpos{m[0], src[m[2]:m[3]]})
		}
		idx := 0
		for {
			i := strings.Index(src[idx:], "abi.encode(")
			if i < 0 {
				break
			}
			start := idx + i + len("abi.encode(")
			depth, j := 1, start
			for j < len(src) && depth > 0 {
				switch src[j] {
				case '(':
					depth++
				case ')':
					depth--
				}
				j++
			}
			body := src[start : j-1]
			idx = j
			var args []string
			cur, d := "", 0
			for _, ch := range body {
				switch ch {
				case '(', '[':
					d++
				case ')', ']':
					d--
				}
				if ch == ',' && d == 0 {
					args = append(args, strings.TrimSpace(cur))
					cur = ""
					continue
				}
				cur += string(ch)
			}
			if strings.TrimSpace(cur) != "" {
				args = append(args, strings.TrimSpace(cur))
			}
			fn := ""
			for _, fp := range fps {
				if fp.pos < start {
					fn = fp.name
				}
			}
			out = append(out, solEncode{filepath.Base(f), fn, args})
		}
	}
	return out
}

func normName(s string) string {
	s = strings.ToLower(s)
	for _, p := range []string{"input.", "state_", "_"} {
		s = strings.TrimPrefix(s, p)
	}
	s = strings.TrimPrefix(s, "_")
	return strings.ReplaceAll(s, "_", "")
}

// which record field each checkpoint argument must come from, keyed by ABI pseudo-method and normalised input name
var checkpointFieldMap = map[string]map[string]string{
	"oracleSetCheckpoint":   {"oraclesetnonce": "Nonce", "oracles": "ExternalAddress", "powers": "Power"},
	"submitBatchCheckpoint": {"amounts": "Token", "destinations": "DestAddress", "fees": "Fee", "batchnonce": "BatchNonce", "tokencontract": "TokenContract", "batchtimeout": "BatchTimeout", "feereceive": "FeeReceive"},
	"bridgeCallCheckpoint":  {"sender": "Sender", "refund": "Refund", "tokens": "Contract", "amounts": "Amount", "to": "To", "data": "Data", "memo": "Memo", "nonce": "Nonce", "timeout": "Timeout", "eventnonce": "EventNonce"},
}

// solidity argument aliases -> ABI input names (normalised)
var solAlias = map[string]string{"noncearray[1]": "batchnonce", "fxbridgeid": "fxbridgeid", "methodname": "methodname", "nonce": "nonce"}

func (e *Engine) argRootsField(v ssa.Value, field string) (bool, string) {
	got := map[string]bool{}
	res := e.Slice(v, SliceOpts{MaxDepth: 14, ThroughCalls: true, ConstLeafOK: true}, func(x ssa.Value) Verdict {
		if n, _, ok := fieldName(x); ok {
			got[n] = true
			if n == field {
				return Accept
			}
		}
		return Continue
	})
	if res.AnyAccepted() {
		return true, ""
	}
	var gs []string
	for g := range got {
		gs = append(gs, g)
	}
	return false, strings.Join(gs, ",")
}

func runC12(e *Engine, r *Report, tier string) {
	r.Explanation = "C12, structural clauses. Decided: R1 three-way table agreement per object kind (oracle set, batch, bridge call): the argument list of the contract's abi.encode(...) at the hashing site in every solidity/contracts/bridge/FxBridgeLogic*.sol, the input list of the ABI pseudo-method the EVM encoder packs (from the ABI JSON embedded in contract/IFxBridgeLogic.go) and the Go arguments of that Pack call have the same length and order; each Go argument is rooted in the record field that the ABI input name denotes; the bytes32 tag literal in Solidity equals the padded ASCII of the Go tag string; the first argument is the gravity id parameter; the EVM encoder hashes packed[4:]; the Tron encoder's ordered {type: value} list has the same types and field roots; R2 the three tags are pairwise distinct; R3 the confirm handlers fetch the object by the message's nonce (absent -> error), compute the checkpoint from that object with the gravity id from params, call the signature validation with the message's bridger / external address / signature and that checkpoint, refuse duplicates, and store under the oracle returned by the validation; the validation's success requires: external-address index found, oracle record found, record external address == message's, record bridger == message's bridger, signature check == nil over that checkpoint with the record's external address; R4 MsgConfirm wrapper signer == wrapped bridger (shared with C02.R3). R5 the bridger index (0x14) through which the confirming oracle is resolved agrees with the oracle records (imported from C13.R1). R6 genesis import writes a single-valued counter from inside a loop over imported objects only under a `>` comparison (running maximum): otherwise the counter ends at the nonce of whichever object is listed last, the next object re-uses a nonce, overwrites the stored object, and the confirmations kept for the old one sit under an object they do not sign. Not decided: ECDSA/keccak properties, ABI encoding inside go-ethereum / gotron."
	r.Rule("R1", "checkpoint encoders agree with the contract's abi.encode and the ABI JSON, argument by argument", 9, "3 object kinds x (solidity, EVM encoder, Tron encoder)")
	r.Rule("R2", "method tags pairwise distinct", 1, "")
	r.Rule("R3", "confirm handlers + signature validation guards", 12, "3 handlers + validation routine")
	r.Rule("R4", "MsgConfirm signer = wrapped bridger", 1, "")
	r.Rule("R7", "the checkpoint is computed from chain state only: the gravity id, oracle records and stored objects that feed it are read from the store, never from a process-local cell that a discarded execution (failed proposal, simulation, CheckTx) can leave changed (C17.R5 for the bridge modules)", 1, "C17 obligations in x/crosschain and x/tron")
	{
		sub17 := NewReport("C17", "other")
		runC17(e, sub17, tier)
		for _, o := range sub17.Obls {
			if o.Rule != "R5" {
				continue
			}
			if o.Status == OK && o.Construct == "scope" {
				r.add("R7", "C17.R5 "+o.Construct, o.Status, o.Pos, o.Detail)
			} else if strings.Contains(o.Construct, "x/crosschain") || strings.Contains(o.Construct, "x/tron") {
				d := o.Detail
				if o.Status != OK {
					d += " — here: a confirmation would be verified against a checkpoint built from that cell (e.g. a memoised gravity id) instead of the stored parameters, so signatures for another domain are accepted and valid ones refused"
				}
				r.add("R7", "C17.R5 "+o.Construct, o.Status, o.Pos, d)
			}
		}
	}
	r.Rule("R8", "a signature is verified under exactly one message header per chain: the public-key recovery is not tried in a loop over alternatives (a confirmation accepted under another chain's header is unusable on the external contract and blocks the oracle's slot)", 2, "calls reaching the recover primitive in x/crosschain/types and x/tron/types")
	e.c12SingleSignatureDomain(r)
	r.Rule("R6", "an object's nonce is never handed out twice: genesis import restores a single-valued counter (latest oracle-set nonce, …) as the maximum over the imported objects, not as the value of whichever comes last", 1, "writes of single-key families in genesis import")
	e.genesisCountersAreMax(r, "R6")
	// the confirming oracle is resolved from the submitting bridger through the bridger index (0x14): that index must agree
	// with the records (C13.R1 for 0x14: co-written, re-keyed on edit, deleted under the record's own bridger)
	r.Rule("R5", "the bridger index (0x14) through which the confirming oracle is resolved agrees with the oracle records (C13.R1 for 0x14)", 3, "C13 obligations")
	{
		sub13 := NewReport("C13", "other")
		runC13(e, sub13, tier)
		for _, o := range sub13.Obls {
			if o.Rule == "R1" && (strings.Contains(o.Construct, "0x14") || strings.Contains(strings.ToLower(o.Construct), "bridger")) {
				r.add("R5", "C13.R1 "+o.Construct, o.Status, o.Pos, o.Detail)
			}
		}
	}

	abis := e.bridgeABIMethods()
	sols := e.solidityEncodeSites()
	kinds := []struct {
		method, solFunc, tag string
	}{
		{"oracleSetCheckpoint", "makeCheckpoint", ""},
		{"submitBatchCheckpoint", "submitBatch", ""},
		{"bridgeCallCheckpoint", "bridgeCallSigHash", ""},
	}
	tags := map[string]string{}
	for _, kd := range kinds {
		ins := abis[kd.method]
		if len(ins) == 0 {
			r.Fail("R1", kd.method+" abi", "", "UNRESOLVED-ANCHOR: pseudo-method not found in the embedded ABI JSON")
			continue
		}
		// --- solidity
		nsol := 0
		var solTag string
		for _, se := range sols {
			if se.Func != kd.solFunc {
				continue
			}
			nsol++
			k := se.File + ":" + se.Func + " vs " + kd.method
			if len(se.Args) != len(ins) {
				r.Fail("R1", k, "", fmt.Sprintf("contract hashes %d values, the ABI pseudo-method packed by fxcore has %d inputs", len(se.Args), len(ins)))
				continue
			}
			bad := ""
			for i, a := range se.Args {
				an := normName(a)
				if al, ok := solAlias[an]; ok {
					an = al
				}
				in := normName(ins[i].Name)
				if i == 1 {
					// tag literal or variable holding it
					lit := a
					if !strings.HasPrefix(lit, "0x") {
						// find `bytes32 <a> = 0x...;`
						b, _ := os.ReadFile(filepath.Join(e.Repo, "solidity/contracts/bridge", se.File))
						m := regexp.MustCompile(regexp.QuoteMeta(a) + `\s*=\s*(0x[0-9a-fA-F]{64})`).FindStringSubmatch(string(b))
						if m != nil {
							lit = m[1]
						}
					}
					solTag = strings.ToLower(lit)
					continue
				}
				if an != in {
					bad = fmt.Sprintf("position %d: contract hashes `%s`, fxcore packs `%s`", i, a, ins[i].Name)
				}
			}
			if bad != "" {
				r.Fail("R1", k, "", "argument order differs: "+bad)
			} else {
				r.Ok("R1", k, "", fmt.Sprintf("%d arguments in the same order", len(ins)))
			}
		}
		if nsol == 0 {
			r.Fail("R1", kd.solFunc+" solidity", "", "UNRESOLVED-ANCHOR: no abi.encode in function "+kd.solFunc+" of FxBridgeLogic*.sol")
		}
		// --- Go EVM encoder: the Pack call with this method name
		var pack *ssa.Call
		var packFn *ssa.Function
		for _, fn := range e.Funcs {
			if !strings.HasSuffix(fnPkgPath(fn), "x/crosschain/types") {
				continue
			}
			allCalls(fn, func(c ssa.CallInstruction) {
				if callName(c) != "Pack" {
					return
				}
				a := c.Common().Args
				if len(a) >= 2 {
					if s, ok := constString(a[1]); ok && s == kd.method {
						pack, _ = c.(*ssa.Call)
						packFn = fn
					}
				}
			})
		}
		if pack == nil {
			r.Fail("R1", kd.method+" evm-encoder", "", "UNRESOLVED-ANCHOR: no ABI.Pack(\""+kd.method+"\", …) in x/crosschain/types")
			continue
		}
		k := e.FnKey(packFn) + " Pack(" + kd.method + ")"
		// variadic args
		var goArgs []ssa.Value
		if sl, ok := pack.Common().Args[2].(*ssa.Slice); ok {
			if arr, ok := sl.X.(*ssa.Alloc); ok {
				m := map[int64]ssa.Value{}
				for _, ref := range *arr.Referrers() {
					if ia, ok := ref.(*ssa.IndexAddr); ok {
						ix, _ := constInt(ia.Index)
						for _, r2 := range *ia.Referrers() {
							if st, ok := r2.(*ssa.Store); ok {
								m[ix] = st.Val
							}
						}
					}
				}
				for i := int64(0); i < int64(len(m)); i++ {
					goArgs = append(goArgs, m[i])
				}
			}
		}
		if len(goArgs) != len(ins) {
			r.Fail("R1", k, e.InstrPos(pack), fmt.Sprintf("Go packs %d values for an ABI method with %d inputs", len(goArgs), len(ins)))
			continue
		}
		okAll := true
		for i, ga := range goArgs {
			in := normName(ins[i].Name)
			switch i {
			case 0:
				// gravity id: StrToByte32(param)
				res := e.Slice(ga, SliceOpts{MaxDepth: 8, ThroughCalls: true}, func(x ssa.Value) Verdict {
					if p, ok := x.(*ssa.Parameter); ok && p.Type().String() == "string" {
						return Accept
					}
					return Continue
				})
				if !res.AnyAccepted() || len(res.Rejected) > 0 {
					okAll = false
					r.Fail("R1", k+" #0", e.InstrPos(pack), "first hashed value is not the gravity id parameter")
				}
			case 1:
				var tag string
				e.Slice(ga, SliceOpts{MaxDepth: 8, ThroughCalls: true}, func(x ssa.Value) Verdict {
					if s, ok := constString(x); ok {
						tag = s
						return Accept
					}
					return Continue
				})
				tags[kd.method] = tag
				want := make([]byte, 32)
				copy(want, tag)
				if solTag != "" && "0x"+hex.EncodeToString(want) != solTag {
					okAll = false
					r.Fail("R1", k+" tag", e.InstrPos(pack), fmt.Sprintf("method tag %q encodes to 0x%s but the contract hashes %s", tag, hex.EncodeToString(want), solTag))
				}
			default:
				want, ok := checkpointFieldMap[kd.method][in]
				if !ok {
					okAll = false
					r.Undecided("R1", k+" #"+ins[i].Name, e.InstrPos(pack), "ABI input "+ins[i].Name+" has no field mapping in the checker (ABI changed): review")
					continue
				}
				if okf, got := e.argRootsField(ga, want); !okf {
					okAll = false
					r.Fail("R1", k+" "+ins[i].Name, e.InstrPos(pack), fmt.Sprintf("value packed for %s does not come from the record's %s (comes from: %s): the digest differs from what the contract recomputes", ins[i].Name, want, got))
				}
			}
		}
		// packed[4:]
		okSlice := false
		if v, ok := ssa.Value(pack).(*ssa.Call); ok {
			for _, ref := range *v.Referrers() {
				if ex, ok := ref.(*ssa.Extract); ok && ex.Index == 0 {
					for _, r2 := range *ex.Referrers() {
						if sl, ok := r2.(*ssa.Slice); ok {
							if lo, ok := constInt(sl.Low); ok && lo == 4 && sl.High == nil {
								okSlice = true
							}
						}
					}
				}
			}
		}
		if !okSlice {
			okAll = false
			r.Fail("R1", k+" selector-strip", e.InstrPos(pack), "the digest is not taken over packed[4:] (the 4-byte pseudo-method selector must be dropped, nothing else)")
		}
		if okAll {
			r.Ok("R1", k, e.InstrPos(pack), fmt.Sprintf("%d values rooted in the mapped record fields; tag %q; hashes packed[4:]", len(ins), tags[kd.method]))
		}
		// --- Tron encoder
		e.checkTronEncoder(r, kd.method, ins)
	}
	// R2
	seen := map[string]string{}
	okTags := len(tags) == 3
	for m, t := range tags {
		if t == "" {
			okTags = false
		}
		if o, dup := seen[t]; dup {
			okTags = false
			r.Fail("R2", "tags", "", "method tag "+t+" is shared by "+o+" and "+m+": a signature over one object kind is valid for the other")
		}
		seen[t] = m
	}
	if okTags {
		r.Ok("R2", "tags", "", fmt.Sprintf("distinct tags %v", tags))
	} else if len(tags) != 3 {
		r.Fail("R2", "tags", "", "could not resolve the three method tags")
	}

	// R3
	e.checkConfirmHandlers(r)

	// R4
	vb := e.Method("x/crosschain/types", "MsgConfirm", "ValidateBasic")
	okEq := false
	if vb != nil {
		rets := SuccessReturns(vb)
		okEq = len(rets) > 0
		for _, ret := range rets {
			okRet := false
			for _, g := range GuardsOf(ret) {
				ci, ok := NormCond(g)
				if !ok || ci.Op != "==" || ci.X == nil || ci.Y == nil {
					continue
				}
				w, pl := false, false
				for _, v := range []ssa.Value{ci.X, ci.Y} {
					e.Slice(v, SliceOpts{MaxDepth: 8, ThroughCalls: true}, func(x ssa.Value) Verdict {
						if n, st, ok := fieldName(x); ok && n == "BridgerAddress" && strings.HasSuffix(namedTypeName(st), ".MsgConfirm") {
							w = true
							return Accept
						}
						if c, ok := x.(*ssa.Call); ok && callName(c) == "GetBridgerAddress" && c.Common().IsInvoke() {
							pl = true
							return Accept
						}
						return Continue
					})
				}
				if w && pl && BranchFailsClean(g.If, !g.Pol, nil) {
					okRet = true
				}
			}
			if !okRet {
				okEq = false
			}
		}
	}
	r.Check(okEq, "R4", "MsgConfirm", "", "wrapper bridger == wrapped confirmation's bridger on every accepted path of ValidateBasic", "the account that must sign MsgConfirm is never compared with the bridger inside the wrapped confirmation")
}

func (e *Engine) checkTronEncoder(r *Report, method string, ins []abiInput) {
	// the Tron encoder for the same kind: function in x/tron/types that builds []abi.Param and whose tag constant equals the EVM one
	names := map[string]string{"oracleSetCheckpoint": "OracleSet", "submitBatchCheckpoint": "Batch", "bridgeCallCheckpoint": "BridgeCall"}
	var fn *ssa.Function
	for _, f := range e.Funcs {
		if strings.HasSuffix(fnPkgPath(f), "x/tron/types") && f.Parent() == nil && strings.HasPrefix(f.Name(), "GetCheckpoint") && strings.Contains(f.Name(), names[method]) {
			fn = f
		}
	}
	if fn == nil {
		r.Fail("R1", method+" tron-encoder", "", "UNRESOLVED-ANCHOR: Tron checkpoint encoder not found")
		return
	}
	k := e.FnKey(fn)
	// []abi.Param literal: Alloc [N]Param; each element a MakeMap with one MapUpdate
	type pv struct {
		typ string
		val ssa.Value
	}
	elems := map[int64]pv{}
	allInstrs(fn, func(i ssa.Instruction) {
		st, ok := i.(*ssa.Store)
		if !ok {
			return
		}
		ia, ok := st.Addr.(*ssa.IndexAddr)
		if !ok {
			return
		}
		mm, ok := stripConv(st.Val).(*ssa.MakeMap)
		if !ok {
			return
		}
		ix, _ := constInt(ia.Index)
		for _, ref := range *mm.Referrers() {
			if mu, ok := ref.(*ssa.MapUpdate); ok {
				ks, _ := constString(stripConv(mu.Key))
				elems[ix] = pv{ks, mu.Value}
			}
		}
	})
	if len(elems) != len(ins) {
		r.Fail("R1", k, e.Pos(fn.Pos()), fmt.Sprintf("Tron encoder hashes %d values, the contract %d", len(elems), len(ins)))
		return
	}
	okAll := true
	for i := range ins {
		el := elems[int64(i)]
		if el.typ != ins[i].Type {
			okAll = false
			r.Fail("R1", k+" #"+ins[i].Name, e.Pos(fn.Pos()), fmt.Sprintf("position %d: Tron encoder uses type %s, the contract/ABI %s", i, el.typ, ins[i].Type))
			continue
		}
		if i < 2 {
			continue
		}
		want := checkpointFieldMap[method][normName(ins[i].Name)]
		if okf, got := e.argRootsField(el.val, want); !okf {
			okAll = false
			r.Fail("R1", k+" "+ins[i].Name, e.Pos(fn.Pos()), fmt.Sprintf("Tron encoder: value for %s does not come from the record's %s (comes from: %s)", ins[i].Name, want, got))
		}
	}
	if okAll {
		r.Ok("R1", k, e.Pos(fn.Pos()), fmt.Sprintf("%d {type: value} entries agree in type and field with the ABI inputs", len(ins)))
	}
}

func (e *Engine) checkConfirmHandlers(r *Report) {
	// validation routine: function reading 0x13 and 0x12 and calling a signature validator
	var val *ssa.Function
	for _, fn := range e.Funcs {
		if isAuxPkg(fnPkgPath(fn)) || fn.Parent() != nil || !strings.Contains(fnPkgPath(fn), "x/crosschain/keeper") {
			continue
		}
		sig := false
		allCalls(fn, func(c ssa.CallInstruction) {
			if strings.HasPrefix(callName(c), "Validate") && strings.HasSuffix(callName(c), "Signature") {
				sig = true
			}
		})
		if sig {
			val = fn
		}
	}
	if val == nil {
		r.Fail("R3", "validation routine", "", "UNRESOLVED-ANCHOR: no keeper function validates confirm signatures")
		return
	}
	vk := e.FnKey(val)
	var bridgerPar, extPar, cpPar *ssa.Parameter
	strs := []*ssa.Parameter{}
	for _, p := range val.Params {
		if p.Type().String() == "string" {
			strs = append(strs, p)
		}
		if p.Type().String() == "[]byte" {
			cpPar = p
		}
	}
	for _, ret := range SuccessReturns(val) {
		f13, f12, eqExt, eqBr, sigOK := false, false, false, false, false
		var idx *ssa.Call
		for _, g := range GuardsOf(ret) {
			ci, ok := NormCond(g)
			if !ok {
				continue
			}
			if ci.Op == "found" {
				if rc, ok := ci.X.(*ssa.Call); ok {
					if e.callDirectOp(rc, cc, "13", "get") {
						f13, idx = true, rc
						for _, a := range rc.Common().Args {
							if p, ok := a.(*ssa.Parameter); ok && p.Type().String() == "string" {
								extPar = p
							}
						}
					}
					if e.callDirectOp(rc, cc, "12", "get") {
						f12 = true
					}
				}
			}
			if ci.Op == "==" && ci.X != nil && ci.Y != nil {
				for _, pr := range [][2]ssa.Value{{ci.X, ci.Y}, {ci.Y, ci.X}} {
					n, _, ok := fieldNameOfLoad(pr[0])
					p, isP := pr[1].(*ssa.Parameter)
					if ok && isP && BranchFailsClean(g.If, !g.Pol, nil) {
						if n == "ExternalAddress" {
							eqExt = true
						}
						if n == "BridgerAddress" {
							eqBr = true
							bridgerPar = p
						}
					}
				}
				// err == nil of signature validation
				for _, v := range []ssa.Value{ci.X, ci.Y} {
					if c, ok := v.(*ssa.Call); ok && strings.HasSuffix(callName(c), "Signature") && strings.HasPrefix(callName(c), "Validate") {
						a := c.Common().Args
						okArgs := len(a) == 3 && cpPar != nil && a[0] == ssa.Value(cpPar)
						if okArgs {
							if n, _, ok := fieldNameOfLoad(a[2]); ok && n == "ExternalAddress" {
								sigOK = true
							}
						}
					}
				}
			}
		}
		r.Check(f13, "R3", vk+" external-index", e.InstrPos(ret), "external address -> oracle found", "a confirmation is accepted without the external address being registered")
		r.Check(f12, "R3", vk+" oracle-record", e.InstrPos(ret), "oracle record found", "a confirmation is accepted without an oracle record")
		r.Check(eqExt, "R3", vk+" external-eq", e.InstrPos(ret), "record.ExternalAddress == message's", "the oracle's registered external address is not compared with the message's")
		r.Check(eqBr, "R3", vk+" bridger-eq", e.InstrPos(ret), "record.BridgerAddress == message's bridger (else error)", "a confirmation is accepted from an account that is not the signing oracle's registered bridger: signatures can be transplanted / submitted by others")
		if !sigOK {
			// validators on alternative branches (per chain kind): every path to success passes one of them, each checked
			isSig := func(i ssa.Instruction) bool {
				c, ok := i.(ssa.CallInstruction)
				if !ok || !(strings.HasPrefix(callName(c), "Validate") && strings.HasSuffix(callName(c), "Signature")) {
					return false
				}
				a := c.Common().Args
				if len(a) != 3 || cpPar == nil || a[0] != ssa.Value(cpPar) {
					return false
				}
				if n, _, ok := fieldNameOfLoad(a[2]); !ok || n != "ExternalAddress" {
					// equivalent: the message's address, provided equality with the record's address dominates this call
					p, isP := a[2].(*ssa.Parameter)
					if !isP || p != extPar {
						return false
					}
					eq := false
					for _, g := range GuardsOf(c) {
						ci, ok := NormCond(g)
						if ok && ci.Op == "==" && ci.X != nil && ci.Y != nil {
							for _, pr := range [][2]ssa.Value{{ci.X, ci.Y}, {ci.Y, ci.X}} {
								if n, _, ok := fieldNameOfLoad(pr[0]); ok && n == "ExternalAddress" && pr[1] == ssa.Value(p) {
									eq = true
								}
							}
						}
					}
					if !eq {
						return false
					}
				}
				okh, _ := errorHandled(c)
				return okh
			}
			if MustPassThrough(val, nil, isSig) == nil {
				sigOK = true
			}
		}
		r.Check(sigOK, "R3", vk+" signature", e.InstrPos(ret), "signature validated over the given checkpoint with the record's external address", "success does not require the signature to verify over the checkpoint under the oracle's registered key")
		okRet := false
		if idx != nil && len(ret.Results) > 0 {
			e.Slice(ret.Results[0], SliceOpts{MaxDepth: 5}, func(x ssa.Value) Verdict {
				if ex, ok := x.(*ssa.Extract); ok && ex.Tuple == ssa.Value(idx) {
					okRet = true
					return Accept
				}
				return Continue
			})
		}
		r.Check(okRet, "R3", vk+" result", e.InstrPos(ret), "returns the oracle found for the external address", "the oracle returned is not the one registered for the signing key")
	}
	_ = strs
	// handlers
	nh := 0
	for _, cs := range e.CallSites(val) {
		H := cs.Caller
		if isAuxPkg(fnPkgPath(H)) {
			continue
		}
		nh++
		hk := e.FnKey(H)
		var msgPar *ssa.Parameter
		for _, p := range H.Params {
			if strings.Contains(p.Type().String(), "types.Msg") {
				msgPar = p
			}
		}
		// args: bridger <- msg.BridgerAddress, ext <- msg.ExternalAddress, sig <- msg.Signature
		okArgs := true
		for _, pr := range []struct {
			p *ssa.Parameter
			f string
		}{{bridgerPar, "BridgerAddress"}, {extPar, "ExternalAddress"}} {
			if pr.p == nil {
				continue
			}
			a := argFor(cs, pr.p)
			n, _, ok := fieldNameOfLoad(a)
			if !ok || n != pr.f {
				okArgs = false
			}
		}
		r.Check(okArgs && msgPar != nil, "R3", hk+" args", e.InstrPos(cs.Call), "validation receives the message's own bridger and external address", "the bridger/external address checked are not the message's own fields")
		// checkpoint arg computed from the fetched object
		cp := argFor(cs, cpPar)
		var obj ssa.Value
		okCP := false
		e.Slice(cp, SliceOpts{MaxDepth: 8}, func(x ssa.Value) Verdict {
			c, ok := x.(*ssa.Call)
			if !ok || !strings.Contains(callName(c), "Checkpoint") {
				return Continue
			}
			a := callArgs(c)
			if len(a) >= 1 {
				obj = a[0]
				// gravity id argument from params
				for _, y := range a[1:] {
					if gc, ok := y.(*ssa.Call); ok && callName(gc) == "GetGravityID" {
						okCP = true
					}
				}
			}
			return Accept
		})
		fetched := false
		if obj != nil {
			res := e.Slice(obj, SliceOpts{MaxDepth: 6}, func(x ssa.Value) Verdict {
				if rc, ok := x.(*ssa.Call); ok && (e.callDirectOp(rc, cc, "15", "get") || e.callDirectOp(rc, cc, "20", "get") || e.callDirectOp(rc, cc, "48", "get")) {
					// keyed by the message's nonce
					for _, a := range rc.Common().Args {
						if n, _, ok := fieldNameOfLoad(a); ok && n == "Nonce" {
							fetched = true
						}
					}
					return Accept
				}
				return Continue
			})
			_ = res
		}
		r.Check(okCP && fetched, "R3", hk+" checkpoint", e.InstrPos(cs.Call), "checkpoint computed from the stored object fetched by the message's nonce, with the gravity id from params", "the checkpoint that is verified is not computed from the stored object named by the message (or not with the module's gravity id)")
		// duplicate check + store under returned oracle
		var set ssa.CallInstruction
		allCalls(H, func(c ssa.CallInstruction) {
			for _, hx := range []string{"16", "22", "45"} {
				if e.callDirectOp(c, cc, hx, "set") {
					set = c
				}
			}
		})
		if set == nil {
			r.Fail("R3", hk+" store", e.Pos(H.Pos()), "handler never stores the confirmation")
			continue
		}
		dup := false
		for _, g := range GuardsOf(set) {
			ci, ok := NormCond(g)
			if !ok {
				continue
			}
			var rc *ssa.Call
			if ci.Call != nil {
				rc = ci.Call
			} else if c, ok := ci.X.(*ssa.Call); ok {
				rc = c
			}
			if rc != nil {
				for _, hx := range []string{"16", "22", "45"} {
					if e.callDirectOp(rc, cc, hx, "get,has") && BranchFailsClean(g.If, !g.Pol, nil) {
						dup = true
					}
				}
			}
		}
		r.Check(dup, "R3", hk+" duplicate", e.InstrPos(set), "existing confirmation of this oracle -> error, before storing", "a second confirmation of the same oracle and object is not refused")
		underOracle := false
		if v, ok := cs.Call.(ssa.Value); ok {
			for _, a := range set.Common().Args {
				if ex, ok := a.(*ssa.Extract); ok && ex.Tuple == v {
					underOracle = true
				}
			}
		}
		r.Check(underOracle && Dominates(cs.Call, set), "R3", hk+" keyed", e.InstrPos(set), "stored under the oracle returned by the validation", "the confirmation is stored under an oracle other than the one whose signature was verified")
	}
	if nh < 3 {
		r.Fail("R3", "confirm handlers", "", fmt.Sprintf("UNRESOLVED-ANCHOR: %d handlers call the validation routine (3 expected)", nh))
	}
}

// genesisCountersAreMax: see C12.R6.
func (e *Engine) genesisCountersAreMax(r *Report, rule string) {
	n := 0
	for _, fn := range e.Funcs {
		if isAuxPkg(fnPkgPath(fn)) || fn.Parent() != nil || !strings.Contains(fn.Name(), "InitGenesis") || !strings.Contains(fnPkgPath(fn), "x/crosschain/keeper") {
			continue
		}
		allCalls(fn, func(c ssa.CallInstruction) {
			single := false
			for _, cal := range e.calleesOf(c) {
				for _, so := range e.Effects(cal) {
					if so.Op != "set" || so.Key == nil {
						continue
					}
					if u, ok := stripConv(so.Key).(*ssa.UnOp); ok {
						if _, isG := u.X.(*ssa.Global); isG {
							single = true
						}
					}
				}
			}
			if !single {
				return
			}
			n++
			_, loop := loopOf(c.Block())
			ck := e.CanonFnKey(fn) + " -> " + callName(c)
			if loop == nil {
				r.Ok(rule, ck, e.InstrPos(c), "written once, outside any loop")
				return
			}
			var val ssa.Value
			for _, a := range c.Common().Args {
				if b, ok := a.Type().Underlying().(*types.Basic); ok && b.Info()&types.IsInteger != 0 {
					val = a
				}
			}
			okMax := false
			for _, g := range GuardsOf(c) {
				ci, ok := NormCond(g)
				if !ok || ci.X == nil || ci.Y == nil {
					continue
				}
				if (ci.Op == ">" && val != nil && SameExpr(ci.X, val, 6)) || (ci.Op == "<" && val != nil && SameExpr(ci.Y, val, 6)) {
					okMax = true
				}
			}
			r.Check(okMax, rule, ck, e.InstrPos(c), "written inside the loop only when the value exceeds the running maximum", "a single-valued counter is overwritten for every imported object: it ends at the value of the object that happens to be listed last, not at the maximum — after an import in another order the next object is created under a nonce that is already taken")
		})
	}
	if n == 0 {
		r.Fail(rule, "genesis counters", "", "UNRESOLVED-ANCHOR: genesis import writes no single-key family")
	}
}


// c12SingleSignatureDomain (R8): the functions that recover a signer from a checkpoint signature (callers, direct or through
// fx-core helpers, of crypto.SigToPub / Ecrecover) call the recovery once per verification: a call on a cycle of the control
// flow tries several pre-images (headers) and accepts any (round-8 seed C12: the tron verifier also accepted the Ethereum
// header).
func (e *Engine) c12SingleSignatureDomain(r *Report) {
	reaches := map[*ssa.Function]bool{}
	var reach func(f *ssa.Function, depth int) bool
	reach = func(f *ssa.Function, depth int) bool {
		if f == nil || f.Blocks == nil {
			return false
		}
		if v, ok := reaches[f]; ok {
			return v
		}
		if depth > 6 {
			return false // not memoised: a deeper cut-off must not poison the answer for a shallower query
		}
		reaches[f] = false
		hit := false
		allCalls(f, func(c ssa.CallInstruction) {
			n := callName(c)
			if n == "SigToPub" || n == "Ecrecover" {
				if sc := c.Common().StaticCallee(); sc == nil || !isFx(sc) {
					hit = true
				}
			}
			for _, g := range e.calleesOf(c) {
				if isFx(g) && reach(g, depth+1) {
					hit = true
				}
			}
		})
		if hit || depth == 0 {
			reaches[f] = hit
		} else {
			delete(reaches, f)
		}
		return hit
	}
	n := 0
	for _, fn := range e.Funcs {
		pp := fnPkgPath(fn)
		if isAuxPkg(pp) || !(strings.HasSuffix(pp, "/x/crosschain/types") || strings.HasSuffix(pp, "/x/tron/types")) {
			continue
		}
		fn := fn
		allCalls(fn, func(c ssa.CallInstruction) {
			direct := false
			if callName(c) == "SigToPub" || callName(c) == "Ecrecover" {
				if sc := c.Common().StaticCallee(); sc == nil || !isFx(sc) {
					direct = true
				}
			}
			via := false
			for _, g := range e.calleesOf(c) {
				if isFx(g) && reach(g, 0) {
					via = true
				}
			}
			if !direct && !via {
				return
			}
			n++
			blk := c.Block()
			last := blk.Instrs[len(blk.Instrs)-1]
			ck := e.FnKey(fn) + " " + callName(c)
			r.Check(!canReach(last, c), "R8", ck, e.InstrPos(c), "recovery runs once per verification", "the signer recovery runs inside a loop: the signature is tried against several pre-images (message headers) and accepted under any of them — a confirmation signed under another chain's header is stored although the external contract cannot verify it")
		})
	}
	if n == 0 {
		r.Fail("R8", "recover sites", "", "UNRESOLVED-ANCHOR: no call reaching SigToPub / Ecrecover in the signature helpers")
	}
}
