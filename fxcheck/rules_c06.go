package main

import (
	"go/types"
	"go/token"
	"sort"
	"fmt"
	"os"
	"path/filepath"
	"regexp"
	"strings"

	"golang.org/x/tools/go/ssa"
)

func init() { register("C06", "other", runC06) }

// timeoutField: v roots at the BatchTimeout field of an OutgoingTxBatch or the Timeout field of an OutgoingBridgeCall.
func (e *Engine) isRecordTimeout(v ssa.Value) (string, bool) {
	name := ""
	res := e.Slice(v, SliceOpts{MaxDepth: 6}, func(x ssa.Value) Verdict {
		if n, st, ok := fieldName(x); ok {
			tn := namedTypeName(st)
			if (n == "BatchTimeout" && strings.HasSuffix(tn, "OutgoingTxBatch")) || (n == "Timeout" && strings.HasSuffix(tn, "OutgoingBridgeCall")) {
				name = lastDot(tn) + "." + n
				return Accept
			}
		}
		if c, ok := x.(*ssa.Call); ok {
			if n := callName(c); n == "GetBatchTimeout" || n == "GetTimeout" {
				name = n
				return Accept
			}
		}
		return Continue
	})
	return name, res.AllAccepted()
}

// isObservedExternalHeight: every root of v is the ExternalBlockHeight field of a value read from family 0x32.
func (e *Engine) isObservedExternalHeight(v ssa.Value) (bool, string) {
	bad := ""
	res := e.Slice(v, SliceOpts{MaxDepth: 10}, func(x ssa.Value) Verdict {
		if n, _, ok := fieldName(x); ok && n == "ExternalBlockHeight" {
			var base ssa.Value
			switch y := x.(type) {
			case *ssa.FieldAddr:
				base = y.X
			case *ssa.Field:
				base = y.X
			}
			if _, ok := e.valueReadsFamily(base, cc, "32"); ok {
				return Accept
			}
			// base may be a local alloc holding the call result
			in := e.Slice(base, SliceOpts{MaxDepth: 4}, func(z ssa.Value) Verdict {
				if _, ok := e.valueReadsFamily(z, cc, "32"); ok {
					return Accept
				}
				return Continue
			})
			if in.AllAccepted() {
				return Accept
			}
			bad = "ExternalBlockHeight of a value not read from 0x32"
			return Reject
		}
		if c, ok := x.(*ssa.Call); ok {
			switch callName(c) {
			case "BlockHeight", "BlockTime", "CalExternalTimeoutHeight", "Now", "HeaderInfo", "BlockHeader":
				bad = "derived from " + callName(c) + "()"
				return Reject
			case "GetExternalBlockHeight":
				a := callArgs(c)
				if len(a) > 0 {
					if _, ok := e.valueReadsFamily(a[0], cc, "32"); ok {
						return Accept
					}
				}
			}
		}
		return Continue
	})
	if res.AllAccepted() {
		return true, ""
	}
	if bad == "" {
		for _, l := range res.Leaves {
			bad += e.Describe(l) + "; "
		}
	}
	return false, bad
}

func runC06(e *Engine, r *Report, tier string) {
	r.Explanation = "C06, structural clauses. Decided: R1 the functions that release outgoing value for timeout are called only from the function that records a newly observed external height (writer of 0x32), after that write; R2 each release decision compares the record's own timeout field with the ExternalBlockHeight read from 0x32 — never the local block height/time or the projected height — and releases only on `timeout < observed` or `timeout <= observed`; R3 this is consistent with every `require(block.number < timeout)` in solidity/contracts/bridge/FxBridgeLogic*.sol; R4 batch / bridge-call creation is dominated by `timeout > 0` where timeout is the projecting function's result and that function returns 0 when no external height was observed; R5 the batch-cancel routine is called only from timeout cleanup and from the executed-batch handler; R6 the external height an observed event carries is covered by the claim hash of every claim type, i.e. it is the height a quorum agreed on (decided as C03.R1); R7 if a parked claim kind settles an outgoing record only when it is executed, the timeout sweep of that record family is guarded by a lookup among the parked claims (0x54), so that an observed result excludes the timeout refund; R8 events are tallied only for the nonce right after the last observed one (decided as C01.R1), so the event that settles a record is applied before a later event can move the observed height past that record's timeout. Not decided: projected-height arithmetic."
	r.Trusted = []string{"go/ssa dominance", "purpose-built scanner for `require(block.number <op> <timeout>)` in Solidity"}
	r.Rule("R1", "timeout cleanup is called only right after an external height is recorded (0x32 write dominates the call)", 2, "cleanup functions found by R2")
	r.Rule("R2", "release decision: record timeout vs observed external height (0x32), direction timeout<=observed", 2, "comparisons on OutgoingTxBatch.BatchTimeout / OutgoingBridgeCall.Timeout guarding effects")
	r.Rule("R3", "Go release condition is the complement-side of the contract's `block.number < timeout`", 2, "require(block.number ...) sites in FxBridgeLogic*.sol")
	r.Rule("R4", "creation guarded by timeout>0; projector returns 0 when nothing observed", 3, "sites assigning BatchTimeout/Timeout")
	r.Rule("R5", "batch cancel reachable only from timeout cleanup and executed-batch handler", 1, "callers of the function that re-adds batch txs to the pool")
	r.Rule("R9", "a batch is cancelled on execution of another one only if it is an older batch of the same token, or on its own timeout (C05.R2 cancel-target): the external contract keeps one last-executed nonce per token", 2, "C05 obligations")
	if running["C05"] == 0 {
		// (C05 itself imports a C06 rule: when C06 runs as C05's sub-report the import back is skipped)
		sub05 := NewReport("C05", "other")
		runC05(e, sub05, tier)
		for _, o := range sub05.Obls {
			if o.Rule == "R2" && strings.HasSuffix(o.Construct, " target") {
				r.add("R9", "C05.R2 "+o.Construct, o.Status, o.Pos, o.Detail)
			}
		}
	} else {
		r.Ok("R9", "C05.R2 (sub-report)", "", "decided by the enclosing C05 run")
		r.Ok("R9", "C05.R2 (sub-report) 2", "", "decided by the enclosing C05 run")
	}
	r.Rule("R7", "a record whose observed result is parked is not released by the timeout sweep", 1, "families settled at execution of a parked claim")
	r.Rule("R6", "the external height recorded as observed is part of what the quorum voted on (claim hash covers BlockHeight; decided as C03.R1)", 6, "ExternalClaim implementers")
	r.Rule("R8", "events are applied in event-nonce order without gaps: the settling event of a record is processed before any later event can move the observed height past its timeout (C01.R1)", 1, "C01 obligations")
	{
		sub01 := NewReport("C01", "other")
		runC01(e, sub01, tier)
		for _, o := range sub01.Obls {
			if o.Rule == "R1" {
				r.add("R8", "C01.R1 "+o.Construct, o.Status, o.Pos, o.Detail)
			}
		}
	}
	{
		sub := NewReport("C03", "other")
		runC03(e, sub, tier)
		types3 := map[string]Status{}
		for _, o := range sub.Obls {
			if o.Rule != "R1" {
				continue
			}
			parts := strings.Split(o.Construct, ".")
			if len(parts) < 2 || !strings.HasPrefix(parts[1], "Msg") {
				continue
			}
			name := parts[0] + "." + parts[1]
			if _, ok := types3[name]; !ok {
				types3[name] = OK
			}
			if len(parts) == 2 && o.Status != OK {
				types3[name] = o.Status // undecided / unresolved for the whole type
			}
			if len(parts) == 3 && parts[2] == "BlockHeight" && o.Status != OK {
				types3[name] = Violated
			}
		}
		var names []string
		for n := range types3 {
			names = append(names, n)
		}
		sort.Strings(names)
		for _, n := range names {
			switch types3[n] {
			case OK:
				r.Ok("R6", n+".BlockHeight", "", "the claim's external block height is hashed: votes that disagree on it are tallied separately")
			case Violated:
				r.Fail("R6", n+".BlockHeight", "", "the claim's external block height is not part of the claim hash: the height written to 0x32 (and used to release timed-out value) is the threshold-crossing voter's alone, not a quorum's")
			default:
				r.Undecided("R6", n+".BlockHeight", "", "hash coverage of the claim type could not be decided (C03.R1)")
			}
		}
	}

	// ----- R2: find release decisions -----
	type decision struct {
		fn    *ssa.Function
		iff   *ssa.If
		op    string // normalised as  timeout <op> observed  on the releasing branch
		field string
	}
	var decisions []decision
	cleanupRoots := map[*ssa.Function]bool{}
	for _, fn := range e.Funcs {
		if isAuxPkg(fnPkgPath(fn)) {
			continue
		}
		for _, b := range fn.Blocks {
			if len(b.Instrs) == 0 {
				continue
			}
			iff, ok := b.Instrs[len(b.Instrs)-1].(*ssa.If)
			if !ok {
				continue
			}
			ci, ok := NormCond(Guard{Cond: iff.Cond, Pol: true, If: iff})
			if !ok || ci.X == nil || ci.Y == nil {
				continue
			}
			fx, okx := e.isRecordTimeout(ci.X)
			fy, oky := e.isRecordTimeout(ci.Y)
			if okx == oky {
				continue // none or both (sort comparators)
			}
			// which branch has effects? (effects inside this function's blocks dominated by the branch)
			effOn := func(pol bool) bool {
				start := b.Succs[1]
				if pol {
					start = b.Succs[0]
				}
				has := false
				for _, bb := range fn.Blocks {
					if bb == start || (start.Dominates(bb) && edgeDominates(b, start, bb)) {
						for _, in := range bb.Instrs {
							if e.EffectOf(in) != "" {
								has = true
							}
						}
					}
				}
				return has
			}
			te, fe := effOn(true), effOn(false)
			// iterator callbacks: `if timeout > obs { return true }` then effects follow on the false branch
			if !te && !fe {
				continue // no state effect guarded: not a release decision (query / sort code)
			}
			ck := e.FnKey(fn) + " cmp"
			if te && fe {
				r.Undecided("R2", ck, e.InstrPos(iff), "both branches of a timeout comparison have state effects")
				continue
			}
			op := ci.Op
			if fe {
				// releasing branch is the false branch
				nc, _ := NormCond(Guard{Cond: iff.Cond, Pol: false, If: iff})
				op = nc.Op
			}
			// the releasing code is entered only through this comparison: no other condition (`timeout < observed || <other>`)
			// or jump leads into it
			relStart := b.Succs[0]
			if fe {
				relStart = b.Succs[1]
			}
			if !edgeDominates(b, relStart, relStart) {
				r.Fail("R2", ck, e.InstrPos(iff), "the releasing branch can also be entered without the comparison of the record's own timeout with the observed external height (another condition or-ed with it): a record is released although no observed event has reached its timeout")
				continue
			}
			tv, ov, fld := ci.X, ci.Y, fx
			if oky {
				tv, ov, fld = ci.Y, ci.X, fy
				op = flipOp(op)
			}
			_ = tv
			okObs, why := e.isObservedExternalHeight(ov)
			if !okObs {
				r.Fail("R2", ck, e.InstrPos(iff), "release for timeout compares "+fld+" with a value that is not the observed external height from 0x32: "+why)
				continue
			}
			if op != "<" && op != "<=" {
				r.Fail("R2", ck, e.InstrPos(iff), fmt.Sprintf("value is released on the branch `%s %s observed` (must be < or <=)", fld, op))
				continue
			}
			r.Ok("R2", ck, e.InstrPos(iff), fmt.Sprintf("releases iff %s %s get(0x32).ExternalBlockHeight", fld, op))
			decisions = append(decisions, decision{fn, iff, op, fld})
			cleanupRoots[rootFn(fn)] = true
		}
	}

	// ----- R3: solidity agreement -----
	solOps := e.solidityTimeoutRequires()
	if len(solOps) == 0 {
		r.Fail("R3", "solidity", "", "UNRESOLVED-ANCHOR: no `require(block.number <op> …timeout…)` found in solidity/contracts/bridge/FxBridgeLogic*.sol")
	}
	for _, so := range solOps {
		// contract: runnable iff block.number <op> timeout ; release must imply not runnable for all h >= observed
		ck := so.file + ":" + so.fn + " block.number " + so.op + " " + so.rhs
		allowed := map[string]bool{}
		switch so.op {
		case "<":
			allowed["<"], allowed["<="] = true, true // timeout <= obs  =>  for h>=obs: !(h < timeout)
		case "<=":
			allowed["<"] = true
		}
		okAll := true
		for _, d := range decisions {
			isBatch := strings.Contains(d.field, "BatchTimeout")
			solBatch := strings.Contains(strings.ToLower(so.rhs), "batch")
			if isBatch != solBatch {
				continue
			}
			if !allowed[d.op] {
				okAll = false
				r.Fail("R3", ck, e.InstrPos(d.iff), fmt.Sprintf("Go releases on `%s %s observed` while the contract still runs the object when block.number %s timeout", d.field, d.op, so.op))
			}
		}
		if len(allowed) == 0 {
			okAll = false
			r.Fail("R3", ck, "", "contract timeout comparison has an unexpected operator "+so.op)
		}
		if okAll {
			r.Ok("R3", ck, "", "Go release condition implies the contract rejects at every height >= observed")
		}
	}

	// ----- R1: who calls cleanup -----
	if len(cleanupRoots) == 0 {
		r.Fail("R1", "cleanup", "", "UNRESOLVED-ANCHOR: no timeout release decision found")
	}
	for cf := range cleanupRoots {
		// every call chain into the cleanup function must pass a call that is dominated, in its own function, by a write of
		// the observed external height (0x32); helpers that merely relay the call are followed upwards
		var walk func(target *ssa.Function, chain string, depth int, seen map[*ssa.Function]bool) int
		walk = func(target *ssa.Function, chain string, depth int, seen map[*ssa.Function]bool) int {
			n := 0
			for _, cs := range e.CallSites(target) {
				if isAuxPkg(fnPkgPath(cs.Caller)) {
					continue
				}
				n++
				ck := e.FnKey(cs.Caller) + " -> " + chain
				var w32 ssa.Instruction
				allCalls(cs.Caller, func(c ssa.CallInstruction) {
					if !DominatesF(c, cs.Call) {
						return
					}
					if e.callDirectOp(c, cc, "32", "set") {
						w32 = c
					}
				})
				if w32 != nil {
					r.Ok("R1", ck, e.InstrPos(cs.Call), "dominated by set(0x32)")
					continue
				}
				relay := rootFn(cs.Caller)
				if depth < 4 && !seen[relay] && !cleanupRoots[relay] {
					seen[relay] = true
					if walk(relay, e.FnKey(relay)+" -> "+chain, depth+1, seen) > 0 {
						continue
					}
				}
				r.Fail("R1", ck, e.InstrPos(cs.Call), "timeout cleanup is called without a dominating write of the observed external height (0x32) in the calling function or in any function relaying the call: it would run on fxcore's own schedule")
			}
			return n
		}
		if walk(cf, e.FnKey(cf), 0, map[*ssa.Function]bool{}) == 0 {
			r.Fail("R1", e.FnKey(cf), e.Pos(cf.Pos()), "cleanup function has no caller")
		}
	}

	// ----- R4: creation guarded -----
	nsites := 0
	for _, fn := range e.Funcs {
		if isAuxPkg(fnPkgPath(fn)) || isGenesisOrUpgrade(fn) {
			continue
		}
		allInstrs(fn, func(i ssa.Instruction) {
			st, ok := i.(*ssa.Store)
			if !ok {
				return
			}
			fa, ok := st.Addr.(*ssa.FieldAddr)
			if !ok {
				return
			}
			n, stt, _ := fieldName(fa)
			tn := namedTypeName(stt)
			if !((n == "BatchTimeout" && strings.HasSuffix(tn, "OutgoingTxBatch")) || (n == "Timeout" && strings.HasSuffix(tn, "OutgoingBridgeCall"))) {
				return
			}
			if strings.Contains(fnPkgPath(fn), "/types") {
				return // generated Unmarshal etc.
			}
			nsites++
			ck := e.FnKey(fn) + " " + lastDot(tn) + "." + n
			call, ok := stripConv(st.Val).(*ssa.Call)
			if !ok || call.Common().StaticCallee() == nil || !isFx(call.Common().StaticCallee()) {
				r.Fail("R4", ck, e.InstrPos(i), "timeout assigned from something that is not the height-projecting function: "+e.Describe(st.Val))
				return
			}
			proj := call.Common().StaticCallee()
			// guard: timeout > 0 dominating the store (accepted: `<= 0 -> error`)
			okGuard := false
			for _, g := range GuardsOf(i) {
				ci, ok := NormCond(g)
				if !ok {
					continue
				}
				if ci.X == ssa.Value(call) {
					if z, ok := constInt(ci.Y); ok && z == 0 && (ci.Op == ">" || ci.Op == "!=") {
						okGuard = BranchFailsClean(g.If, !g.Pol, nil)
					}
				}
			}
			if !okGuard {
				r.Fail("R4", ck, e.InstrPos(i), "creation is not dominated by `timeout > 0` (else error): objects could be created before any external height was observed")
				return
			}
			r.Ok("R4", ck, e.InstrPos(i), "timeout = "+e.FnKey(proj)+"(…), dominated by timeout > 0")
			// projector returns 0 when observed external height == 0
			okZero := false
			for _, b := range proj.Blocks {
				if len(b.Instrs) == 0 {
					continue
				}
				ret, ok := b.Instrs[len(b.Instrs)-1].(*ssa.Return)
				if !ok || len(ret.Results) != 1 {
					continue
				}
				if z, ok := constInt(ret.Results[0]); ok && z == 0 {
					for _, g := range GuardsOf(ret) {
						ci, ok := NormCond(g)
						if ok && ci.Op == "==" {
							if z2, ok := constInt(ci.Y); ok && z2 == 0 {
								if ok2, _ := e.isObservedExternalHeight(ci.X); ok2 {
									okZero = true
								}
							}
						}
					}
				}
			}
			r.Check(okZero, "R4", e.FnKey(proj)+" zero-when-unobserved", e.Pos(proj.Pos()), "returns 0 on get(0x32).ExternalBlockHeight == 0", "projecting function does not return 0 when no external height has been observed")
		})
	}
	if nsites == 0 {
		r.Fail("R4", "creation", "", "UNRESOLVED-ANCHOR: no site assigns BatchTimeout/Timeout")
	}

	// ----- R5: batch cancel callers -----
	// cancel routine: function that both re-adds to pool (set 0x18) and deletes a batch (0x20)
	for _, fn := range e.Funcs {
		if isAuxPkg(fnPkgPath(fn)) || fn.Parent() != nil {
			continue
		}
		hasSet18, hasDel20 := false, false
		allCalls(fn, func(c ssa.CallInstruction) {
			if e.callDirectOp(c, cc, "18", "set") {
				hasSet18 = true
			}
			if e.callDirectOp(c, cc, "20", "delete") {
				hasDel20 = true
			}
		})
		if !hasSet18 || !hasDel20 {
			continue
		}
		for _, c := range e.Callers(fn) {
			if isAuxPkg(fnPkgPath(c)) {
				continue
			}
			root := rootFn(c)
			ck := e.FnKey(root) + " -> " + e.FnKey(fn)
			// allowed: cleanup roots; executed-batch handler = function that deletes 0x20 and 0x22 itself
			okc := cleanupRoots[root]
			if !okc {
				d20, d22 := false, false
				for f := range e.Reach([]*ssa.Function{root}, func(x *ssa.Function) bool { return x == fn }) {
					if rootFn(f) != root {
						continue
					}
					allCalls(f, func(cx ssa.CallInstruction) {
						if e.callDirectOp(cx, cc, "20", "delete") {
							d20 = true
						}
						if e.callDirectOp(cx, cc, "22", "iter,delete") {
							d22 = true
						}
					})
				}
				okc = d20 && d22
			}
			r.Check(okc, "R5", ck, e.Pos(c.Pos()), "timeout cleanup or executed-batch handler", "batch cancel (transfers return to the pool) is reachable from a function that is neither the timeout cleanup nor the executed-batch handler")
		}
	}
	// ---------- R7: an outgoing record whose execution result is parked is not released for timeout ----------
	{
		late := map[string]string{} // family -> executor callee
		var executor *ssa.Function
		for _, fn := range e.Funcs {
			if isAuxPkg(fnPkgPath(fn)) || fn.Parent() != nil {
				continue
			}
			get, del := false, false
			allCalls(fn, func(c ssa.CallInstruction) {
				if e.callDirectOp(c, cc, "54", "get") {
					get = true
				}
				if e.callDirectOp(c, cc, "54", "delete") {
					del = true
				}
			})
			if get && del && !strings.HasSuffix(fnPkgPath(fn), "/types") {
				executor = fn
			}
		}
		if executor == nil {
			r.Fail("R7", "parked-claim executor", "", "UNRESOLVED-ANCHOR: no function reads and deletes the parked claims (0x54)")
		} else {
			allCalls(executor, func(c ssa.CallInstruction) {
				for _, f := range e.calleesOf(c) {
					for _, fam := range []string{"48", "20"} {
						if e.HasTransEffect(f, cc, fam, "delete") {
							late[fam] = e.FnKey(f)
						}
					}
				}
			})
			if len(late) == 0 {
				r.Ok("R7", e.FnKey(executor)+" settles-late", e.Pos(executor.Pos()), "no parked claim kind settles an outgoing record at execution time")
			}
			for fam, via := range late {
				// every releasing function for this family that belongs to the timeout cleanup must consult 0x54
				n := 0
				for _, fn := range e.Funcs {
					if !cleanupRoots[rootFn(fn)] || !e.HasTransEffect(rootFn(fn), cc, fam, "delete") {
						continue
					}
					var releases []ssa.CallInstruction
					allCalls(fn, func(c ssa.CallInstruction) {
						if e.callDirectOp(c, cc, fam, "delete") {
							releases = append(releases, c)
							return
						}
						for _, f := range e.calleesOf(c) {
							if e.HasTransEffect(f, cc, fam, "delete") && f.Parent() == nil {
								releases = append(releases, c)
								return
							}
						}
					})
					for _, rel := range releases {
						n++
						ck := e.FnKey(fn) + " release(0x" + fam + ") vs parked result"
						ok := false
						for _, g := range GuardsOf(rel) {
							if e.dependsOnFamilyRead(fn, g.Cond, cc, "54", 0, map[ssa.Value]bool{}) {
								ok = true
							}
						}
						if ok {
							// same key on both sides: if the guard looks the record's nonce up in a set built from the parked
							// claims, the set must be keyed by the claim field the executor uses to find the record it settles
							if why := e.parkedSetKeyMismatch(fn, rel, cc, fam); why != "" {
								r.Fail("R7", ck, e.InstrPos(rel), why)
								continue
							}
						}
						r.Check(ok, "R7", ck, e.InstrPos(rel), "the release is guarded by a lookup among the parked claims (0x54): a record whose result was observed is left to that result",
							"records of family 0x"+fam+" are settled only when their parked result is executed ("+via+"), but the timeout sweep releases them without looking at the parked claims: a call already executed on the external chain is refunded as soon as a later event passes its timeout")
					}
				}
				if n == 0 {
					r.Fail("R7", "release(0x"+fam+")", "", "UNRESOLVED-ANCHOR: no timeout release of family 0x"+fam+" found")
				}
			}
		}
	}

}

func flipOp(op string) string {
	switch op {
	case "<":
		return ">"
	case "<=":
		return ">="
	case ">":
		return "<"
	case ">=":
		return "<="
	}
	return op
}

type solReq struct{ file, fn, op, rhs string }

var reSolReq = regexp.MustCompile(`block\.number\s*(<=|<|>=|>)\s*([\w\.]+)`)
var reSolFn = regexp.MustCompile(`function\s+(\w+)\s*\(`)

func (e *Engine) solidityTimeoutRequires() []solReq {
	var out []solReq
	files, _ := filepath.Glob(filepath.Join(e.Repo, "solidity/contracts/bridge/FxBridgeLogic*.sol"))
	for _, f := range files {
		b, err := os.ReadFile(f)
		if err != nil {
			continue
		}
		cur := ""
		for _, line := range strings.Split(string(b), "\n") {
			if i := strings.Index(line, "//"); i >= 0 {
				line = line[:i]
			}
			if m := reSolFn.FindStringSubmatch(line); m != nil {
				cur = m[1]
			}
			if m := reSolReq.FindStringSubmatch(line); m != nil && strings.Contains(strings.ToLower(m[2]), "timeout") {
				out = append(out, solReq{filepath.Base(f), cur, m[1], m[2]})
			}
		}
	}
	return out
}

// dependsOnFamilyRead: the value derives (through lookups, loads of captured/local variables assigned anywhere in fn,
// phis, conversions, calls) from a call that reads the given key family.
func (e *Engine) dependsOnFamilyRead(fn *ssa.Function, v ssa.Value, mod, fam string, depth int, seen map[ssa.Value]bool) bool {
	if v == nil || depth > 10 || seen[v] {
		return false
	}
	seen[v] = true
	switch x := v.(type) {
	case *ssa.Call:
		if e.callDirectOp(x, mod, fam, "get,has,iter") {
			return true
		}
		for _, f := range e.calleesOf(x) {
			if e.HasTransEffect(f, mod, fam, "get,has,iter") {
				return true
			}
		}
		for _, a := range callArgs(x) {
			if e.dependsOnFamilyRead(fn, a, mod, fam, depth+1, seen) {
				return true
			}
		}
	case *ssa.Lookup:
		return e.dependsOnFamilyRead(fn, x.X, mod, fam, depth+1, seen)
	case *ssa.Extract:
		return e.dependsOnFamilyRead(fn, x.Tuple, mod, fam, depth+1, seen)
	case *ssa.UnOp:
		if x.Op == token.MUL {
			// stores to the same variable anywhere in fn (and, for captured variables, in the enclosing function)
			hit := false
			for _, f := range []*ssa.Function{fn, fn.Parent()} {
				if f == nil {
					continue
				}
				allInstrs(f, func(in ssa.Instruction) {
					if st, ok := in.(*ssa.Store); ok && f == fn && st.Addr == x.X {
						if e.dependsOnFamilyRead(fn, st.Val, mod, fam, depth+1, seen) {
							hit = true
						}
					}
				})
			}
			return hit
		}
		return e.dependsOnFamilyRead(fn, x.X, mod, fam, depth+1, seen)
	case *ssa.Phi:
		for _, ed := range x.Edges {
			if e.dependsOnFamilyRead(fn, ed, mod, fam, depth+1, seen) {
				return true
			}
		}
	case *ssa.BinOp:
		return e.dependsOnFamilyRead(fn, x.X, mod, fam, depth+1, seen) || e.dependsOnFamilyRead(fn, x.Y, mod, fam, depth+1, seen)
	case *ssa.Convert:
		return e.dependsOnFamilyRead(fn, x.X, mod, fam, depth+1, seen)
	case *ssa.ChangeType:
		return e.dependsOnFamilyRead(fn, x.X, mod, fam, depth+1, seen)
	}
	return false
}

// parkedSetKeyMismatch: when the release guard is a lookup in a map built from the parked claims, every key inserted
// into that map must be the claim field by which the executor of the parked claim fetches the record (for a bridge-call
// result: the call nonce it refers to, not its own event nonce). "" if consistent or if no such map is involved.
func (e *Engine) parkedSetKeyMismatch(fn *ssa.Function, rel ssa.CallInstruction, mod, fam string) string {
	// executor side: field of the claim used as key of the get(fam) in the settling handler
	execField, claimType := "", ""
	for _, f := range e.Funcs {
		if f.Parent() != nil || isAuxPkg(fnPkgPath(f)) || !e.HasTransEffect(f, mod, fam, "delete") {
			continue
		}
		for _, p := range f.Params {
			tn := namedTypeName(p.Type())
			if !strings.HasSuffix(tn, "Claim") {
				continue
			}
			allCalls(f, func(c ssa.CallInstruction) {
				ok := e.callDirectOp(c, mod, fam, "get")
				if !ok {
					for _, g := range e.calleesOf(c) {
						if e.HasTransEffect(g, mod, fam, "get") && !e.HasTransEffect(g, mod, fam, "delete") {
							ok = true
						}
					}
				}
				if !ok {
					return
				}
				for _, a := range nonCtxArgs(c) {
					if n, st, ok := fieldNameOfLoad(a); ok && namedTypeName(st) == tn {
						execField, claimType = n, tn
					}
				}
			})
		}
	}
	if execField == "" {
		return ""
	}
	// sweep side: the map of the guarding lookup
	var mapVal ssa.Value
	for _, g := range GuardsOf(rel) {
		var find func(v ssa.Value, d int)
		find = func(v ssa.Value, d int) {
			if v == nil || d > 6 || mapVal != nil {
				return
			}
			switch x := v.(type) {
			case *ssa.Lookup:
				if _, ok := x.X.Type().Underlying().(*types.Map); ok {
					mapVal = x.X
				}
			case *ssa.Extract:
				find(x.Tuple, d+1)
			case *ssa.UnOp:
				find(x.X, d+1)
			case *ssa.BinOp:
				find(x.X, d+1)
				find(x.Y, d+1)
			}
		}
		find(g.Cond, 0)
	}
	if mapVal == nil {
		return ""
	}
	mt := mapVal.Type().String()
	// functions that fill a map of that type from the parked claims
	bad := ""
	seenUpd := false
	for _, f := range e.Funcs {
		if isAuxPkg(fnPkgPath(f)) || !e.HasTransEffect(rootFn(f), mod, "54", "get,has,iter") {
			continue
		}
		allInstrs(f, func(i ssa.Instruction) {
			mu, ok := i.(*ssa.MapUpdate)
			if !ok || mu.Map.Type().String() != mt {
				return
			}
			seenUpd = true
			okKey := false
			e.Slice(mu.Key, SliceOpts{MaxDepth: 8}, func(x ssa.Value) Verdict {
				if n, st, ok := fieldName(x); ok && n == execField && namedTypeName(st) == claimType {
					okKey = true
					return Accept
				}
				return Continue
			})
			if !okKey {
				bad = "the set of parked results consulted by the timeout sweep is filled with a key that is not " + shortName(claimType) + "." + execField + " (the field by which the executor finds the record it settles) while the sweep looks records up by their own nonce: the guard never matches and an executed call is still refunded"
			}
		})
	}
	if !seenUpd {
		return ""
	}
	return bad
}

func shortName(tn string) string {
	if i := strings.LastIndex(tn, "."); i >= 0 {
		return tn[i+1:]
	}
	return tn
}
