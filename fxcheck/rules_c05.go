package main

import (
	"fmt"
	"go/token"
	"go/types"
	"strings"

	"golang.org/x/tools/go/ssa"
)

func init() { register("C05", "other", runC05) }

// callReachesExternal: the call's callee (transitively within fx-core) calls an external (dependency) method whose
// name is in names.
func (e *Engine) callReachesExternal(c ssa.CallInstruction, names ...string) bool {
	in := func(n string) bool {
		for _, m := range names {
			if m == n {
				return true
			}
		}
		return false
	}
	cc0 := c.Common()
	if (cc0.IsInvoke() || (cc0.StaticCallee() != nil && !isFx(cc0.StaticCallee()))) && in(callName(c)) && len(e.calleesOf(c)) == 0 {
		return true
	}
	for f := range e.Reach(e.calleesOf(c), nil) {
		hit := false
		allCalls(f, func(x ssa.CallInstruction) {
			if hit {
				return
			}
			xc := x.Common()
			if !in(callName(x)) {
				return
			}
			if xc.IsInvoke() && len(e.Implementers(xc.Value.Type(), xc.Method.Name())) == 0 {
				hit = true
			}
			if f := xc.StaticCallee(); f != nil && !isFx(f) {
				hit = true
			}
		})
		if hit {
			return true
		}
	}
	return false
}

func (e *Engine) calleesOf(c ssa.CallInstruction) []*ssa.Function {
	cc0 := c.Common()
	if cc0.IsInvoke() {
		return e.Implementers(cc0.Value.Type(), cc0.Method.Name())
	}
	if f := cc0.StaticCallee(); f != nil && isFx(f) && f.Blocks != nil {
		return []*ssa.Function{f}
	}
	return nil
}

var creditNames = []string{"SendCoinsFromModuleToAccount", "MintCoins", "SendCoins"}

func runC05(e *Engine, r *Report, tier string) {
	running["C05"]++
	defer func() { running["C05"]-- }()
	r.Explanation = "C05, structural clauses. Decided: R1 sequence counters (0x25…) are written only by the read/+1/write/return-old routine and every record id comes from it; R2 the batch builder removes each selected transfer from the pool (0x18) on every path after selecting it and verifies absence, batch cancel re-adds the batch's own transfers unchanged and deletes the batch (0x20,0x21) on the success path, the executed-batch handler deletes batch and confirmations and never re-adds its transfers; R3 refunds are paired with the deletion of the record on the same success path (pool: delete dominates the refund; bridge call: refund is followed by the delete on every success path and is conditional on failure/timeout); R4 the stored sender must equal the caller-supplied sender before delete and refund, and the refund goes to that sender; R5 a fee increase re-keys the same transfer (delete old key, then set) with fee += the debited amount; R6 record fields come from the creator's parameters; R8 an observed (parked) execution result excludes the timeout refund (C06.R7). Not decided: multi-step histories, amounts inside bank/EVM."
	r.Rule("R1", "ids come from the auto-increment routine; counters written nowhere else", 4, "writers of crosschain:25* + Id/BatchNonce/Nonce stores")
	r.Rule("R2", "pool XOR batch: picked txs removed+verified; cancel re-adds unchanged and deletes batch; executed deletes batch+confirms", 4, "functions writing 0x18/0x20")
	r.Rule("R3", "refund paired with record deletion on the same success path; conditional on failure or timeout", 3, "refund call sites")
	r.Rule("R4", "only the creator cancels: stored sender == supplied sender dominates delete and refund; refund holder is that sender", 2, "pool cancel routine")
	r.Rule("R5", "fee increase: delete old key precedes set; new fee = old + debited amount; id unchanged", 3, "functions deleting then setting 0x18")
	r.Rule("R6", "queued record fields are the creator's parameters", 8, "record constructors")

	// ---------- R7: key encodings of the record families are injective ----------
	r.Rule("R7", "record keys encode their components injectively (no two variable-length parts adjacent)", 8, "key constructors of crosschain:16,18,20,21,22,45,48,49,51,54 and erc20:07")
	for _, fn := range append(append([]*ssa.Function{}, e.Funcs...)) {
		if fn.Parent() != nil || fn.Signature.Recv() != nil || !(strings.HasSuffix(fnPkgPath(fn), "x/crosschain/types") || strings.HasSuffix(fnPkgPath(fn), "x/erc20/types")) {
			continue
		}
		if fn.Signature.Results().Len() != 1 {
			continue
		}
		fam := ""
		for _, b := range fn.Blocks {
			if ret, ok := b.Instrs[len(b.Instrs)-1].(*ssa.Return); ok && len(ret.Results) == 1 {
				for id := range e.KeyFamilies(ret.Results[0]) {
					for _, hx := range []string{"16", "18", "20", "21", "22", "45", "48", "49", "51", "54"} {
						if famMatch(id, cc, hx) {
							fam = id
						}
					}
					if famMatch(id, "erc20", "07") {
						fam = id
					}
				}
			}
		}
		if fam == "" || strings.Contains(fn.Name(), "Parse") {
			continue
		}
		cs, ok := e.keyComponents(fn)
		k := e.FnKey(fn)
		if !ok {
			r.Undecided("R7", k, e.Pos(fn.Pos()), "key constructor shape not recognised: injectivity cannot be decided")
			continue
		}
		if amb := keyAmbiguity(cs); amb != "" {
			r.Fail("R7", k, e.Pos(fn.Pos()), "two different records can get the same store key ("+fam+"): "+amb)
		} else {
			r.Ok("R7", k, e.Pos(fn.Pos()), fmt.Sprintf("%s: %d components", fam, len(cs)))
		}
	}

	// ---------- R1 ----------
	var incFns []*ssa.Function
	for _, f := range e.FuncsWithOp(cc, "25", "set") {
		if isAuxPkg(fnPkgPath(f)) || isGenesisOrUpgrade(f) {
			continue
		}
		incFns = append(incFns, f)
		ck := e.FnKey(f) + " shape"
		// shape: Set(key, enc(x+1)); returns x; x from Get(same key) or const default
		okShape := false
		var why string
		for _, so := range e.Effects(f) {
			if so.Op != "set" {
				continue
			}
			val := so.Instr.Common().Args[len(so.Instr.Common().Args)-1]
			var base ssa.Value
			// the encoded value itself, or what an encoder wrote into the buffer that is stored (PutUint64(buf, x+1))
			cands := []ssa.Value{val}
			if refs := stripConv(val).Referrers(); refs != nil {
				for _, ref := range *refs {
					if c, ok := ref.(ssa.CallInstruction); ok && strings.HasPrefix(callName(c), "PutUint") && Dominates(c, so.Instr) {
						as := c.Common().Args
						if len(as) >= 2 && stripConv(as[len(as)-2]) == stripConv(val) {
							cands = append(cands, as[len(as)-1])
						}
					}
				}
			}
			for _, cand := range cands {
				e.Slice(cand, SliceOpts{MaxDepth: 6}, func(x ssa.Value) Verdict {
					if b, c, ok := plusConst(x); ok && c == 1 {
						base = b
						return Accept
					}
					return Continue
				})
			}
			if base == nil {
				why = "stored value is not <old>+1"
				continue
			}
			// returned value is base
			retOK := false
			for _, b := range f.Blocks {
				if ret, ok := b.Instrs[len(b.Instrs)-1].(*ssa.Return); ok && len(ret.Results) == 1 && ret.Results[0] == base {
					retOK = true
				}
			}
			if !retOK {
				why = "returned id is not the pre-increment value that was stored +1"
				continue
			}
			// base derives from Get(same key)
			fromGet := false
			e.Slice(base, SliceOpts{MaxDepth: 8, ConstLeafOK: true}, func(x ssa.Value) Verdict {
				if c, ok := x.(*ssa.Call); ok && callName(c) == "Get" && len(c.Common().Args) == 1 && c.Common().Args[0] == so.Key {
					fromGet = true
					return Accept
				}
				return Continue
			})
			if !fromGet {
				why = "old value is not read from the same key"
				continue
			}
			okShape = true
		}
		r.Check(okShape, "R1", ck, e.Pos(f.Pos()), "get(k) -> id; set(k, id+1); return id", "sequence routine lost its read/+1/write/return-old shape: "+why)
	}
	if len(incFns) == 0 {
		r.Fail("R1", "family crosschain:25", "", "UNRESOLVED-ANCHOR: no writer of the sequence counters")
	}
	isInc := func(f *ssa.Function) bool {
		for _, g := range incFns {
			if g == f {
				return true
			}
		}
		return false
	}
	// id fields
	idFields := map[string]string{"OutgoingTransferTx.Id": "256c6173745478506f6f6c4964", "OutgoingTxBatch.BatchNonce": "256c61737442617463684964", "OutgoingBridgeCall.Nonce": "2562726964676543616c6c4964"}
	seenField := map[string]bool{}
	for _, fn := range e.Funcs {
		if isAuxPkg(fnPkgPath(fn)) || isGenesisOrUpgrade(fn) || strings.HasSuffix(fnPkgPath(fn), "/types") {
			continue
		}
		allInstrs(fn, func(i ssa.Instruction) {
			st, ok := i.(*ssa.Store)
			if !ok {
				return
			}
			fa, ok := st.Addr.(*ssa.FieldAddr)
			if !ok {
				return
			}
			n, stt, _ := fieldName(fa)
			key := lastDot(namedTypeName(stt)) + "." + n
			wantFam, ok := idFields[key]
			if !ok {
				return
			}
			seenField[key] = true
			ck := e.FnKey(fn) + " " + key
			famOK := false
			res := e.Slice(st.Val, SliceOpts{MaxDepth: 12, IntoCallers: true}, func(x ssa.Value) Verdict {
				if c, ok := x.(*ssa.Call); ok {
					if f := c.Common().StaticCallee(); f != nil && isInc(f) {
						for _, a := range c.Common().Args {
							for id := range e.KeyFamilies(a) {
								if famMatch(id, cc, wantFam) {
									famOK = true
								}
							}
						}
						return Accept
					}
				}
				return Continue
			})
			if !res.AllAccepted() {
				d := ""
				for _, l := range res.Leaves {
					d += e.Describe(l) + "; "
				}
				r.Fail("R1", ck, e.InstrPos(i), "record id does not (only) come from the auto-increment routine: "+d)
			} else if !famOK {
				r.Fail("R1", ck, e.InstrPos(i), "record id comes from a counter of another kind (ids of different record kinds would share a sequence or collide)")
			} else {
				r.Ok("R1", ck, e.InstrPos(i), "id <- auto-increment("+wantFam+")")
			}
		})
	}
	for k := range idFields {
		if !seenField[k] {
			r.Fail("R1", k, "", "UNRESOLVED-ANCHOR: no construction site assigns "+k)
		}
	}

	// ---------- R2 ----------
	n2 := 0
	var cancelFns []*ssa.Function
	for _, fn := range e.Funcs {
		if isAuxPkg(fnPkgPath(fn)) || isGenesisOrUpgrade(fn) {
			continue
		}
		// (a) picker: a function that appends a pool tx (iterated from 0x18) to a slice and calls delete(0x18)
		var delCalls, setCalls, del20, set20 []ssa.CallInstruction
		allCalls(fn, func(c ssa.CallInstruction) {
			if e.callDirectOp(c, cc, "18", "delete") {
				delCalls = append(delCalls, c)
			}
			if e.callDirectOp(c, cc, "18", "set") {
				setCalls = append(setCalls, c)
			}
			if e.callDirectOp(c, cc, "20", "delete") {
				del20 = append(del20, c)
			}
			if e.callDirectOp(c, cc, "20", "set") {
				set20 = append(set20, c)
			}
		})
		// picker closure: has delete(0x18), no set(0x18), and stores into a captured slice (append of its tx param)
		if len(delCalls) > 0 && len(setCalls) == 0 && fn.Parent() != nil && len(fn.Params) == 1 {
			var appendStore ssa.Instruction
			allInstrs(fn, func(i ssa.Instruction) {
				if st, ok := i.(*ssa.Store); ok {
					if _, isFree := st.Addr.(*ssa.FreeVar); isFree {
						if c, ok := st.Val.(*ssa.Call); ok {
							if b, ok := c.Common().Value.(*ssa.Builtin); ok && b.Name() == "append" {
								appendStore = i
							}
						}
					}
				}
			})
			if appendStore != nil {
				n2++
				ck := e.FnKey(fn) + " pick"
				tx := fn.Params[0]
				// every path from the append to a return calls delete(0x18) keyed by tx.Fee/tx.Id
				isDel := func(i ssa.Instruction) bool {
					c, ok := i.(ssa.CallInstruction)
					if !ok || !e.callDirectOp(c, cc, "18", "delete") {
						return false
					}
					okArgs := 0
					for _, a := range c.Common().Args {
						if stripConv(a) == ssa.Value(tx) {
							return true // the record itself is handed over: fee and id are both its own
						}
						res := e.Slice(a, SliceOpts{MaxDepth: 5}, func(x ssa.Value) Verdict {
							if x == ssa.Value(tx) {
								return Accept
							}
							return Continue
						})
						if res.AllAccepted() {
							okArgs++
						}
					}
					return okArgs >= 2
				}
				off := ReachAvoiding(fn, appendStore, func(i ssa.Instruction) bool { _, ok := i.(*ssa.Return); return ok }, isDel)
				if off != nil {
					// the other order: the pool entry is deleted first and then, unless that delete failed, the transfer is
					// always taken into the selection
					var delFirst ssa.CallInstruction
					for _, d := range delCalls {
						if isDel(d) && Dominates(d, appendStore) {
							delFirst = d
						}
					}
					if delFirst != nil {
						// is the error test of the delete: returns (isTest, successor index taken when the delete succeeded)
						delErrTest := func(iff *ssa.If) (bool, int) {
							bo, ok := iff.Cond.(*ssa.BinOp)
							if !ok || !(isNilConst(bo.X) || isNilConst(bo.Y)) {
								return false, 0
							}
							v, ok := delFirst.(ssa.Value)
							if !ok {
								return false, 0
							}
							match := false
							for _, side := range []ssa.Value{bo.X, bo.Y} {
								if side == v {
									match = true
								}
								if ld, ok := side.(*ssa.UnOp); ok && v.Referrers() != nil {
									for _, ref := range *v.Referrers() {
										if st, ok := ref.(*ssa.Store); ok && st.Addr == ld.X {
											match = true
										}
									}
								}
							}
							if !match {
								return false, 0
							}
							if bo.Op.String() == "!=" {
								return true, 1 // err != nil: success continues on the false edge
							}
							return true, 0
						}
						var lost ssa.Instruction
						seenBlk := map[*ssa.BasicBlock]bool{}
						var walk func(b *ssa.BasicBlock, from int)
						walk = func(b *ssa.BasicBlock, from int) {
							if lost != nil {
								return
							}
							for k := from; k < len(b.Instrs); k++ {
								in := b.Instrs[k]
								if in == appendStore {
									return
								}
								switch t := in.(type) {
								case *ssa.Return:
									lost = t
									return
								case *ssa.Panic:
									return
								case *ssa.If:
									if is, okSucc := delErrTest(t); is {
										nb := b.Succs[okSucc]
										if !seenBlk[nb] {
											seenBlk[nb] = true
											walk(nb, 0)
										}
										return
									}
								}
							}
							for _, nb := range b.Succs {
								if !seenBlk[nb] {
									seenBlk[nb] = true
									walk(nb, 0)
								}
							}
						}
						walk(delFirst.Block(), instrIndex(delFirst)+1)
						if lost == nil {
							off = nil
						} else {
							r.Fail("R2", ck, e.InstrPos(lost), "a transfer can be deleted from the pool without being taken into the batch (e.g. when the batch is already full): it is then in no pool and no batch, and can be neither cancelled nor executed")
							continue
						}
					}
				}
				if off != nil {
					r.Fail("R2", ck, e.InstrPos(off), "a selected transfer can stay in the pool: some path from selection to return does not delete its pool entry (it would be in the pool and in a batch)")
				} else {
					// verify-absent read after delete
					hasVerify := false
					for _, d := range delCalls {
						allCalls(fn, func(c ssa.CallInstruction) {
							if e.callDirectOp(c, cc, "18", "get,has") && !e.callDirectOp(c, cc, "18", "delete") && Dominates(d, c) {
								hasVerify = true
							}
						})
					}
					r.Check(hasVerify, "R2", ck, e.InstrPos(appendStore), "delete(0x18) on every path after selection + verify-absent read", "pool entry is deleted but its absence is no longer verified (duplicate index entries would go unnoticed)")
				}
			}
		}
		if fn.Parent() != nil {
			continue
		}
		// (b) cancel: set(0x18) + delete(0x20)
		if len(setCalls) > 0 && len(del20) > 0 {
			cancelFns = append(cancelFns, fn)
			n2++
			ck := e.FnKey(fn) + " cancel"
			okAll := true
			for _, sc := range setCalls {
				// arg is an element of <batch>.Transactions where batch is read from 0x20
				var txArg ssa.Value
				for _, a := range sc.Common().Args {
					if strings.HasSuffix(a.Type().String(), "OutgoingTransferTx") {
						txArg = a
					}
				}
				res := e.Slice(txArg, SliceOpts{MaxDepth: 10}, func(x ssa.Value) Verdict {
					if n, _, ok := fieldName(x); ok && n == "Transactions" {
						var base ssa.Value
						if fa, ok := x.(*ssa.FieldAddr); ok {
							base = fa.X
						} else if f, ok := x.(*ssa.Field); ok {
							base = f.X
						}
						if _, ok := e.valueReadsFamily(base, cc, "20"); ok {
							return Accept
						}
						return Reject
					}
					return Continue
				})
				if !res.AllAccepted() {
					okAll = false
					r.Fail("R2", ck, e.InstrPos(sc), "transfer re-added to the pool is not an element of the stored batch's own Transactions")
				}
			}
			// unchanged: no store into fields of OutgoingTransferTx / ERC20Token in this function
			allInstrs(fn, func(i ssa.Instruction) {
				if st, ok := i.(*ssa.Store); ok {
					if fa, ok := st.Addr.(*ssa.FieldAddr); ok {
						_, stt, _ := fieldName(fa)
						tn := namedTypeName(stt)
						if strings.HasSuffix(tn, "OutgoingTransferTx") || strings.HasSuffix(tn, "types.ERC20Token") {
							okAll = false
							r.Fail("R2", ck, e.InstrPos(i), "a transfer is modified while its batch is cancelled (must return to the pool unchanged)")
						}
					}
				}
			})
			// delete(0x20) on every success path
			if ret := MustPassThrough(fn, nil, func(i ssa.Instruction) bool {
				c, ok := i.(ssa.CallInstruction)
				return ok && e.callDirectOp(c, cc, "20", "delete") && e.callDirectOp(c, cc, "21", "delete")
			}); ret != nil {
				okAll = false
				r.Fail("R2", ck, e.InstrPos(ret), "a success return leaves the cancelled batch (0x20/0x21) in the store: its transfers would be in the pool and in the batch")
			}
			// the re-add loop covers all transactions: set call inside a loop over Transactions — accepted by provenance above
			if okAll {
				r.Ok("R2", ck, e.Pos(fn.Pos()), "re-adds the stored batch's own transfers unchanged; deletes 0x20+0x21 on every success path")
			}
		}
		// (c) executed: delete(0x20) without set(0x18), not cancel
		if len(del20) > 0 && len(setCalls) == 0 && len(set20) == 0 {
			// must be a handler of an executed batch: has a call to cancel routine or delete confirm
			del22 := false
			allCalls(fn, func(c ssa.CallInstruction) {
				if e.callDirectOp(c, cc, "22", "iter,delete") {
					del22 = true
				}
			})
			// skip pure deleter helper (the function that directly deletes)
			direct := false
			for _, so := range e.Effects(fn) {
				if so.Op == "delete" {
					direct = true
				}
			}
			if direct {
				continue
			}
			n2++
			ck := e.FnKey(fn) + " executed"
			r.Check(del22, "R2", ck, e.Pos(fn.Pos()), "deletes batch and its confirmations, never re-adds its transfers", "executed batch is deleted without deleting its confirmations (0x22)")
		}
		// (d) builder: set(0x20) with Transactions <- picker result
		if len(set20) > 0 {
			direct := false
			for _, so := range e.Effects(fn) {
				if so.Op == "set" {
					direct = true
				}
			}
			if !direct {
				n2++
				ck := e.FnKey(fn) + " build"
				// find store to field Transactions
				okT := false
				allInstrs(fn, func(i ssa.Instruction) {
					st, ok := i.(*ssa.Store)
					if !ok {
						return
					}
					fa, ok := st.Addr.(*ssa.FieldAddr)
					if !ok {
						return
					}
					if n, _, _ := fieldName(fa); n != "Transactions" {
						return
					}
					res := e.Slice(st.Val, SliceOpts{MaxDepth: 6}, func(x ssa.Value) Verdict {
						if c, ok := x.(*ssa.Call); ok {
							for _, f := range e.calleesOf(c) {
								for g := range e.Reach([]*ssa.Function{f}, nil) {
									for _, so := range e.Effects(g) {
										if so.Op == "delete" && so.Fams[cc+":18"] {
											return Accept
										}
									}
								}
							}
							return Reject
						}
						return Continue
					})
					if res.AllAccepted() {
						okT = true
					}
				})
				r.Check(okT, "R2", ck, e.Pos(fn.Pos()), "batch embeds exactly the transfers returned by the pool picker (which deletes them)", "batch Transactions do not come from the routine that removes them from the pool")
			}
		}
	}
	if n2 < 3 {
		r.Fail("R2", "anchors", "", fmt.Sprintf("UNRESOLVED-ANCHOR: only %d of picker/cancel/executed/builder found", n2))
	}
	// (e) cancel-target: the batch handed to the cancel routine is the batch that the dominating decision was about —
	// the one on the lower side of `older.BatchNonce < executed.BatchNonce`, or the one whose own BatchTimeout was tested.
	for _, cf := range cancelFns {
		for _, cs := range e.CallSites(cf) {
			if isAuxPkg(fnPkgPath(cs.Caller)) {
				continue
			}
			var nonceArg ssa.Value
			for _, a := range nonCtxArgs(cs.Call) {
				if b, ok := a.Type().Underlying().(*types.Basic); ok && b.Kind() == types.Uint64 {
					nonceArg = a
				}
			}
			ck := e.FnKey(cs.Caller) + " -> " + e.FnKey(cf) + " target"
			if nonceArg == nil {
				r.Undecided("R2", ck, e.InstrPos(cs.Call), "no nonce argument found at the cancel call")
				continue
			}
			nk := vkey(nonceArg, 0)
			verdict, why := 0, ""
			for _, g := range GuardsOf(cs.Call) {
				ci, ok := NormCond(g)
				if !ok || ci.X == nil || ci.Y == nil {
					continue
				}
				lo, hi := ci.X, ci.Y
				switch ci.Op {
				case "<", "<=":
				case ">", ">=":
					lo, hi = hi, lo
				default:
					continue
				}
				lk, hk := vkey(lo, 0), vkey(hi, 0)
				switch {
				case strings.HasSuffix(lk, ".BatchNonce") && strings.HasSuffix(hk, ".BatchNonce"):
					if nk == lk {
						verdict, why = 1, "cancels the batch whose nonce is below the executed batch's ("+lk+" < "+hk+")"
					} else if verdict == 0 {
						verdict, why = -1, "the decision is `"+lk+" < "+hk+"` but the batch cancelled is "+nk+": the executed batch itself (or an unrelated one) returns to the pool although it was paid out"
					}
				case strings.HasSuffix(lk, ".BatchTimeout") || strings.HasSuffix(hk, ".BatchTimeout"):
					tk := lk
					if !strings.HasSuffix(tk, ".BatchTimeout") {
						tk = hk
					}
					if nk == strings.TrimSuffix(tk, ".BatchTimeout")+".BatchNonce" {
						verdict, why = 1, "cancels the batch whose own timeout was tested ("+tk+")"
					} else if verdict == 0 {
						verdict, why = -1, "the decision tests "+tk+" but the batch cancelled is "+nk
					}
				}
			}
			switch verdict {
			case 1:
				r.Ok("R2", ck, e.InstrPos(cs.Call), why)
			case -1:
				r.Fail("R2", ck, e.InstrPos(cs.Call), why)
			default:
				r.Fail("R2", ck, e.InstrPos(cs.Call), "the cancel call is not guarded by a decision about the batch it cancels (older than the executed one, or timed out)")
			}
		}
	}

	// ---------- R3 / R4: pool cancel ----------
	for _, fn := range e.Funcs {
		if isAuxPkg(fnPkgPath(fn)) || fn.Parent() != nil {
			continue
		}
		var del ssa.CallInstruction
		var credit ssa.CallInstruction
		hasSet := false
		allCalls(fn, func(c ssa.CallInstruction) {
			if e.callDirectOp(c, cc, "18", "delete") && del == nil {
				del = c
			}
			if e.callDirectOp(c, cc, "18", "set") {
				hasSet = true
			}
		})
		if del == nil || hasSet {
			continue
		}
		allCalls(fn, func(c ssa.CallInstruction) {
			if c != del && credit == nil && len(e.calleesOf(c)) > 0 && e.callReachesExternal(c, creditNames...) {
				credit = c
			}
		})
		if credit == nil {
			continue
		}
		ck := e.FnKey(fn)
		r.Check(Dominates(del, credit), "R3", ck+" pool-refund", e.InstrPos(credit), "delete(0x18) dominates the refund", "refund can be paid without the pool entry having been deleted (double refund)")
		// delete error propagates: the delete call's error result guards
		// R4: sender equality guard
		var senderPar *ssa.Parameter
		for _, p := range fn.Params {
			if strings.HasSuffix(p.Type().String(), "AccAddress") {
				senderPar = p
			}
		}
		okEq := false
		for _, g := range GuardsOf(del) {
			ci, ok := NormCond(g)
			if !ok || ci.Op != "==" || ci.X == nil || ci.Y == nil {
				continue
			}
			for _, pr := range [][2]ssa.Value{{ci.X, ci.Y}, {ci.Y, ci.X}} {
				if senderPar != nil && stripConv(pr[1]) == ssa.Value(senderPar) {
					res := e.Slice(pr[0], SliceOpts{MaxDepth: 6}, func(x ssa.Value) Verdict {
						if n, _, ok := fieldName(x); ok && n == "Sender" {
							return Accept
						}
						if c, ok := x.(*ssa.Call); ok && callName(c) == "GetSender" {
							return Accept
						}
						return Continue
					})
					if res.AllAccepted() && BranchFailsClean(g.If, !g.Pol, func(i ssa.Instruction) bool { return e.EffectOf(i) != "" }) {
						okEq = true
					}
				}
			}
		}
		r.Check(okEq, "R4", ck+" sender-check", e.InstrPos(del), "record.Sender == supplied sender (else error) dominates delete and refund", "pool entry can be cancelled without the stored sender being equal to the caller-supplied sender")
		// refund holder = sender param
		okHolder := false
		for _, a := range credit.Common().Args {
			if senderPar != nil && stripConv(a) == ssa.Value(senderPar) {
				okHolder = true
			}
		}
		r.Check(okHolder, "R4", ck+" refund-holder", e.InstrPos(credit), "refund credited to the checked sender", "refund is credited to an account other than the checked sender")
		// R3 amount: token+fee
		okAmt := false
		for _, a := range credit.Common().Args {
			if c, ok := a.(*ssa.Call); ok && callName(c) == "Add" {
				names := map[string]bool{}
				for _, x := range callArgs(c) {
					e.Slice(x, SliceOpts{MaxDepth: 6}, func(y ssa.Value) Verdict {
						if n, _, ok := fieldName(y); ok && (n == "Token" || n == "Fee") {
							names[n] = true
							return Accept
						}
						return Continue
					})
				}
				if names["Token"] && names["Fee"] {
					okAmt = true
				}
			}
		}
		r.Check(okAmt, "R3", ck+" refund-amount", e.InstrPos(credit), "refund amount = record.Token.Amount + record.Fee.Amount", "refund amount is not the record's token amount plus fee")
	}

	// ---------- R3: bridge call refunds ----------
	var bcRefunders []*ssa.Function
	for _, fn := range e.Funcs {
		if isAuxPkg(fnPkgPath(fn)) || fn.Parent() != nil {
			continue
		}
		takes := false
		for _, p := range fn.Params {
			if strings.HasSuffix(p.Type().String(), "types.OutgoingBridgeCall") {
				takes = true
			}
		}
		if !takes {
			continue
		}
		credits := false
		allCalls(fn, func(c ssa.CallInstruction) {
			if e.callReachesExternal(c, creditNames...) {
				credits = true
			}
		})
		if credits {
			bcRefunders = append(bcRefunders, fn)
		}
	}
	if len(bcRefunders) == 0 {
		r.Fail("R3", "bridge-call-refund", "", "UNRESOLVED-ANCHOR: no function refunds an OutgoingBridgeCall")
	}
	for _, rf := range bcRefunders {
		for _, cs := range e.CallSites(rf) {
			if isAuxPkg(fnPkgPath(cs.Caller)) {
				continue
			}
			C := cs.Caller
			ck := e.FnKey(C) + " -> " + e.FnKey(rf)
			// followed by delete(0x48) on every path to return — or the refund routine itself deletes the record on every
			// one of its success paths (the delete may live on either side of the call)
			delPred := func(i ssa.Instruction) bool {
				c, ok := i.(ssa.CallInstruction)
				if !ok {
					return false
				}
				if e.callDirectOp(c, cc, "48", "delete") {
					return true
				}
				for _, f := range e.calleesOf(c) {
					if e.HasTransEffect(f, cc, "48", "delete") {
						return true
					}
				}
				return false
			}
			if e.HasTransEffect(rf, cc, "48", "delete") && MustPassThrough(rf, nil, delPred) == nil {
				r.Ok("R3", ck, e.InstrPos(cs.Call), "the refund routine deletes the outgoing bridge call on every success path")
				continue
			}
			off := ReachAvoiding(C, cs.Call, func(i ssa.Instruction) bool { _, ok := i.(*ssa.Return); return ok }, func(i ssa.Instruction) bool {
				c, ok := i.(ssa.CallInstruction)
				if !ok {
					return false
				}
				for _, f := range e.calleesOf(c) {
					if e.HasTransEffect(f, cc, "48", "delete") {
						return true
					}
				}
				return false
			})
			if off != nil {
				r.Fail("R3", ck, e.InstrPos(off), "after the refund a path returns without deleting the outgoing bridge call (0x48): it could be refunded again or still be confirmed/executed")
				continue
			}
			// conditional: guarded by !Success or by a timeout decision (C06.R2)
			cond := false
			for _, g := range GuardsOf(cs.Call) {
				ci, ok := NormCond(g)
				if !ok {
					continue
				}
				if ci.Op == "false" || ci.Op == "true" {
					if n, _, ok2 := fieldNameOfLoad(ci.X); ok2 && n == "Success" && ci.Op == "false" {
						cond = true
					}
				}
				if ci.X != nil && ci.Y != nil {
					if _, ok := e.isRecordTimeout(ci.X); ok {
						cond = true
					}
					if _, ok := e.isRecordTimeout(ci.Y); ok {
						cond = true
					}
				}
			}
			r.Check(cond, "R3", ck, e.InstrPos(cs.Call), "refund conditional on `!Success` or on the timeout decision; record deleted on every path after it", "outgoing bridge call is refunded unconditionally (an executed call would also be refunded)")
		}
	}
	// Success path deletes without refund: in the result handler the delete must be on every path to return
	for _, fn := range e.Funcs {
		if isAuxPkg(fnPkgPath(fn)) || fn.Parent() != nil {
			continue
		}
		isResult := false
		for _, p := range fn.Params {
			if strings.HasSuffix(p.Type().String(), "MsgBridgeCallResultClaim") {
				isResult = true
			}
		}
		if !isResult || !e.HasTransEffect(fn, cc, "48", "delete") || strings.HasSuffix(fnPkgPath(fn), "/types") {
			continue
		}
		direct := false
		allCalls(fn, func(c ssa.CallInstruction) {
			for _, f := range e.calleesOf(c) {
				if e.HasTransEffect(f, cc, "48", "delete") {
					direct = true
				}
			}
		})
		if !direct {
			continue
		}
		ck := e.FnKey(fn) + " result"
		off := MustPassThrough(fn, nil, func(i ssa.Instruction) bool {
			c, ok := i.(ssa.CallInstruction)
			if !ok {
				return false
			}
			for _, f := range e.calleesOf(c) {
				if e.HasTransEffect(f, cc, "48", "delete") {
					return true
				}
			}
			return false
		})
		// only meaningful for the leaf handler (one that looks the call up)
		reads := false
		allCalls(fn, func(c ssa.CallInstruction) {
			if e.callDirectOp(c, cc, "48", "get") {
				reads = true
			}
		})
		if reads {
			r.Check(off == nil, "R3", ck, e.Pos(fn.Pos()), "observed result always deletes the outgoing bridge call (settled once)", "a bridge-call result can be observed without the record being deleted")
		}
	}

	// ---------- R5 fee increase ----------
	for _, fn := range e.Funcs {
		if isAuxPkg(fnPkgPath(fn)) || fn.Parent() != nil {
			continue
		}
		var del, set ssa.CallInstruction
		allCalls(fn, func(c ssa.CallInstruction) {
			if e.callDirectOp(c, cc, "18", "delete") && del == nil {
				del = c
			}
			if e.callDirectOp(c, cc, "18", "set") && set == nil {
				set = c
			}
		})
		if del == nil || set == nil {
			continue
		}
		// exclude cancel routine (deletes 0x20)
		if e.HasTransEffect(fn, cc, "20", "delete") {
			continue
		}
		ck := e.FnKey(fn)
		r.Check(Dominates(del, set), "R5", ck+" order", e.InstrPos(set), "delete(old key) dominates set(new key)", "the transfer is re-added before its old pool key is removed (two pool entries for one id)")
		// fee store: tx.Fee.Amount = old.Add(x)
		var feeStore *ssa.Store
		var idStore ssa.Instruction
		allInstrs(fn, func(i ssa.Instruction) {
			st, ok := i.(*ssa.Store)
			if !ok {
				return
			}
			fa, ok := st.Addr.(*ssa.FieldAddr)
			if !ok {
				return
			}
			n, stt, _ := fieldName(fa)
			if n == "Amount" && strings.HasSuffix(namedTypeName(stt), "ERC20Token") {
				feeStore = st
			}
			if (n == "Id" || n == "Sender" || n == "DestAddress" || n == "Token") && strings.HasSuffix(namedTypeName(stt), "OutgoingTransferTx") {
				idStore = i
			}
		})
		// the record that is re-added is the very record that was read from the pool (not a rebuilt one)
		rebuilt := false
		for _, a := range set.Common().Args {
			if !strings.HasSuffix(a.Type().String(), "OutgoingTransferTx") {
				continue
			}
			fromPool := false
			e.Slice(a, SliceOpts{MaxDepth: 8}, func(x ssa.Value) Verdict {
				if c2, ok := x.(*ssa.Call); ok {
					if e.callDirectOp(c2, cc, "18", "get,iter") {
						fromPool = true
						return Accept
					}
					for _, f := range e.calleesOf(c2) {
						if e.HasTransEffect(f, cc, "18", "get,iter") {
							fromPool = true
							return Accept
						}
					}
				}
				return Continue
			})
			if !fromPool {
				rebuilt = true
			}
		}
		if rebuilt {
			r.Fail("R5", ck+" identity", e.InstrPos(set), "the fee increase re-adds a rebuilt record instead of the record read from the pool: its sender / destination / token are whatever the rebuilding code puts there (e.g. the fee payer becomes the owner and can cancel the transfer)")
		} else if idStore != nil {
			r.Fail("R5", ck+" identity", e.InstrPos(idStore), "fee increase modifies the transfer's id/sender/destination/token")
		} else {
			r.Ok("R5", ck+" identity", e.Pos(fn.Pos()), "id, sender, destination, token untouched")
		}
		if feeStore == nil {
			r.Fail("R5", ck+" amount", e.Pos(fn.Pos()), "no fee update found (anchor unresolved)")
			continue
		}
		addc, ok := feeStore.Val.(*ssa.Call)
		var inc ssa.Value
		if ok && callName(addc) == "Add" {
			a := callArgs(addc)
			if len(a) == 2 {
				inc = a[1]
			}
		}
		var incPar *ssa.Parameter
		if inc != nil {
			e.Slice(inc, SliceOpts{MaxDepth: 5}, func(x ssa.Value) Verdict {
				if p, ok := x.(*ssa.Parameter); ok {
					incPar = p
					return Accept
				}
				return Continue
			})
		}
		if incPar == nil {
			r.Fail("R5", ck+" amount", e.InstrPos(feeStore), "new fee is not old fee + a caller-supplied amount")
			continue
		}
		// bank debit uses the same parameter and Dominates the set
		// (directly, or through a routine of this module that is handed the amount and debits it)
		var debits func(f *ssa.Function, amt ssa.Value, depth int) bool
		debits = func(f *ssa.Function, amt ssa.Value, depth int) bool {
			found := false
			allCalls(f, func(c ssa.CallInstruction) {
				if found {
					return
				}
				callee := c.Common().StaticCallee()
				for ai, a := range c.Common().Args {
					ts := a.Type().String()
					if !strings.Contains(ts, "Coin") {
						continue
					}
					res := e.Slice(a, SliceOpts{MaxDepth: 8}, func(x ssa.Value) Verdict {
						if x == amt {
							return Accept
						}
						return Continue
					})
					if !res.AllAccepted() {
						continue
					}
					if callName(c) == "SendCoinsFromAccountToModule" && strings.Contains(ts, "Coins") {
						found = true
						return
					}
					if depth > 0 && callee != nil && isFx(callee) && !c.Common().IsInvoke() && ai < len(callee.Params) && len(callee.Blocks) > 0 {
						if debits(callee, callee.Params[ai], depth-1) {
							found = true
							return
						}
					}
				}
			})
			return found
		}
		debitOK := debits(fn, incPar, 2)
		r.Check(debitOK, "R5", ck+" amount", e.InstrPos(feeStore), "fee += "+incPar.Name()+" and the same "+incPar.Name()+" is debited from the payer", "the amount added to the fee is not the amount debited from the payer")
		// same token: the record's fee contract equals the contract of the denom being paid (mismatch -> error)
		okTok := false
		for _, g := range GuardsOf(set) {
			ci, ok := NormCond(g)
			if !ok || ci.Op != "==" || ci.X == nil || ci.Y == nil {
				continue
			}
			for _, pr := range [][2]ssa.Value{{ci.X, ci.Y}, {ci.Y, ci.X}} {
				isRecContract := false
				if n, st, ok := fieldNameOfLoad(pr[0]); ok && n == "Contract" && strings.HasSuffix(namedTypeName(st), "ERC20Token") {
					isRecContract = true
				}
				if !isRecContract {
					continue
				}
				// other side: contract looked up (family 0x60) from the paid coin's denom
				res := e.Slice(pr[1], SliceOpts{MaxDepth: 6}, func(x ssa.Value) Verdict {
					if c, ok := x.(*ssa.Call); ok && e.callDirectOp(c, cc, "60", "get") {
						for _, a := range c.Common().Args {
							in := e.Slice(a, SliceOpts{MaxDepth: 5}, func(y ssa.Value) Verdict {
								if y == ssa.Value(incPar) {
									return Accept
								}
								return Continue
							})
							if in.AllAccepted() {
								return Accept
							}
						}
						return Reject
					}
					return Continue
				})
				if res.AllAccepted() && BranchFailsClean(g.If, !g.Pol, func(i ssa.Instruction) bool { return e.EffectOf(i) != "" }) {
					okTok = true
				}
			}
		}
		r.Check(okTok, "R5", ck+" same-token", e.InstrPos(set), "record.Fee.Contract == contract of the paid denom (else error) dominates the re-add", "the fee can be raised with a coin of a different token than the transfer's fee token: the payer is debited one token and the fee grows in another")
	}

	// ---------- R8: an observed execution excludes the timeout refund (decided as C06.R7) ----------
	r.Rule("R8", "a record whose observed result is parked is not refunded for timeout (C06.R7)", 1, "C06 obligations")
	r.Rule("R9", "what is queued is what was collected: no amount is written into a struct copy that nobody reads, no result of immutable arithmetic is dropped (x/crosschain)", 2, "")
	e.ruleLostStructWrites(r, "R9", "/x/crosschain")
	e.ruleDiscardedArithmetic(r, "R9", "/x/crosschain")
	{
		sub06 := NewReport("C06", "other")
		runC06(e, sub06, tier)
		for _, o := range sub06.Obls {
			if o.Rule == "R7" {
				r.add("R8", "C06.R7 "+o.Construct, o.Status, o.Pos, o.Detail)
			}
		}
	}

	// ---------- R6 record field provenance ----------
	type spec struct {
		typ    string
		fields map[string]string // record field -> kind of expected parameter type substring
	}
	specs := []spec{
		{"OutgoingTransferTx", map[string]string{"Sender": "AccAddress", "DestAddress": "string", "Token": "Coin", "Fee": "Coin"}},
		{"OutgoingBridgeCall", map[string]string{"Sender": "Address", "Refund": "Address", "Tokens": "ERC20Token", "To": "Address", "Data": "[]byte", "Memo": "[]byte"}},
	}
	for _, sp := range specs {
		for _, fn := range e.Funcs {
			if isAuxPkg(fnPkgPath(fn)) || isGenesisOrUpgrade(fn) || strings.HasSuffix(fnPkgPath(fn), "/types") {
				continue
			}
			used := map[*ssa.Parameter]string{}
			allInstrs(fn, func(i ssa.Instruction) {
				st, ok := i.(*ssa.Store)
				if !ok {
					return
				}
				fa, ok := st.Addr.(*ssa.FieldAddr)
				if !ok {
					return
				}
				n, stt, _ := fieldName(fa)
				if !strings.HasSuffix(namedTypeName(stt), "types."+sp.typ) {
					return
				}
				want, ok := sp.fields[n]
				if !ok {
					return
				}
				if _, isAlloc := fa.X.(*ssa.Alloc); !isAlloc {
					return // only constructors (composite literals)
				}
				ck := e.FnKey(fn) + " " + sp.typ + "." + n
				var pars []*ssa.Parameter
				res := e.Slice(st.Val, SliceOpts{MaxDepth: 8, ConstLeafOK: true}, func(x ssa.Value) Verdict {
					if p, ok := x.(*ssa.Parameter); ok {
						if strings.Contains(p.Type().String(), "Context") || paramIndex(p) == 0 && fn.Signature.Recv() != nil {
							return Continue
						}
						pars = append(pars, p)
						return Accept
					}
					if c, ok := x.(*ssa.Call); ok {
						// helper conversions: follow args
						_ = c
					}
					return Continue
				})
				// accept leaves that are the module name field / token contract lookups for Token/Fee
				var mine *ssa.Parameter
				for _, p := range pars {
					if strings.Contains(p.Type().String(), want) {
						mine = p
					}
				}
				if mine == nil {
					d := ""
					for _, l := range res.Leaves {
						d += e.Describe(l) + "; "
					}
					r.Fail("R6", ck, e.InstrPos(i), "field does not derive from a creator-supplied parameter of the expected kind ("+want+"): "+d)
					return
				}
				if prev, dup := used[mine]; dup && prev != n {
					r.Fail("R6", ck, e.InstrPos(i), "fields "+prev+" and "+n+" are filled from the same parameter "+mine.Name())
					return
				}
				used[mine] = n
				r.Ok("R6", ck, e.InstrPos(i), n+" <- parameter "+mine.Name())
			})
		}
	}
	_ = token.ADD
	_ = types.Typ
}

func fieldNameOfLoad(v ssa.Value) (string, types.Type, bool) {
	if u, ok := v.(*ssa.UnOp); ok {
		v = u.X
	}
	return fieldName(v)
}


// running counts the property checks currently on the stack (checks import each other's obligations as sub-reports; a
// cycle of imports is cut where it would close).
var running = map[string]int{}
