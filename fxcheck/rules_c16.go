package main

import (
	"fmt"
	"go/types"
	"strings"

	"golang.org/x/tools/go/ssa"
)

func init() { register("C16", "proof", runC16) }

// authGuard describes the authority comparison found in a handler.
type authGuard struct {
	If        *ssa.If
	MatchPol  bool      // polarity of the branch on which authority matched
	KeeperVal ssa.Value // the keeper-side operand
}

// isReqAuthority: v is (a load of) req.Authority where req is the handler's request parameter.
func isReqField(v ssa.Value, req *ssa.Parameter, field string) bool {
	// loss-free decodings of the textual field: bech32 -> account bytes (a truncating conversion such as
	// common.BytesToAddress is deliberately not looked through)
	for i := 0; i < 3; i++ {
		v = stripConv(v)
		if ex, ok := v.(*ssa.Extract); ok && ex.Index == 0 {
			if c, ok := ex.Tuple.(*ssa.Call); ok && callName(c) == "AccAddressFromBech32" && len(c.Call.Args) == 1 {
				v = c.Call.Args[0]
				continue
			}
		}
		if c, ok := v.(*ssa.Call); ok && callName(c) == "MustAccAddressFromBech32" && len(c.Call.Args) == 1 {
			v = c.Call.Args[0]
			continue
		}
		break
	}
	if u, ok := v.(*ssa.UnOp); ok {
		v = u.X
	}
	switch x := v.(type) {
	case *ssa.FieldAddr:
		n, _, _ := fieldName(x)
		return n == field && x.X == req
	case *ssa.Call:
		// req.GetAuthority()
		if callName(x) == "Get"+field {
			a := callArgs(x)
			return len(a) > 0 && a[0] == req
		}
	}
	return false
}

// keeperAuthority: v is a load of a field named "authority" reachable from the receiver, or a GetAuthority() call (optionally .String()).
func (e *Engine) keeperAuthority(v ssa.Value, recv *ssa.Parameter) bool {
	res := e.Slice(v, SliceOpts{MaxDepth: 8, ConstLeafOK: false}, func(x ssa.Value) Verdict {
		switch y := x.(type) {
		case *ssa.FieldAddr:
			if n, _, _ := fieldName(y); n == "authority" {
				return Accept
			}
		case *ssa.Field:
			if n, _, _ := fieldName(y); n == "authority" {
				return Accept
			}
		case *ssa.Call:
			if callName(y) == "GetAuthority" {
				return Accept
			}
		}
		return Continue
	})
	return res.AllAccepted()
}

func (e *Engine) findAuthGuard(h *Handler) *authGuard {
	var found *authGuard
	for _, b := range h.Fn.Blocks {
		if len(b.Instrs) == 0 {
			continue
		}
		iff, ok := b.Instrs[len(b.Instrs)-1].(*ssa.If)
		if !ok {
			continue
		}
		ci, ok := NormCond(Guard{Cond: iff.Cond, Pol: true, If: iff})
		if !ok || (ci.Op != "==" && ci.Op != "!=") {
			continue
		}
		if foldingCompare(ci) {
			continue // a case-insensitive comparison accepts strings other than the authority (K-C16-1)
		}
		var keeperSide ssa.Value
		if isReqField(ci.X, h.ReqPar, "Authority") {
			keeperSide = ci.Y
		} else if isReqField(ci.Y, h.ReqPar, "Authority") {
			keeperSide = ci.X
		} else {
			// helper form: `if err := k.check(req.Authority); err != nil { return nil, err }`
			var errv ssa.Value
			if isNilConst(ci.Y) {
				errv = ci.X
			} else if isNilConst(ci.X) {
				errv = ci.Y
			}
			if c, ok := errv.(*ssa.Call); ok && isErrorType(c.Type()) {
				if H := c.Common().StaticCallee(); H != nil && isFx(H) && H.Blocks != nil {
					for i, a := range c.Common().Args {
						if isReqField(a, h.ReqPar, "Authority") {
							if kv, ok := e.authChecker(H, i); ok {
								g := &authGuard{If: iff, MatchPol: ci.Op == "==", KeeperVal: kv}
								if found == nil || g.If.Block().Dominates(found.If.Block()) {
									found = g
								}
							}
						}
					}
				}
			}
			continue
		}
		if keeperSide == nil || !e.keeperAuthority(keeperSide, h.Fn.Params[0]) {
			continue
		}
		g := &authGuard{If: iff, MatchPol: ci.Op == "==", KeeperVal: keeperSide}
		if found == nil || g.If.Block().Dominates(found.If.Block()) {
			found = g
		}
	}
	return found
}

// authChecker: H(…, authority at parameter i, …) error compares that parameter with the keeper's authority, returns a
// non-nil error on mismatch without any effect, and returns nil only on the match branch. Returns the keeper-side value.
func (e *Engine) authChecker(H *ssa.Function, i int) (ssa.Value, bool) {
	if i >= len(H.Params) || len(H.Params) == 0 {
		return nil, false
	}
	par := H.Params[i]
	effect := func(in ssa.Instruction) bool { return e.EffectOf(in) != "" }
	hasEffect := false
	allInstrs(H, func(in ssa.Instruction) {
		if effect(in) {
			hasEffect = true
		}
	})
	if hasEffect {
		return nil, false
	}
	for _, b := range H.Blocks {
		if len(b.Instrs) == 0 {
			continue
		}
		iff, ok := b.Instrs[len(b.Instrs)-1].(*ssa.If)
		if !ok {
			continue
		}
		ci, ok := NormCond(Guard{Cond: iff.Cond, Pol: true, If: iff})
		if !ok || (ci.Op != "==" && ci.Op != "!=") || ci.X == nil || ci.Y == nil || foldingCompare(ci) {
			continue
		}
		var keeperSide ssa.Value
		if stripConv(ci.X) == ssa.Value(par) {
			keeperSide = ci.Y
		} else if stripConv(ci.Y) == ssa.Value(par) {
			keeperSide = ci.X
		} else {
			continue
		}
		if !e.keeperAuthority(keeperSide, H.Params[0]) {
			continue
		}
		matchPol := ci.Op == "=="
		if !BranchFailsClean(iff, !matchPol, effect) {
			continue
		}
		matchBlk := b.Succs[1]
		if matchPol {
			matchBlk = b.Succs[0]
		}
		okAll := true
		for _, ret := range SuccessReturns(H) {
			rb := ret.Block()
			if !((rb == matchBlk || matchBlk.Dominates(rb)) && edgeDominates(b, matchBlk, rb)) {
				okAll = false
			}
		}
		if okAll {
			return keeperSide, true
		}
	}
	return nil, false
}

func runC16(e *Engine, r *Report, tier string) {
	r.Explanation = "C16 decided structurally (clause = the property): O1 every Msg handler whose request carries an Authority field compares it with the keeper's authority before any state effect and any success return, mismatch branch returns an error with no effect; O2 the keeper authority value is only ever assigned in the constructor from a parameter that app/keepers binds to NewModuleAddress(gov); O3 router methods only delegate to the same-named method with the same request, and the privileged keeper routines are not reachable from any non-privileged transaction entry point; O4 raw store update is compare-and-set. Not decided: behaviour of the SDK message router (trusted to call only registered handlers and to discard state on error)."
	r.Trusted = []string{"go/types + go/ssa (x/tools v0.29.0)", "store/collections effect table of the engine", "name-based read/write classification of dependency keeper methods", "Cosmos SDK msg router invokes only registered MsgServer methods"}
	r.Assumptions = []string{"governance module account address = authtypes.NewModuleAddress(\"gov\")", "dependency code is not analysed beyond type signatures"}

	hs := e.MsgHandlers()
	var priv []*Handler
	for _, h := range hs {
		if h.HasAuth {
			priv = append(priv, h)
		}
	}
	// floor: number of proto messages with an authority field that are routed (rpc) in proto files
	protoAuth := e.protoRoutedAuthorityMsgs()
	r.Rule("O1", "authority guard dominates every effect and every success return of a privileged handler; mismatch returns an error without effect", len(protoAuth), "rpc request messages with an `authority` field in proto/**/tx.proto")
	r.Rule("O2", "keeper authority value is constructor-assigned and wired to the gov module address", 3, "keepers whose authority field is compared in O1 (crosschain, erc20, gov) + ethermint evm keeper")
	r.Rule("O3", "router methods only delegate; privileged routines are unreachable from non-privileged tx entry points", 2, "crosschain router methods for UpdateParams/UpdateChainOracles")
	r.Rule("O4", "raw store Set is compare-and-set guarded", 1, "gov UpdateStore")

	// every proto routed authority msg must have at least one handler
	handled := map[string]bool{}
	for _, h := range priv {
		pp := strings.Split(h.Req.Obj().Pkg().Path(), "/")
		if len(pp) >= 2 {
			handled[pp[len(pp)-2]+"."+h.Req.Obj().Name()] = true
		}
	}
	for _, m := range protoAuth {
		if !handled[m] {
			r.Fail("O1", "proto:"+m, "", "routed proto message with authority field has no handler found in fx-core")
		}
	}

	guardedLeaf := map[*ssa.Function]*authGuard{}
	authStructs := map[string]bool{} // struct types whose authority field is used
	usesDepGetAuthority := false
	var privRoutines = map[*ssa.Function]string{}
	for _, h := range priv {
		key := e.FnKey(h.Fn)
		g := e.findAuthGuard(h)
		if g == nil {
			// inert: no effect at all and no success return (generated Unimplemented stubs): rejects every authority
			inert := len(SuccessReturns(h.Fn)) == 0
			allInstrs(h.Fn, func(i ssa.Instruction) {
				if e.EffectOf(i) != "" {
					inert = false
				}
			})
			if inert {
				r.Ok("O1", key, e.Pos(h.Fn.Pos()), "inert: no state effect and no success return")
				continue
			}
			// delegate?
			ok, why := e.isPureDelegate(h)
			if ok {
				r.Ok("O3", key, e.Pos(h.Fn.Pos()), "pure delegate: "+why)
			} else {
				r.Fail("O1", key, e.Pos(h.Fn.Pos()), "handler of "+h.Req.Obj().Name()+" has no authority comparison and is not a pure delegate: "+why)
			}
			continue
		}
		guardedLeaf[h.Fn] = g
		// record keeper-side source
		e.Slice(g.KeeperVal, SliceOpts{MaxDepth: 8}, func(x ssa.Value) Verdict {
			switch y := x.(type) {
			case *ssa.FieldAddr:
				if n, st, _ := fieldName(y); n == "authority" {
					authStructs[namedTypeName(st)] = true
					return Accept
				}
			case *ssa.Field:
				if n, st, _ := fieldName(y); n == "authority" {
					authStructs[namedTypeName(st)] = true
					return Accept
				}
			case *ssa.Call:
				if callName(y) == "GetAuthority" {
					if f := y.Common().StaticCallee(); f == nil || !isFx(f) {
						usesDepGetAuthority = true
					} else {
						// fx GetAuthority: returns k.authority
						allInstrs(f, func(i ssa.Instruction) {
							if fa, ok := i.(*ssa.FieldAddr); ok {
								if n, st, _ := fieldName(fa); n == "authority" {
									authStructs[namedTypeName(st)] = true
								}
							}
							if fa, ok := i.(*ssa.Field); ok {
								if n, st, _ := fieldName(fa); n == "authority" {
									authStructs[namedTypeName(st)] = true
								}
							}
						})
					}
					return Accept
				}
			}
			return Continue
		})
		// mismatch branch fails clean
		effect := func(i ssa.Instruction) bool { return e.EffectOf(i) != "" }
		if !BranchFailsClean(g.If, !g.MatchPol, effect) {
			r.Fail("O1", key, e.InstrPos(g.If), "authority-mismatch branch does not end in an error return without effects")
			continue
		}
		// match edge block
		matchBlk := g.If.Block().Succs[1]
		if g.MatchPol {
			matchBlk = g.If.Block().Succs[0]
		}
		bad := ""
		var badPos string
		allInstrs(h.Fn, func(i ssa.Instruction) {
			if bad != "" {
				return
			}
			dominated := i.Block() == matchBlk || matchBlk.Dominates(i.Block())
			if dominated && edgeDominates(g.If.Block(), matchBlk, i.Block()) {
				return
			}
			if eff := e.EffectOf(i); eff != "" {
				bad = "effect `" + eff + "` not dominated by the authority check"
				badPos = e.InstrPos(i)
			}
			if ret, ok := i.(*ssa.Return); ok && !IsFailureReturn(ret) {
				bad = "a success return is reachable without passing the authority check"
				badPos = e.InstrPos(i)
			}
		})
		if bad != "" {
			r.Fail("O1", key, badPos, bad)
			continue
		}
		// the handler must not be value-less: count effects after guard for the sample
		neff := 0
		allInstrs(h.Fn, func(i ssa.Instruction) {
			if eff := e.EffectOf(i); eff != "" {
				neff++
				if c, ok := i.(ssa.CallInstruction); ok {
					if f := c.Common().StaticCallee(); f != nil && isFx(f) && f.Blocks != nil {
						privRoutines[f] = key
					}
					if c.Common().IsInvoke() {
						for _, impl := range e.Implementers(c.Common().Value.Type(), c.Common().Method.Name()) {
							privRoutines[impl] = key
						}
					}
				}
			}
		})
		r.Ok("O1", key, e.InstrPos(g.If), fmt.Sprintf("guard `req.Authority %s keeper authority` dominates %d effect call(s) and all success returns", pick(g.MatchPol, "==", "!="), neff))
	}

	// O2: wiring
	e.checkAuthorityWiring(r, authStructs, usesDepGetAuthority)

	// O3b: privileged routines unreachable from non-privileged tx entry points
	var nonPriv []*ssa.Function
	for _, f := range e.TxEntryPoints() {
		isPriv := false
		for _, h := range priv {
			if h.Fn == f {
				isPriv = true
			}
		}
		if !isPriv {
			nonPriv = append(nonPriv, f)
		}
	}
	// generic helpers shared on purpose with unprivileged flows (one named symbol + reason each)
	sharedHelpers := map[string]string{
		"(*x/evm/keeper.Keeper).CallEVMWithoutGas": "generic module-originated EVM call helper; conversions call it with module-built calldata, only CallContract passes request data",
	}
	for f, via := range privRoutines {
		if why, ok := sharedHelpers[e.FnKey(f)]; ok {
			r.Ok("O3", "routine:"+e.FnKey(f), e.Pos(f.Pos()), "exempt shared helper: "+why)
			continue
		}
		// routines shared on purpose with unprivileged flows are those that do not take request-controlled data; we
		// only protect routines that are not also the handler's generic helpers: decide by reachability.
		path := e.PathTo(nonPriv, func(x *ssa.Function) bool { return x == f }, func(x *ssa.Function) bool {
			_, isGuarded := guardedLeaf[x]
			return isGuarded
		})
		ck := "routine:" + e.FnKey(f)
		if path != nil {
			r.Fail("O3", ck, e.Pos(f.Pos()), "privileged routine (called under the authority guard of "+via+") is reachable from a non-privileged transaction entry point: "+strings.Join(path, " -> "))
		} else {
			r.Ok("O3", ck, e.Pos(f.Pos()), "reachable from tx entry points only through the guarded handler "+via)
		}
	}

	// O4: CAS
	e.checkCAS(r, priv)
}

// isPureDelegate: every effectful call in the handler is an interface invocation of the same method name, passing the
// same request parameter, on a MsgServer-like interface whose fx-core implementers are handlers of the same request type.
func (e *Engine) isPureDelegate(h *Handler) (bool, string) {
	n := 0
	why := ""
	ok := true
	allInstrs(h.Fn, func(i ssa.Instruction) {
		if !ok {
			return
		}
		eff := e.EffectOf(i)
		c, isCall := i.(ssa.CallInstruction)
		if eff == "" {
			// also count delegation invokes whose implementers have no writes
			if isCall && c.Common().IsInvoke() && c.Common().Method.Name() == h.Fn.Name() {
				n++
			}
			return
		}
		if !isCall || !c.Common().IsInvoke() || c.Common().Method.Name() != h.Fn.Name() {
			ok, why = false, "effect `"+eff+"` that is not a same-named delegation"
			return
		}
		args := c.Common().Args
		if len(args) != 2 || args[1] != ssa.Value(h.ReqPar) {
			ok, why = false, "delegation does not pass the request unchanged"
			return
		}
		n++
	})
	if !ok {
		return false, why
	}
	if n == 0 {
		return false, "no delegation call found"
	}
	return true, fmt.Sprintf("%d same-named delegation call(s) with the unchanged request, no own effect", n)
}

func (e *Engine) checkAuthorityWiring(r *Report, authStructs map[string]bool, depGetAuthority bool) {
	isGovAddr := func(v ssa.Value) (bool, string) {
		res := e.Slice(v, SliceOpts{MaxDepth: 10, IntoCallees: false}, func(x ssa.Value) Verdict {
			if c, ok := x.(*ssa.Call); ok && callName(c) == "NewModuleAddress" {
				a := c.Common().Args
				if len(a) == 1 {
					if s, ok := constString(a[0]); ok && s == "gov" {
						return Accept
					}
				}
				return Reject
			}
			return Continue
		})
		if res.AllAccepted() {
			return true, ""
		}
		d := ""
		for _, l := range append(res.Leaves, res.Rejected...) {
			d += e.Describe(l) + "; "
		}
		return false, d
	}
	for st := range authStructs {
		// all stores to field authority of struct st
		type site struct {
			fn  *ssa.Function
			val ssa.Value
			pos string
		}
		var sites []site
		for _, fn := range e.Funcs {
			if isAuxPkg(fnPkgPath(fn)) {
				continue
			}
			allInstrs(fn, func(i ssa.Instruction) {
				stt, ok := i.(*ssa.Store)
				if !ok {
					return
				}
				fa, ok := stt.Addr.(*ssa.FieldAddr)
				if !ok {
					return
				}
				n, t, _ := fieldName(fa)
				if n == "authority" && namedTypeName(t) == st {
					sites = append(sites, site{fn, stt.Val, e.InstrPos(i)})
				}
			})
		}
		ck := "authority-field:" + strings.TrimPrefix(st, ModPath+"/")
		if len(sites) == 0 {
			r.Fail("O2", ck, "", "no assignment of the authority field found (anchor unresolved)")
			continue
		}
		okAll := true
		for _, s := range sites {
			p, isParam := s.val.(*ssa.Parameter)
			if !isParam {
				r.Fail("O2", ck, s.pos, "authority field assigned from a non-parameter value in "+e.FnKey(s.fn)+": "+e.Describe(s.val))
				okAll = false
				continue
			}
			idx := paramIndex(p)
			csites := e.CallSites(s.fn)
			nreal := 0
			for _, cs := range csites {
				if isAuxPkg(fnPkgPath(cs.Caller)) {
					continue
				}
				nreal++
				args := cs.Call.Common().Args
				if idx >= len(args) {
					r.Fail("O2", ck, e.InstrPos(cs.Call), "cannot map constructor argument")
					okAll = false
					continue
				}
				if ok, d := isGovAddr(args[idx]); !ok {
					r.Fail("O2", ck, e.InstrPos(cs.Call), "constructor "+e.FnKey(s.fn)+" called from "+e.FnKey(cs.Caller)+" with an authority that is not NewModuleAddress(\"gov\"): "+d)
					okAll = false
				}
			}
			if nreal == 0 {
				r.Fail("O2", ck, s.pos, "constructor "+e.FnKey(s.fn)+" has no call site in app wiring")
				okAll = false
			} else if okAll {
				r.Ok("O2", ck+"@"+e.FnKey(s.fn), s.pos, fmt.Sprintf("assigned only from constructor parameter %s; %d call site(s) all pass NewModuleAddress(\"gov\")", p.Name(), nreal))
			}
		}
	}
	if depGetAuthority {
		// ethermint evm keeper: NewKeeper(... authority sdk.AccAddress ...)
		n := 0
		for _, fn := range e.Funcs {
			if isAuxPkg(fnPkgPath(fn)) {
				continue
			}
			allCalls(fn, func(c ssa.CallInstruction) {
				f := c.Common().StaticCallee()
				if f == nil || f.Name() != "NewKeeper" || f.Pkg == nil || !strings.HasSuffix(f.Pkg.Pkg.Path(), "ethermint/x/evm/keeper") {
					return
				}
				sig := f.Signature
				for i := 0; i < sig.Params().Len(); i++ {
					if sig.Params().At(i).Name() == "authority" {
						n++
						if ok, d := isGovAddr(c.Common().Args[i]); ok {
							r.Ok("O2", "ethermint-evm-keeper.authority", e.InstrPos(c), "NewKeeper authority argument is NewModuleAddress(\"gov\")")
						} else {
							r.Fail("O2", "ethermint-evm-keeper.authority", e.InstrPos(c), "ethermint evm keeper constructed with an authority that is not the gov module address: "+d)
						}
					}
				}
			})
		}
		if n == 0 {
			r.Fail("O2", "ethermint-evm-keeper.authority", "", "no construction of the ethermint evm keeper with an `authority` parameter found (anchor unresolved)")
		}
	}
}

func (e *Engine) checkCAS(r *Report, priv []*Handler) {
	seenFn := map[*ssa.Function]bool{}
	for _, h := range priv {
		// the handler and the same-package helpers it calls (the per-entry body may be extracted)
		fns := []*ssa.Function{h.Fn}
		for f := range e.Reach([]*ssa.Function{h.Fn}, func(x *ssa.Function) bool { return x != h.Fn && fnPkgPath(x) != fnPkgPath(h.Fn) }) {
			if f != h.Fn && fnPkgPath(f) == fnPkgPath(h.Fn) {
				fns = append(fns, f)
			}
		}
		for _, hf := range fns {
			if seenFn[hf] {
				continue
			}
			seenFn[hf] = true
			for _, so := range e.Effects(hf) {
				if so.Op != "set" || len(so.Fams) != 0 {
					continue
				}
				// raw Set with request-derived key
				ck := e.FnKey(h.Fn) + ":raw-set"
				okGuard := false
				for _, g := range GuardsOf(so.Instr) {
					ci, ok := NormCond(g)
					if !ok || ci.Op != "==" || ci.Call == nil || callName(ci.Call) != "Equal" {
						continue
					}
					// one operand is store.Get(sameKey)
					for _, opnd := range []ssa.Value{ci.X, ci.Y} {
						if gc, ok := opnd.(*ssa.Call); ok && callName(gc) == "Get" && gc.Common().IsInvoke() && len(gc.Common().Args) == 1 {
							if (gc.Common().Args[0] == so.Key || vkey(gc.Common().Args[0], 0) == vkey(so.Key, 0)) && gc.Common().Value == so.Instr.Common().Value {
								if BranchFailsClean(g.If, !g.Pol, func(i ssa.Instruction) bool { return e.EffectOf(i) != "" }) {
									okGuard = true
								}
							}
						}
					}
				}
				r.Check(okGuard, "O4", ck, e.InstrPos(so.Instr), "Set(key,…) dominated by bytes.Equal(store.Get(same key), old) with error on mismatch",
					"raw store Set is not dominated by a compare with the current value of the same key on the same store")
			}
		}
	}
}

// protoRoutedAuthorityMsgs parses proto/**/*.proto for rpc request messages with an `authority` field;
// returned as "<module>.<Msg>" where module is the proto directory before the version (erc20, evm, gov, crosschain).
func (e *Engine) protoRoutedAuthorityMsgs() []string {
	pf := e.ProtoFiles()
	var out []string
	seen := map[string]bool{}
	for _, f := range pf {
		parts := strings.Split(f.Path, "/")
		mod := ""
		if len(parts) >= 3 {
			mod = parts[len(parts)-3]
		}
		for _, rpc := range f.RPCs {
			if m := f.Messages[rpc.Req]; m != nil {
				for _, fld := range m.Fields {
					k := mod + "." + rpc.Req
					if fld.Name == "authority" && !seen[k] {
						seen[k] = true
						out = append(out, k)
					}
				}
			}
		}
	}
	return out
}

var _ = types.Typ


// foldingCompare: the equality is decided after case folding (strings.EqualFold, or operands passed through
// ToLower / ToUpper): strings that differ from the authority compare equal.
func foldingCompare(ci CmpInfo) bool {
	if ci.Call != nil && callName(ci.Call) == "EqualFold" {
		return true
	}
	for _, v := range []ssa.Value{ci.X, ci.Y} {
		if c, ok := stripConv(v).(*ssa.Call); ok {
			switch callName(c) {
			case "ToLower", "ToUpper", "ToTitle", "Title":
				return true
			}
		}
	}
	return false
}
