package main

import (
	"fmt"
	"go/token"
	"go/types"
	"sort"
	"strings"

	"golang.org/x/tools/go/ssa"
)

func init() { register("C03", "other", runC03) }

// language classes for the pre-image of the claim hash; "any" = arbitrary bytes (may contain the separator)
const (
	langDigits = "digits"  // [0-9]+
	langInt    = "int"     // -?[0-9]+ | <nil>
	langBool   = "bool"    // true|false
	langAddr   = "address" // fixed-shape external address (validated), no '/'
	langBech   = "bech32"  // bech32 string, no '/'
	langHex    = "hex"     // [0-9a-fA-F]*
	langList   = "list"    // [e e e] of separator-free elements
	langAny    = "any"
)

type fieldVal struct{ typ, field string }

// validationKinds: which string fields of which struct types are validated with a restricting validator inside fn's closure (types package).
func (e *Engine) validationKinds(root *ssa.Function) map[fieldVal]string {
	out := map[fieldVal]string{}
	seen := map[*ssa.Function]bool{}
	var visit func(f *ssa.Function, depth int)
	visit = func(f *ssa.Function, depth int) {
		if f == nil || seen[f] || depth > 3 || f.Blocks == nil {
			return
		}
		seen[f] = true
		allCalls(f, func(c ssa.CallInstruction) {
			kind := ""
			var arg ssa.Value
			args := c.Common().Args
			switch callName(c) {
			case "ValidateExternalAddr":
				if len(args) == 2 {
					kind, arg = langAddr, args[1]
				}
			case "ValidateEthereumAddress", "ValidateTronAddress":
				if len(args) >= 1 {
					kind, arg = langAddr, args[len(args)-1]
				}
			case "AccAddressFromBech32", "ValAddressFromBech32":
				if len(args) == 1 {
					kind, arg = langBech, args[0]
				}
			case "DecodeString":
				if len(args) == 1 {
					kind, arg = langHex, args[0]
				}
			}
			if kind != "" {
				if ok, _ := errorHandled(c); !ok {
					return
				}
				e.Slice(arg, SliceOpts{MaxDepth: 6}, func(x ssa.Value) Verdict {
					if n, st, ok := fieldName(x); ok {
						out[fieldVal{namedTypeName(st), n}] = kind
						return Accept
					}
					return Continue
				})
				return
			}
			if cal := c.Common().StaticCallee(); cal != nil && isFx(cal) && strings.HasSuffix(fnPkgPath(cal), "/types") {
				visit(cal, depth+1)
			}
		})
	}
	visit(root, 0)
	return out
}

func (e *Engine) langOfType(t types.Type, owner string, field string, vk map[fieldVal]string, depth int) string {
	if depth > 4 {
		return langAny
	}
	tn := namedTypeName(t)
	if strings.HasSuffix(tn, "math.Int") || strings.HasSuffix(tn, "big.Int") || strings.HasSuffix(tn, "math.Uint") {
		return langInt
	}
	switch u := t.Underlying().(type) {
	case *types.Basic:
		switch {
		case u.Info()&types.IsInteger != 0:
			return langDigits
		case u.Info()&types.IsBoolean != 0:
			return langBool
		case u.Info()&types.IsString != 0:
			if k, ok := vk[fieldVal{owner, field}]; ok {
				return k
			}
			return langAny
		}
	case *types.Slice:
		el := e.langOfType(u.Elem(), owner, field, vk, depth+1)
		if el == langAny {
			return langAny
		}
		return langList
	case *types.Pointer:
		return e.langOfType(u.Elem(), owner, field, vk, depth+1)
	case *types.Struct:
		for i := 0; i < u.NumFields(); i++ {
			f := u.Field(i)
			if !f.Exported() || strings.HasPrefix(f.Name(), "XXX_") {
				continue
			}
			if e.langOfType(f.Type(), tn, f.Name(), vk, depth+1) == langAny {
				return langAny
			}
		}
		return langList
	}
	return langAny
}

func containsSlash(lang string) bool { return lang == langAny }

func runC03(e *Engine, r *Report, tier string) {
	r.Explanation = "C03, structural clauses. Decided for every implementer of types.ExternalClaim (enumerated from the type-checked program): R1 hash field coverage — every field of the claim's message other than the claimer (BridgerAddress) and the routing ChainName is an argument of the Sprintf that feeds the digest in ClaimHash(); R2 unambiguity of the pre-image — with each argument's language derived from its Go type and from the restricting validators its own ValidateBasic applies to that field (external address, bech32, hex; everything else is `any string`), at most one argument may be an unrestricted string (a single one is delimited uniquely by counting separators from both ends; two are not), and an empty separator is only followed by a fixed-shape address; R3 the attestation a vote is added to and stored under is keyed by (GetEventNonce(), ClaimHash()) of the same claim value that is tallied and handed to the handler. R4 every attestation a store walk hands to its callback is a record allocated for that entry (a reused record with a re-sliced Votes buffer would make kept records alias each other: votes of one claim under another). Not decided: collision resistance of the digest."
	impls := e.TypesImplementing(ModPath+"/x/crosschain/types", "ExternalClaim")
	r.Rule("R1", "every executed field is hashed", len(impls), "implementers of types.ExternalClaim")
	r.Rule("R2", "hash pre-image is an unambiguous concatenation", len(impls), "implementers of types.ExternalClaim")
	r.Rule("R3", "vote, store and tally use (nonce, hash) of one claim value", 3, "")
	r.Rule("R4", "every attestation handed out by a store walk is a freshly allocated record (votes cannot alias another claim's)", 2, "store walks with an attestation callback")
	if len(impls) < 6 {
		r.Fail("R1", "implementers", "", fmt.Sprintf("UNRESOLVED-ANCHOR: %d ExternalClaim implementers", len(impls)))
	}
	for _, T := range impls {
		name := shortTypeName(T)
		st, named := structOf(T)
		hf := e.MethodOf(T, "ClaimHash")
		vb := e.MethodOf(T, "ValidateBasic")
		if st == nil || hf == nil {
			r.Fail("R1", name, "", "UNRESOLVED-ANCHOR: struct or ClaimHash not found")
			continue
		}
		// the pre-image: a Sprintf, or any other way of building the hashed string (concatenation, strings.Join, strconv)
		format, argVals, okPre := e.preimageOf(hf)
		if !okPre {
			r.Undecided("R1", name, e.Pos(hf.Pos()), "ClaimHash does not build its pre-image from a format, a concatenation or a join of renderings: field coverage cannot be decided")
			continue
		}
		lossy := map[string]string{}
		type argInfo struct {
			field string
			typ   types.Type
		}
		var args []argInfo
		{
			{
				for _, v := range argVals {
					ai := argInfo{}
					e.Slice(v, SliceOpts{MaxDepth: 6, ThroughCalls: true}, func(x ssa.Value) Verdict {
						if n, stt, ok := fieldName(x); ok && namedTypeName(stt) == namedTypeName(named) {
							ai.field = n
							if s2, ok := stt.Underlying().(*types.Struct); ok {
								for j := 0; j < s2.NumFields(); j++ {
									if s2.Field(j).Name() == n {
										ai.typ = s2.Field(j).Type()
									}
								}
							}
							return Accept
						}
						return Continue
					})
					if ai.field == "" {
						// custom rendering: <strings.Builder>.String() fed by WriteString(<something derived from a field>)
						if bc, ok := stripConv(v).(*ssa.Call); ok && callName(bc) == "String" && len(callArgs(bc)) == 1 {
							if buf, ok := callArgs(bc)[0].(*ssa.Alloc); ok {
								for _, ref := range *buf.Referrers() {
									wc, ok := ref.(*ssa.Call)
									if !ok || !strings.HasPrefix(callName(wc), "Write") {
										continue
									}
									for _, wa := range callArgs(wc)[1:] {
										e.Slice(wa, SliceOpts{MaxDepth: 8, ThroughCalls: true}, func(x ssa.Value) Verdict {
											if n, stt, ok := fieldName(x); ok && namedTypeName(stt) == namedTypeName(named) {
												ai.field = n // hashed, but through a custom rendering: language unknown -> unrestricted
												return Accept
											}
											return Continue
										})
									}
								}
							}
						}
					}
					if ai.field != "" {
						// injective rendering: between the field and the pre-image only value-preserving renderings may occur
						if bad := lossyCallOnPath(v, 0, map[ssa.Value]bool{}); bad != "" {
							lossy[ai.field] = bad
						}
					}
					args = append(args, ai)
				}
			}
		}
		hashed := map[string]bool{}
		for _, a := range args {
			hashed[a.field] = true
		}
		var missing []string
		for i := 0; i < st.NumFields(); i++ {
			f := st.Field(i)
			if !f.Exported() || strings.HasPrefix(f.Name(), "XXX_") {
				continue
			}
			if f.Name() == "BridgerAddress" || f.Name() == "ChainName" {
				continue
			}
			if !hashed[f.Name()] {
				missing = append(missing, f.Name())
			}
		}
		sort.Strings(missing)
		if len(missing) == 0 {
			r.Ok("R1", name, e.Pos(hf.Pos()), fmt.Sprintf("%d fields hashed; exempt: BridgerAddress (claimer), ChainName (per-chain store)", len(hashed)))
		}
		var lf []string
		for f := range lossy {
			lf = append(lf, f)
		}
		sort.Strings(lf)
		for _, f := range lf {
			r.Fail("R1", name+"."+f+" rendering", e.Pos(hf.Pos()), "field "+f+" reaches the hash pre-image through "+lossy[f]+", which is not a value-preserving rendering: two different values of "+f+" can hash alike, so claims that execute differently are tallied together")
		}
		for _, m := range missing {
			r.Fail("R1", name+"."+m, e.Pos(hf.Pos()), "field "+m+" is not part of the claim hash: two claims differing only in "+m+" are tallied together and the executed value is the threshold-crossing voter's")
		}
		// R2
		vk := map[fieldVal]string{}
		if vb != nil {
			vk = e.validationKinds(vb)
		}
		// split format into verbs and literals
		type piece struct {
			verb bool
			lit  string
		}
		var pieces []piece
		cur := ""
		for i := 0; i < len(format); i++ {
			if format[i] == '%' && i+1 < len(format) {
				if format[i+1] == '%' {
					cur += "%"
					i++
					continue
				}
				if cur != "" {
					pieces = append(pieces, piece{false, cur})
					cur = ""
				}
				pieces = append(pieces, piece{true, string(format[i+1])})
				i++
				continue
			}
			cur += string(format[i])
		}
		if cur != "" {
			pieces = append(pieces, piece{false, cur})
		}
		ai := 0
		amb := false
		nverbs := 0
		var anyFields []string
		for pi, p := range pieces {
			if !p.verb {
				continue
			}
			nverbs++
			if ai >= len(args) {
				break
			}
			a := args[ai]
			ai++
			lang := langAny
			if a.typ != nil {
				lang = e.langOfType(a.typ, namedTypeName(named), a.field, vk, 0)
			}
			// what follows?
			last := true
			for _, q := range pieces[pi+1:] {
				if q.verb {
					last = false
				}
			}
			if last {
				if containsSlash(lang) {
					anyFields = append(anyFields, a.field)
				}
				continue
			}
			if containsSlash(lang) {
				anyFields = append(anyFields, a.field)
			}
			if pi+1 < len(pieces) && !pieces[pi+1].verb {
				// separator present: a single unrestricted field is still uniquely delimited by counting separators from both
				// ends; two or more are not (decided after the loop)
			} else {
				// directly followed by another verb: next must be fixed-shape address
				nx := langAny
				if ai < len(args) && args[ai].typ != nil {
					nx = e.langOfType(args[ai].typ, namedTypeName(named), args[ai].field, vk, 0)
				}
				if nx != langAddr || lang == langAny {
					amb = true
					r.Fail("R2", name+"."+a.field, e.Pos(hf.Pos()), fmt.Sprintf("fields %s and %s are concatenated without a separator and the second is not a fixed-shape address", a.field, args[ai].field))
				}
			}
		}
		if len(anyFields) >= 2 {
			amb = true
			r.Fail("R2", name+"."+anyFields[0]+"/"+anyFields[1], e.Pos(hf.Pos()), fmt.Sprintf("fields %s are unrestricted strings in a separator-delimited pre-image: a separator can be moved from one into the other (e.g. (\"p/q\",\"s\") and (\"p\",\"q/s\")), so two different claims hash alike", strings.Join(anyFields, ", ")))
		}
		if nverbs != len(args) {
			r.Fail("R2", name+" verbs", e.Pos(hf.Pos()), fmt.Sprintf("format has %d verbs for %d arguments", nverbs, len(args)))
		} else if !amb {
			r.Ok("R2", name, e.Pos(hf.Pos()), fmt.Sprintf("format %q with %d separator-free / final arguments", format, len(args)))
		}
	}

	// R3: vote recorder
	_, sites23 := e.writerCallSites(cc, "23", "set")
	for _, cs := range sites23 {
		A := cs.Caller
		k := e.FnKey(A)
		var claimPar *ssa.Parameter
		for _, p := range A.Params {
			if strings.HasSuffix(p.Type().String(), "types.ExternalClaim") {
				claimPar = p
			}
		}
		if claimPar == nil {
			r.Fail("R3", k, e.Pos(A.Pos()), "UNRESOLVED-ANCHOR: vote recorder has no claim parameter")
			continue
		}
		checkKey := func(c ssa.CallInstruction, what string) {
			okN, okH := false, false
			for _, a := range nonCtxArgs(c) {
				if recv, ok := eventNonceOf(a); ok && stripConv(recv) == ssa.Value(claimPar) {
					okN = true
				}
				if recv, ok := methodCallOn(a, "ClaimHash"); ok && stripConv(recv) == ssa.Value(claimPar) {
					okH = true
				}
			}
			r.Check(okN && okH, "R3", k+" "+what, e.InstrPos(c), what+" keyed by (claim.GetEventNonce(), claim.ClaimHash()) of the submitted claim", what+": the attestation is not keyed by the nonce and hash of the submitted claim")
		}
		allCalls(A, func(c ssa.CallInstruction) {
			if e.callDirectOp(c, cc, "17", "get") && !e.callDirectOp(c, cc, "17", "set") {
				checkKey(c, "lookup")
			}
			if e.callDirectOp(c, cc, "17", "set") {
				checkKey(c, "store")
			}
			// tally call gets the same claim
			if e.HasTransEffect2(c, cc, "24", "set") {
				okc := false
				for _, a := range c.Common().Args {
					if stripConv(a) == ssa.Value(claimPar) {
						okc = true
					}
				}
				r.Check(okc, "R3", k+" tally", e.InstrPos(c), "the tallied/executed claim is the submitted claim object", "the claim handed to the tally is not the submitted claim")
			}
		})
	}

	// ---------- R4: every attestation read from the store is its own object ----------
	// The votes of an attestation belong to its claim. A store walk that decodes every entry into one reused record (and
	// re-slices its Votes buffer) hands out records that alias each other: whoever keeps them (genesis export copies them
	// shallowly) sees the voters of a later entry under an earlier claim.
	n4 := 0
	for _, fn := range e.Funcs {
		if isAuxPkg(fnPkgPath(fn)) || fn.Parent() != nil || !strings.Contains(fnPkgPath(fn), "x/crosschain/keeper") {
			continue
		}
		var cbPar *ssa.Parameter
		for _, p := range fn.Params {
			if sig, ok := p.Type().Underlying().(*types.Signature); ok {
				for i := 0; i < sig.Params().Len(); i++ {
					if strings.HasSuffix(sig.Params().At(i).Type().String(), "types.Attestation") {
						cbPar = p
					}
				}
			}
		}
		if cbPar == nil {
			continue
		}
		allCalls(fn, func(c ssa.CallInstruction) {
			if c.Common().Value != ssa.Value(cbPar) {
				return
			}
			_, loop := loopOf(c.Block())
			if loop == nil {
				return
			}
			for _, a := range c.Common().Args {
				if !strings.HasSuffix(a.Type().String(), "types.Attestation") {
					continue
				}
				n4++
				ck := e.CanonFnKey(fn) + " record"
				fresh := false
				var origin ssa.Value
				e.Slice(a, SliceOpts{MaxDepth: 4}, func(x ssa.Value) Verdict {
					if al, ok := x.(*ssa.Alloc); ok {
						origin = al
						if loop[al.Block()] {
							fresh = true
						}
						return Accept
					}
					return Continue
				})
				if fresh {
					r.Ok("R4", ck, e.InstrPos(c), "a new record is allocated for every entry")
				} else if origin != nil {
					r.Fail("R4", ck, e.InstrPos(c), "the walk decodes every entry into one record allocated outside the loop and hands that same record to the callback each time: records kept by the callback (genesis export) alias each other, so an attestation ends up with the votes of another claim")
				} else {
					r.Undecided("R4", ck, e.InstrPos(c), "origin of the record handed to the callback not found")
				}
			}
		})
	}
	if n4 == 0 {
		r.Fail("R4", "attestation walks", "", "UNRESOLVED-ANCHOR: no store walk handing attestations to a callback")
	}
}

// HasTransEffect2: the call's callees transitively perform op on the family.
func (e *Engine) HasTransEffect2(c ssa.CallInstruction, mod, hx, ops string) bool {
	for _, f := range e.calleesOf(c) {
		if e.HasTransEffect(f, mod, hx, ops) {
			return true
		}
	}
	return false
}

// lossyCallOnPath: walking back from a hash argument towards the message field it renders, the first call that is not
// a known value-preserving rendering ("" if none). Renderings: String() of integers/addresses, hex/decimal formatting,
// Sprintf, conversions.
func lossyCallOnPath(v ssa.Value, depth int, seen map[ssa.Value]bool) string {
	if v == nil || depth > 8 || seen[v] {
		return ""
	}
	seen[v] = true
	switch x := v.(type) {
	case *ssa.Call:
		n := callName(x)
		switch n {
		case "String", "EncodeToString", "Sprintf", "Sprint", "Itoa", "FormatUint", "FormatInt", "BigInt", "Hex", "Bytes":
		default:
			if _, isBuiltin := x.Call.Value.(*ssa.Builtin); !isBuiltin {
				return n + "()"
			}
		}
		for _, a := range callArgs(x) {
			if b := lossyCallOnPath(a, depth+1, seen); b != "" {
				return b
			}
		}
	case *ssa.MakeInterface:
		return lossyCallOnPath(x.X, depth+1, seen)
	case *ssa.Convert:
		return lossyCallOnPath(x.X, depth+1, seen)
	case *ssa.ChangeType:
		return lossyCallOnPath(x.X, depth+1, seen)
	case *ssa.Extract:
		return lossyCallOnPath(x.Tuple, depth+1, seen)
	case *ssa.Phi:
		for _, ed := range x.Edges {
			if b := lossyCallOnPath(ed, depth+1, seen); b != "" {
				return b
			}
		}
	case *ssa.UnOp:
		if _, ok := x.X.(*ssa.FieldAddr); ok {
			return ""
		}
		return lossyCallOnPath(x.X, depth+1, seen)
	}
	return ""
}

// preimageOf reads how ClaimHash builds the string it hashes, as a printf-like format plus the rendered values: a
// fmt.Sprintf call, string concatenation, strings.Join over a slice literal, strconv renderings — so that a claim hash
// written in another idiom is decided like the Sprintf form.
func (e *Engine) preimageOf(hf *ssa.Function) (string, []ssa.Value, bool) {
	// the hashed value: argument of the digest call (tmhash.Sum, sha256.Sum256, ...)
	var hashed ssa.Value
	allCalls(hf, func(c ssa.CallInstruction) {
		n := callName(c)
		if (n == "Sum" || n == "Sum256" || n == "Keccak256" || n == "Sum512") && len(c.Common().Args) >= 1 && hashed == nil {
			hashed = c.Common().Args[0]
		}
	})
	if hashed == nil {
		return "", nil, false
	}
	var args []ssa.Value
	ok := true
	nverb := 0
	esc := func(s string) string { return strings.ReplaceAll(s, "%", "%%") }
	sliceElems := func(v ssa.Value) ([]ssa.Value, bool) {
		sl, isSl := v.(*ssa.Slice)
		if !isSl {
			return nil, false
		}
		arr, isA := sl.X.(*ssa.Alloc)
		if !isA {
			return nil, false
		}
		idx := map[int64]ssa.Value{}
		for _, ref := range *arr.Referrers() {
			if ia, ok := ref.(*ssa.IndexAddr); ok {
				k, isK := constInt(ia.Index)
				if !isK {
					return nil, false
				}
				for _, r2 := range *ia.Referrers() {
					if s2, ok := r2.(*ssa.Store); ok {
						idx[k] = s2.Val
					}
				}
			}
		}
		out := make([]ssa.Value, 0, len(idx))
		for i := int64(0); i < int64(len(idx)); i++ {
			v, ok := idx[i]
			if !ok {
				return nil, false
			}
			out = append(out, v)
		}
		return out, true
	}
	var flat func(v ssa.Value, depth int) string
	flat = func(v ssa.Value, depth int) string {
		if depth > 12 {
			ok = false
			return ""
		}
		v = stripConv(v)
		if s, isS := constString(v); isS {
			return esc(s)
		}
		switch x := v.(type) {
		case *ssa.BinOp:
			if x.Op == token.ADD {
				return flat(x.X, depth+1) + flat(x.Y, depth+1)
			}
		case *ssa.Call:
			switch callName(x) {
			case "Sprintf":
				f, isF := constString(x.Common().Args[0])
				if !isF {
					ok = false
					return ""
				}
				if len(x.Common().Args) > 1 {
					el, isE := sliceElems(x.Common().Args[1])
					if !isE {
						if c, isC := x.Common().Args[1].(*ssa.Const); !isC || !c.IsNil() {
							ok = false
							return ""
						}
					}
					for _, a := range el {
						if mi, isMI := a.(*ssa.MakeInterface); isMI {
							a = mi.X
						}
						args = append(args, a)
						nverb++
					}
				}
				return f
			case "Join":
				a := x.Common().Args
				if len(a) == 2 {
					sep, isSep := constString(a[1])
					el, isE := sliceElems(a[0])
					if isSep && isE {
						out := ""
						for i, ev := range el {
							if i > 0 {
								out += esc(sep)
							}
							out += flat(ev, depth+1)
						}
						return out
					}
				}
				ok = false
				return ""
			case "FormatUint", "FormatInt", "Itoa":
				args = append(args, x.Common().Args[0])
				nverb++
				return "%d"
			case "FormatBool":
				args = append(args, x.Common().Args[0])
				nverb++
				return "%t"
			}
		}
		// any other string value: rendered as it is
		args = append(args, v)
		nverb++
		return "%s"
	}
	format := flat(hashed, 0)
	if !ok || nverb == 0 {
		return "", nil, false
	}
	return format, args, true
}
