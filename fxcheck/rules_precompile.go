package main

import (
	"fmt"
	"go/constant"
	"go/types"
	"strings"

	"golang.org/x/tools/go/ssa"
)

func init() {
	register("C09", "other", runC09)
	register("C10", "other", runC10)
}

// pcMethod describes one contract.PrecompileMethod implementer.
type pcMethod struct {
	T        types.Type
	Name     string
	ABIName  string // the ABI method this implementer is constructed with (Methods["name"]); protocol-level, survives renames
	Run      *ssa.Function
	Readonly *bool // constant result of IsReadonly(), nil if not constant
	ENA      []*enaSite
}

type enaSite struct {
	Builder *ssa.Function       // the function that builds and returns the closure, when it is not a literal at the call
	Call    ssa.CallInstruction // the ExecuteNativeAction invoke
	Closure *ssa.Function       // func(ctx sdk.Context) error
	Make    *ssa.MakeClosure
}

func (e *Engine) precompileMethods() []*pcMethod {
	var out []*pcMethod
	for _, T := range e.PrecompileMethods() {
		m := &pcMethod{T: T, Name: shortTypeName(T)}
		m.Run = e.MethodOf(T, "Run")
		m.ABIName = e.abiNameOf(T)
		if ro := e.MethodOf(T, "IsReadonly"); ro != nil {
			var val *bool
			consistent := true
			for _, b := range ro.Blocks {
				if ret, ok := b.Instrs[len(b.Instrs)-1].(*ssa.Return); ok && len(ret.Results) == 1 {
					if c, ok := ret.Results[0].(*ssa.Const); ok && c.Value != nil && c.Value.Kind() == constant.Bool {
						v := constant.BoolVal(c.Value)
						if val != nil && *val != v {
							consistent = false
						}
						val = &v
					} else {
						consistent = false
					}
				}
			}
			if consistent {
				m.Readonly = val
			}
		}
		if m.Run != nil {
			allCalls(m.Run, func(c ssa.CallInstruction) {
				if callName(c) != "ExecuteNativeAction" {
					return
				}
				site := &enaSite{Call: c}
				for _, a := range c.Common().Args {
					if mc, ok := a.(*ssa.MakeClosure); ok {
						site.Make = mc
						site.Closure = mc.Fn.(*ssa.Function)
					}
					// `ExecuteNativeAction(addr, nil, m.someAction(args…))`: a method that builds and returns the closure
					if call, ok := a.(*ssa.Call); ok {
						if g := call.Common().StaticCallee(); g != nil && isFx(g) && g.Blocks != nil {
							for _, b := range g.Blocks {
								if ret, ok := b.Instrs[len(b.Instrs)-1].(*ssa.Return); ok && len(ret.Results) == 1 {
									if mc, ok := ret.Results[0].(*ssa.MakeClosure); ok && site.Closure == nil {
										site.Make = mc
										site.Closure = mc.Fn.(*ssa.Function)
										site.Builder = g
									}
								}
							}
						}
					}
				}
				m.ENA = append(m.ENA, site)
			})
		}
		out = append(out, m)
	}
	return out
}

// within: fn is f or a closure nested in f.
func within(fn, f *ssa.Function) bool {
	for x := fn; x != nil; x = x.Parent() {
		if x == f {
			return true
		}
	}
	return false
}

// errorHandled: the error produced by call c is returned or checked (`!= nil` -> failing branch); not discarded.
func errorHandled(c ssa.CallInstruction) (bool, string) {
	v, ok := c.(ssa.Value)
	if !ok {
		return false, "call result not used (go/defer)"
	}
	sig := c.Common().Signature()
	res := sig.Results()
	if res.Len() == 0 {
		return true, "no error result"
	}
	ei := -1
	for i := 0; i < res.Len(); i++ {
		if isErrorType(res.At(i).Type()) {
			ei = i
		}
	}
	if ei < 0 {
		return true, "no error result"
	}
	var errVals []ssa.Value
	if res.Len() == 1 {
		errVals = append(errVals, v)
	} else {
		for _, ref := range *v.Referrers() {
			if ex, ok := ref.(*ssa.Extract); ok && ex.Index == ei {
				errVals = append(errVals, ex)
			}
		}
	}
	if len(errVals) == 0 {
		return false, "error result is discarded"
	}
	seen := map[ssa.Value]bool{}
	var handled func(ev ssa.Value, depth int) bool
	handled = func(ev ssa.Value, depth int) bool {
		if seen[ev] || depth > 6 {
			return false
		}
		seen[ev] = true
		// when the value is tested against nil, that test decides: every such test must fail clean on its non-nil branch
		// (a `return err` that sits on only one side of a further condition inside that branch does not count)
		nChecks, allClean := 0, true
		for _, ref := range *ev.Referrers() {
			if x, ok := ref.(*ssa.BinOp); ok && (isNilConst(x.X) || isNilConst(x.Y)) {
				for _, r2 := range *x.Referrers() {
					if iff, ok := r2.(*ssa.If); ok {
						nChecks++
						if !BranchFailsClean(iff, x.Op.String() == "!=", nil) {
							allClean = false
						}
					}
				}
			}
		}
		if nChecks > 0 {
			return allClean
		}
		for _, ref := range *ev.Referrers() {
			switch x := ref.(type) {
			case *ssa.Return:
				return true
			case *ssa.BinOp:
				if isNilConst(x.X) || isNilConst(x.Y) {
					for _, r2 := range *x.Referrers() {
						if iff, ok := r2.(*ssa.If); ok {
							pol := x.Op.String() == "!="
							if BranchFailsClean(iff, pol, nil) {
								return true
							}
						}
					}
				}
			case *ssa.Store:
				// stored into a captured/named variable (err = ...): follow loads of that address
				if a, ok := x.Addr.(ssa.Value); ok {
					for _, r2 := range *a.Referrers() {
						if ld, ok := r2.(*ssa.UnOp); ok && ld.X == a && Dominates(x, ld) {
							if handled(ld, depth+1) {
								return true
							}
						}
					}
					// free variable shared with the enclosing function: accept if the enclosing function checks it
					if _, isFV := a.(*ssa.FreeVar); isFV {
						return true
					}
				}
			case *ssa.Phi:
				if handled(x, depth+1) {
					return true
				}
			case *ssa.MakeInterface, *ssa.ChangeInterface:
				if handled(x.(ssa.Value), depth+1) {
					return true
				}
			case ssa.CallInstruction:
				// wrapped: fmt.Errorf("...%s", err.Error()) / PackRetErr(err) whose result is returned
				if xv, ok := x.(ssa.Value); ok {
					if handled(xv, depth+1) {
						return true
					}
					for _, r3 := range *xv.Referrers() {
						if ex, ok := r3.(*ssa.Extract); ok && handled(ex, depth+1) {
							return true
						}
					}
				}
			}
		}
		return false
	}
	for _, ev := range errVals {
		if handled(ev, 0) {
			if b := errorDroppedOnPath(c, ev); b != nil {
				return false, fmt.Sprintf("the error is tested on some paths only: on the path through block %d it is overwritten or dropped before any test", b.Index)
			}
			return true, ""
		}
	}
	return false, "error result is neither returned nor checked with an early error return"
}

// errorDroppedOnPath: is there a path from the call to a normal function exit on which the error value ev is never
// consumed (tested against nil, returned, wrapped, stored)? `err = f(); if cond { err = g() }; if err != nil {…}` tests
// f's error only on the path that skips g. Returns the exit block of such a path, or nil.
func errorDroppedOnPath(c ssa.CallInstruction, ev ssa.Value) *ssa.BasicBlock {
	type state struct {
		b *ssa.BasicBlock
		v ssa.Value
	}
	consumes := func(i ssa.Instruction, carrier ssa.Value) (consumed bool, next ssa.Value) {
		switch x := i.(type) {
		case *ssa.If:
			if bo, ok := x.Cond.(*ssa.BinOp); ok && (bo.X == carrier || bo.Y == carrier) {
				return true, nil
			}
		case *ssa.Return:
			for _, r := range x.Results {
				if r == carrier {
					return true, nil
				}
			}
		case *ssa.Store:
			if x.Val == carrier {
				return true, nil
			}
		case *ssa.MakeInterface:
			if x.X == carrier {
				return false, x
			}
		case *ssa.ChangeInterface:
			if x.X == carrier {
				return false, x
			}
		case ssa.CallInstruction:
			for _, a := range x.Common().Args {
				if a == carrier {
					return true, nil
				}
			}
			if x.Common().IsInvoke() && x.Common().Value == carrier {
				return true, nil // err.Error() etc.
			}
		case *ssa.MakeClosure:
			for _, b := range x.Bindings {
				if b == carrier {
					return true, nil
				}
			}
		case *ssa.TypeAssert:
			if x.X == carrier {
				return true, nil
			}
		}
		return false, nil
	}
	startBlock := c.Block()
	startIdx := instrIndex(c)
	if ex, ok := ev.(*ssa.Extract); ok && ex.Block() == startBlock {
		startIdx = instrIndex(ex)
	}
	seen := map[state]bool{}
	var walk func(b *ssa.BasicBlock, from int, carriers []ssa.Value) *ssa.BasicBlock
	walk = func(b *ssa.BasicBlock, from int, carriers []ssa.Value) *ssa.BasicBlock {
		for k := from; k < len(b.Instrs); k++ {
			i := b.Instrs[k]
			for _, cv := range carriers {
				done, nx := consumes(i, cv)
				if done {
					return nil
				}
				if nx != nil {
					carriers = append(carriers, nx)
				}
			}
		}
		if len(b.Succs) == 0 {
			if isPanicExit(b) {
				return nil
			}
			return b
		}
		for si, s := range b.Succs {
			_ = si
			// carriers entering s: the same values, plus phis of s that take one of them along this edge
			pidx := -1
			for pi, p := range s.Preds {
				if p == b {
					pidx = pi
				}
			}
			next := append([]ssa.Value{}, carriers...)
			for _, i := range s.Instrs {
				phi, ok := i.(*ssa.Phi)
				if !ok {
					break
				}
				for _, cv := range carriers {
					if pidx >= 0 && pidx < len(phi.Edges) && phi.Edges[pidx] == cv {
						next = append(next, phi)
					}
				}
			}
			key := state{s, next[len(next)-1]}
			if seen[key] {
				continue
			}
			seen[key] = true
			if r := walk(s, 0, next); r != nil {
				return r
			}
		}
		return nil
	}
	return walk(startBlock, startIdx+1, []ssa.Value{ev})
}

func runC09(e *Engine, r *Report, tier string) {
	r.Explanation = "C09, structural clauses. Decided for every contract.PrecompileMethod implementer (enumerated by interface): R1 in a state-changing method every call with a write effect lies inside the closure handed to ExtStateDB.ExecuteNativeAction and every sdk.Context it uses is that closure's own parameter (not stateDB.Context(), not a captured context); read-only methods reach no write; R2 inside the closure the error of every fallible effectful call is returned, Run returns the error of ExecuteNativeAction, and both Contract.Run dispatchers turn a method error into a non-nil error (PackRetErr* return their argument); R3 no recover() in the precompile call closure; R4 IsReadonly() is constant and false for every method that reaches a write; R5 every implementer is registered in a Contract.methods list; R6 no fx-core function writes into a byte slice it obtained from KVStore.Get or an iterator (index store, copy, PutUintNN, append onto a re-slice): the cache-store layers and the journal's snapshots share those slices, so an in-place write changes the parent store and every snapshot at once and survives a reverted frame. Not decided: the journaling inside ethermint's statedb (trusted), EVM call-tree and gas behaviour (C08.R2 covers the nested-EVM coherence clause)."
	r.Trusted = []string{"ethermint ExtStateDB.ExecuteNativeAction journals the native cache store and reverts it with the frame", "go-ethereum reverts the frame when a precompile returns an error"}
	ms := e.precompileMethods()
	r.Rule("R1", "write effects only inside the ExecuteNativeAction closure, using only the closure's context", len(ms), "implementers of contract.PrecompileMethod")
	r.Rule("R2", "errors of effectful calls propagate out of the closure, out of Run and out of the dispatcher", 4, "effectful calls in closures + 2 dispatchers")
	r.Rule("R3", "no recover() reachable from precompile Run", 1, "")
	r.Rule("R4", "IsReadonly() constant; false iff the method reaches a write", len(ms), "implementers")
	r.Rule("R5", "every implementer is registered with a precompiled contract", len(ms), "implementers")
	r.Rule("R6", "store contents change only through Set/Delete: a byte slice read from a KVStore or iterator is never written in place", 40, "KVStore.Get / Iterator.Key / Iterator.Value sites in fx-core keepers")
	e.storeAliasRule(r, "R6")

	var runFns []*ssa.Function
	for _, m := range ms {
		if m.Run == nil {
			r.Fail("R1", m.Name, "", "no Run method body found")
			continue
		}
		runFns = append(runFns, m.Run)
		// effects in Run (including nested closures)
		var inside, outside []ssa.Instruction
		var fns []*ssa.Function
		fns = append(fns, m.Run)
		var collect func(f *ssa.Function)
		collect = func(f *ssa.Function) {
			for _, a := range f.AnonFuncs {
				fns = append(fns, a)
				collect(a)
			}
		}
		collect(m.Run)
		for _, f := range fns {
			inENA := false
			for _, s := range m.ENA {
				if s.Closure != nil && within(f, s.Closure) {
					inENA = true
				}
			}
			isBuilder := false
			for _, s := range m.ENA {
				if s.Builder != nil && f == s.Builder {
					isBuilder = true // building the closure has no effect by itself; the call of the builder is not an effect
				}
			}
			if isBuilder {
				continue
			}
			allInstrs(f, func(i ssa.Instruction) {
				if c, ok := i.(ssa.CallInstruction); ok && callName(c) == "ExecuteNativeAction" {
					return
				}
				if c, ok := i.(ssa.CallInstruction); ok {
					// the call that merely builds the action closure performs nothing
					skip := false
					for _, s := range m.ENA {
						if s.Builder != nil && c.Common().StaticCallee() == s.Builder {
							skip = true
						}
					}
					if skip {
						return
					}
				}
				if e.EffectOf(i) == "" || e.ephemeralCtxEffect(i) {
					return
				}
				if inENA {
					inside = append(inside, i)
				} else {
					outside = append(outside, i)
				}
			})
		}
		reachesWrite := len(inside)+len(outside) > 0 || len(m.ENA) > 0
		// R4
		switch {
		case m.Readonly == nil:
			r.Fail("R4", m.Name, e.Pos(m.Run.Pos()), "IsReadonly() is not a constant")
		case *m.Readonly && reachesWrite:
			r.Fail("R4", m.Name, e.Pos(m.Run.Pos()), "IsReadonly() returns true but Run reaches a state write: the method would run in STATICCALL/DELEGATECALL contexts")
		default:
			r.Ok("R4", m.Name, e.Pos(m.Run.Pos()), fmt.Sprintf("IsReadonly()=%v, write effects reachable=%v", *m.Readonly, reachesWrite))
		}
		// R1
		if len(outside) > 0 {
			r.Fail("R1", m.Name, e.InstrPos(outside[0]), "state effect `"+e.EffectOf(outside[0])+"` outside the ExecuteNativeAction closure: it is not journaled with the EVM frame")
		} else {
			bad := ""
			badPos := ""
			for _, s := range m.ENA {
				if why := e.nativeActionCallUnjournaled(s.Call, 0); why != "" {
					bad, badPos = why, e.InstrPos(s.Call)
					continue
				}
				// a native action must not start another one: the inner snapshot/commit pair would write through the
				// outer action's cache in the middle of it (whether the inner call sits in a helper or in the closure)
				if s.Closure != nil {
					for f := range e.Reach([]*ssa.Function{s.Closure}, func(x *ssa.Function) bool { return !isFx(x) }) {
						if !isFx(f) {
							continue
						}
						allCalls(f, func(c ssa.CallInstruction) {
							if callName(c) == "ExecuteNativeAction" && c != s.Call {
								bad, badPos = "a native action is started inside another native action (nested ExecuteNativeAction in "+e.FnKey(f)+")", e.InstrPos(c)
							}
						})
					}
				}
				if bad != "" {
					continue
				}
				if s.Closure == nil {
					bad, badPos = "ExecuteNativeAction is not given a closure literal", e.InstrPos(s.Call)
					continue
				}
				if why, pos := e.ctxDiscipline(s.Closure); why != "" {
					bad, badPos = why, pos
				}
			}
			if bad != "" {
				r.Fail("R1", m.Name, badPos, bad)
			} else {
				r.Ok("R1", m.Name, e.Pos(m.Run.Pos()), fmt.Sprintf("%d effect call(s), all inside %d native-action closure(s), contexts rooted in the closure parameter", len(inside), len(m.ENA)))
			}
		}
		// R2: errors inside closures
		for _, i := range inside {
			c := i.(ssa.CallInstruction)
			ck := m.Name + " " + strings.TrimPrefix(e.EffectOf(i), "call ")
			if ok, why := errorHandled(c); !ok {
				r.Fail("R2", ck, e.InstrPos(i), "inside the native action: "+why+" (a failed step would be committed with the frame)")
			} else {
				r.Ok("R2", ck, e.InstrPos(i), "error returned")
			}
		}
		for _, s := range m.ENA {
			ck := m.Name + " ExecuteNativeAction"
			if ok, why := errorHandled(s.Call); !ok {
				r.Fail("R2", ck, e.InstrPos(s.Call), "Run does not return the error of ExecuteNativeAction: "+why)
			} else {
				r.Ok("R2", ck, e.InstrPos(s.Call), "error returned by Run")
			}
		}
	}

	// dispatchers
	disp := e.precompileDispatchers()
	if len(disp) < 2 {
		r.Fail("R2", "dispatchers", "", fmt.Sprintf("UNRESOLVED-ANCHOR: %d precompiled-contract dispatchers found (expected staking and crosschain)", len(disp)))
	}
	for _, d := range disp {
		ck := e.FnKey(d.Fn) + " method.Run error"
		if d.RunCall == nil {
			r.Fail("R2", ck, e.Pos(d.Fn.Pos()), "dispatcher does not invoke PrecompileMethod.Run")
			continue
		}
		ok, why := errorHandled(d.RunCall)
		if !ok {
			r.Fail("R2", ck, e.InstrPos(d.RunCall), "dispatcher drops the method's error: "+why)
			continue
		}
		// the failing branch returns a non-nil error: every Return in the err!=nil branch has error result from a Pack* whose body returns its arg
		okPack := true
		allInstrs(d.Fn, func(i ssa.Instruction) {
			ret, ok := i.(*ssa.Return)
			if !ok || len(ret.Results) != 2 {
				return
			}
			// returns guarded by err != nil of RunCall
			ev := ret.Results[1]
			if ex, ok := ev.(*ssa.Extract); ok {
				if pc, ok := ex.Tuple.(*ssa.Call); ok && strings.HasPrefix(callName(pc), "PackRet") {
					if f := pc.Common().StaticCallee(); f != nil && f.Blocks != nil {
						if !packReturnsArg(f) {
							okPack = false
						}
					}
				}
			}
		})
		r.Check(okPack, "R2", ck, e.InstrPos(d.RunCall), "method error -> PackRetErr*(err) which returns err as its error result", "PackRetErr* helper does not return its argument as the error: a failed precompile call would look successful")
	}

	// R3
	reach := e.Reach(append(runFns, dispFns(disp)...), nil)
	nrec := 0
	for f := range reach {
		if !isFx(f) {
			continue
		}
		allCalls(f, func(c ssa.CallInstruction) {
			if b, ok := c.Common().Value.(*ssa.Builtin); ok && b.Name() == "recover" {
				nrec++
				r.Fail("R3", e.FnKey(f), e.InstrPos(c), "recover() in code reachable from a precompile: a fault mid-action could be swallowed and the partial native effects committed")
			}
		})
	}
	if nrec == 0 {
		r.Ok("R3", "no-recover", "", fmt.Sprintf("%d fx-core functions reachable from precompile Run, none calls recover()", len(reach)))
	}

	// R5 registration
	registered := map[string]bool{}
	for _, fn := range e.Funcs {
		if isAuxPkg(fnPkgPath(fn)) {
			continue
		}
		// functions building a slice of contract.PrecompileMethod
		allInstrs(fn, func(i ssa.Instruction) {
			mi, ok := i.(*ssa.MakeInterface)
			if !ok || !strings.HasSuffix(mi.Type().String(), "contract.PrecompileMethod") {
				return
			}
			registered[types.TypeString(mi.X.Type(), nil)] = true
		})
	}
	for _, m := range ms {
		r.Check(registered[types.TypeString(m.T, nil)], "R5", m.Name, "", "converted to PrecompileMethod in a contract's method list", "implementer is never registered in a precompiled contract's method list")
	}
}

func dispFns(ds []*dispatcher) []*ssa.Function {
	var out []*ssa.Function
	for _, d := range ds {
		out = append(out, d.Fn)
	}
	return out
}

// packReturnsArg: function(err error) ([]byte, error) returns its parameter as the error on every return.
func packReturnsArg(f *ssa.Function) bool {
	if len(f.Params) == 0 {
		return false
	}
	ok := true
	n := 0
	for _, b := range f.Blocks {
		if ret, isRet := b.Instrs[len(b.Instrs)-1].(*ssa.Return); isRet {
			n++
			last := ret.Results[len(ret.Results)-1]
			if stripConv(last) != ssa.Value(f.Params[0]) {
				ok = false
			}
		}
	}
	return ok && n > 0
}

// ctxDiscipline: inside closure (and nested closures) every sdk.Context value used as call argument/receiver roots only
// at the closure's own context parameter. Returns a reason if violated.
func (e *Engine) ctxDiscipline(cl *ssa.Function) (string, string) {
	if len(cl.Params) == 0 || !isCtxType(cl.Params[0].Type()) {
		return "native-action closure has no context parameter", e.Pos(cl.Pos())
	}
	ctxPar := cl.Params[0]
	why, pos := "", ""
	var visit func(f *ssa.Function)
	visit = func(f *ssa.Function) {
		allCalls(f, func(c ssa.CallInstruction) {
			if why != "" {
				return
			}
			for _, a := range callArgs(c) {
				if !isCtxType(a.Type()) {
					continue
				}
				res := e.Slice(a, SliceOpts{MaxDepth: 10, ThroughCalls: false}, func(x ssa.Value) Verdict {
					if x == ssa.Value(ctxPar) {
						return Accept
					}
					if cc0, ok := x.(*ssa.Call); ok {
						n := callName(cc0)
						// methods on Context returning Context (WithX) or context wrappers are transparent
						if strings.HasPrefix(n, "With") || n == "UnwrapSDKContext" || n == "WrapSDKContext" {
							args := callArgs(cc0)
							if len(args) > 0 && isCtxType(args[0].Type()) {
								return Continue
							}
						}
						if n == "Context" || n == "CacheContext" {
							return Reject
						}
					}
					return Continue
				})
				// wrappers: follow first arg manually
				if len(res.Rejected) > 0 {
					why = "a context other than the native action's own is used inside the action (" + e.Describe(res.Rejected[0]) + "): its writes bypass the journal"
					pos = e.InstrPos(c)
					return
				}
				for _, l := range res.Leaves {
					if cc0, ok := l.(*ssa.Call); ok {
						n := callName(cc0)
						if strings.HasPrefix(n, "With") || n == "UnwrapSDKContext" || n == "WrapSDKContext" {
							// follow receiver
							in := e.Slice(callArgs(cc0)[0], SliceOpts{MaxDepth: 8}, func(y ssa.Value) Verdict {
								if y == ssa.Value(ctxPar) {
									return Accept
								}
								return Continue
							})
							if in.AllAccepted() {
								continue
							}
						}
					}
					if _, isFV := l.(*ssa.FreeVar); isFV {
						why = "a captured outer context is used inside the native action"
						pos = e.InstrPos(c)
						return
					}
					if p, isP := l.(*ssa.Parameter); isP && p != ctxPar && within(p.Parent(), cl) {
						continue // nested closure's own ctx param (e.g. iterator callbacks)
					}
					why = "context of unknown origin inside the native action: " + e.Describe(l)
					pos = e.InstrPos(c)
					return
				}
			}
		})
		for _, a := range f.AnonFuncs {
			visit(a)
		}
	}
	visit(cl)
	return why, pos
}

type dispatcher struct {
	Fn       *ssa.Function
	RunCall  ssa.CallInstruction
	ROCall   ssa.CallInstruction
	GovCall  ssa.CallInstruction
	ReadOnly *ssa.Parameter
}

// precompileDispatchers: methods Run(evm, contract, readonly bool) of fx-core types that invoke PrecompileMethod.Run.
func (e *Engine) precompileDispatchers() []*dispatcher {
	var out []*dispatcher
	for _, fn := range e.Funcs {
		if fn.Parent() != nil || fn.Name() != "Run" || isAuxPkg(fnPkgPath(fn)) || fn.Signature.Params().Len() != 3 {
			continue
		}
		if b, ok := fn.Signature.Params().At(2).Type().Underlying().(*types.Basic); !ok || b.Kind() != types.Bool {
			continue
		}
		d := &dispatcher{Fn: fn, ReadOnly: fn.Params[len(fn.Params)-1]}
		allCalls(fn, func(c ssa.CallInstruction) {
			if !c.Common().IsInvoke() {
				return
			}
			recv := c.Common().Value.Type().String()
			switch {
			case c.Common().Method.Name() == "Run" && strings.HasSuffix(recv, "contract.PrecompileMethod"):
				d.RunCall = c
			case c.Common().Method.Name() == "IsReadonly":
				d.ROCall = c
			case c.Common().Method.Name() == "CheckDisabledPrecompiles":
				d.GovCall = c
			}
		})
		if d.RunCall != nil {
			out = append(out, d)
		}
	}
	return out
}

// ---------------------------------------------------------------------------------------------------------
// C10

// subject table: callee simple name -> 0-based index among non-context arguments (receiver excluded) of the account
// the call takes value from / acts for. Names are interface/keeper API names of fx-core; an entry whose callee no longer
// exists simply matches nothing (the floor catches a collapse of the table).
var subjectArgs = map[string]int{
	"AddToOutgoingPool":               0, // sender
	"RemoveFromOutgoingPoolAndRefund": 1, // txID, sender
	"AddUnbatchedTxBridgeFee":         1, // txID, sender
	"AddOutgoingBridgeCall":           0, // sender
	"EvmToBaseCoin":                   2, // token, amount, holder
	"BaseCoinToIBCCoin":               1, // coin, holder
	"ConvertDenomToTarget":            0, // from
	"TransferFrom":                    0, // from (ERC20 through the running EVM)
	"SetAllowance":                    1, // validator, owner
	"NewMsgTransfer":                  3, // port, channel, token, sender
}

var subjectFields = map[string]bool{"DelegatorAddress": true}

func (e *Engine) rootsAtCaller(v ssa.Value) (bool, string) {
	bad := ""
	res := e.Slice(v, SliceOpts{MaxDepth: 14, IntoCallers: true}, func(x ssa.Value) Verdict {
		if c, ok := x.(*ssa.Call); ok {
			n := callName(c)
			if n == "Caller" && strings.HasSuffix(recvTypeName(c), "vm.Contract") {
				return Accept
			}
		}
		if n, st, ok := fieldName(x); ok {
			tn := namedTypeName(st)
			if strings.HasSuffix(tn, "Args") {
				bad = "call data field " + lastDot(tn) + "." + n
				return Reject
			}
			if n == "Origin" {
				bad = "evm.Origin"
				return Reject
			}
		}
		return Continue
	})
	if res.AllAccepted() {
		return true, ""
	}
	if bad == "" {
		for _, l := range res.Leaves {
			bad += e.Describe(l) + "; "
		}
	}
	return false, bad
}

func nonCtxArgs(c ssa.CallInstruction) []ssa.Value {
	var out []ssa.Value
	args := c.Common().Args
	if !c.Common().IsInvoke() {
		if f := c.Common().StaticCallee(); f != nil && f.Signature.Recv() != nil && len(args) > 0 {
			args = args[1:]
		}
	}
	for _, a := range args {
		if isCtxType(a.Type()) {
			continue
		}
		out = append(out, a)
	}
	return out
}

func runC10(e *Engine, r *Report, tier string) {
	r.Explanation = "C10, structural clauses. Decided: R1 at every call in the precompile packages to an API that takes value from / acts for an account (subject table: pool add/cancel/fee, outgoing bridge call, EVM->coin conversion, denom conversion, ERC-20 transferFrom, share allowance owner, IBC transfer sender, staking/distribution message delegator) the subject argument has contract.Caller() as its only root — never call data, never evm.Origin; R2 the single exception: the share-transfer routine may be called with a call-data `from` only after the allowance check-and-decrement on (validator, that from, Caller(), same shares), whose shape is `allowance < x -> error; set(allowance - x)`; R3 both dispatchers test `readonly && !IsReadonly()` and the governance switch (with the 4-byte selector used for dispatch) before method.Run, each failing with an error; the go-ethereum fork passes readOnly=true for CALLCODE/DELEGATECALL/STATICCALL and false for CALL; R4 the switch check returns an error for a disabled address and for address/method; R6 a routine that moves coins out of the precompile's own account (the native coins attached to calls accumulate there) is called only with contract.Value() itself or with an amount that a dominating `amount.Cmp(value) != 0 -> error` equates with it — otherwise a caller could take what other callers left on that account; R7 the reward bookkeeping of both parties of a share transfer (the recipient granted nothing) is the C11.R4 obligations. Not decided: what SDK keepers do to third parties internally."
	r.Trusted = []string{"vm.Contract.Caller() is the direct caller of the precompile frame", "subject table (API name -> subject argument position) maintained in the checker"}
	r.Rule("R1", "subject argument of value-taking APIs roots only at contract.Caller()", 12, "subject call sites in x/*/precompile")
	r.Rule("R2", "call-data `from` accepted only behind the allowance check-and-decrement", 3, "share-transfer call sites + allowance routine")
	r.Rule("R3", "dispatchers: readonly guard and governance switch dominate method.Run; go-ethereum readOnly flags", 8, "2 dispatchers x 3 + 4 EVM call kinds")
	r.Rule("R7", "a share transfer leaves the recipient's (a third party's) reward entitlement intact: rewards withdrawn first, F1 bookkeeping paired, every starting-info stake recomputed from that delegation's own shares (C11.R4)", 4, "C11 obligations")
	{
		sub11 := NewReport("C11", "other")
		runC11(e, sub11, tier)
		for _, o := range sub11.Obls {
			if o.Rule == "R4" {
				r.add("R7", "C11.R4 "+o.Construct, o.Status, o.Pos, o.Detail)
			}
		}
	}
	r.Rule("R8", "a share allowance exists only if the granting call frame was kept: allowance writes are journaled with the EVM frame (C09.R1/R2 for the methods that write allowances)", 2, "C09 obligations of methods reaching SetAllowance")
	{
		sub09 := NewReport("C09", "other")
		runC09(e, sub09, tier)
		writers := map[string]bool{}
		for _, m := range e.precompileMethods() {
			if m.Run == nil {
				continue
			}
			// the methods that write the allowance family (staking 0x90), whatever the writer is called
			for f := range e.Reach([]*ssa.Function{m.Run}, func(x *ssa.Function) bool { return !isFx(x) }) {
				if isFx(f) && e.HasTransEffect(f, "staking", "90", "set") {
					writers[m.Name] = true
				}
			}
		}
		for _, o := range sub09.Obls {
			if o.Rule != "R1" && o.Rule != "R2" {
				continue
			}
			for w := range writers {
				if strings.HasPrefix(o.Construct, w) {
					r.add("R8", "C09."+o.Rule+" "+o.Construct, o.Status, o.Pos, o.Detail)
				}
			}
		}
	}
	r.Rule("R9", "entries of the governance switch lists are not normalised with a Trim* cutset mistaken for a prefix (a disabled `address/selector` entry must still equal what the dispatcher compares it with)", 1, "")
	e.ruleTrimCutset(r, "R9", "/x/gov", "/x/evm", "/precompile", "/contract")
	r.Rule("R6", "the precompile account pays out exactly msg.value of the current call: the pay-out routine's amount is contract.Value() or guarded equal to it", 2, "call sites of routines that move coins out of the precompile's own account")
	e.c10PayoutEqualsValue(r)
	r.Rule("R5", "a queued withdrawal keeps its owner: a fee increase re-adds the record it read, unchanged in id / sender / destination / token (C05.R5 identity)", 1, "C05 obligations")
	{
		sub05 := NewReport("C05", "other")
		runC05(e, sub05, tier)
		for _, o := range sub05.Obls {
			if o.Rule == "R5" && strings.HasSuffix(o.Construct, " identity") {
				r.add("R5", "C05.R5 "+o.Construct, o.Status, o.Pos, o.Detail)
			}
		}
	}
	r.Rule("R4", "governance switch: every entry is compared; address and address/method matches return an error", 3, "the switch check")

	inPrecompile := func(fn *ssa.Function) bool { return strings.HasSuffix(fnPkgPath(fn), "/precompile") }

	// share-transfer routine: function in a precompile package calling SetDelegation
	var shareFn *ssa.Function
	for _, fn := range e.Funcs {
		if !inPrecompile(fn) || fn.Parent() != nil {
			continue
		}
		allCalls(fn, func(c ssa.CallInstruction) {
			if callName(c) == "SetDelegation" {
				shareFn = fn
			}
		})
	}

	for _, fn := range e.Funcs {
		if !inPrecompile(fn) {
			continue
		}
		allInstrs(fn, func(i ssa.Instruction) {
			// message fields
			if st, ok := i.(*ssa.Store); ok {
				if fa, ok := st.Addr.(*ssa.FieldAddr); ok {
					n, stt, _ := fieldName(fa)
					if subjectFields[n] && strings.HasPrefix(lastDot(namedTypeName(stt)), "Msg") {
						ck := e.FnKey(fn) + " " + lastDot(namedTypeName(stt)) + "." + n
						if shareFn != nil && within(fn, shareFn) {
							// inside the share-transfer routine the delegator is one of its own address parameters (checked at its call sites, R2)
							res := e.Slice(st.Val, SliceOpts{MaxDepth: 8}, func(x ssa.Value) Verdict {
								if p, ok := x.(*ssa.Parameter); ok && p.Parent() == shareFn && strings.HasSuffix(p.Type().String(), "common.Address") {
									return Accept
								}
								return Continue
							})
							r.Check(res.AllAccepted(), "R1", ck, e.InstrPos(i), "delegator is a party of the share transfer (parties checked at the call sites)", "message delegator inside the share-transfer routine is not one of the transfer's parties")
							return
						}
						ok2, why := e.rootsAtCaller(st.Val)
						r.Check(ok2, "R1", ck, e.InstrPos(i), "delegator <- contract.Caller()", "the account the staking/distribution message acts for is not the direct caller: "+why)
					}
				}
				return
			}
			c, ok := i.(ssa.CallInstruction)
			if !ok {
				return
			}
			idx, ok := subjectArgs[callName(c)]
			if !ok {
				return
			}
			if callName(c) == "SetAllowance" && e.allowanceDecrementShape(rootFn(fn)) {
				return // the owner of a check-and-decrement is the `from` whose allowance the caller spends (R2)
			}
			if callName(c) == "SetAllowance" && fn != rootFn(fn) {
				if _, set, _, ok := e.allowanceDecrementParts(fn); ok && set == c {
					// the same, written out next to the share transfer: R2 checks owner, spender and amount at that site
					spenderOK := false
					for _, x := range nonCtxArgs(c) {
						if ok, _ := e.rootsAtCaller(x); ok && (strings.Contains(x.Type().String(), "Address") || strings.Contains(x.Type().String(), "[]byte")) {
							spenderOK = true
						}
					}
					if spenderOK {
						return
					}
				}
			}
			args := nonCtxArgs(c)
			if idx >= len(args) {
				r.Undecided("R1", e.FnKey(fn)+" "+callName(c), e.InstrPos(c), "subject table position does not exist at this call (API changed): review the table")
				return
			}
			a := args[idx]
			ts := a.Type().String()
			if !(strings.Contains(ts, "Address") || strings.Contains(ts, "string") || strings.Contains(ts, "[]byte")) {
				r.Undecided("R1", e.FnKey(fn)+" "+callName(c), e.InstrPos(c), "subject table position holds a "+ts+" (API changed): review the table")
				return
			}
			ck := e.FnKey(fn) + " " + callName(c) + "#subject"
			ok2, why := e.rootsAtCaller(a)
			r.Check(ok2, "R1", ck, e.InstrPos(c), "subject <- contract.Caller()", "value is taken from / the action is performed for an account that is not the direct caller: "+why)
		})
	}

	// R2: share-transfer call sites
	if shareFn == nil {
		r.Fail("R2", "share-transfer routine", "", "UNRESOLVED-ANCHOR: no function in a precompile package rewrites delegations")
	} else {
		// subject param: the address param whose delegation loses shares = the one used in RemoveDelegation / first address param
		var addrPars []*ssa.Parameter
		for _, p := range shareFn.Params {
			if strings.HasSuffix(p.Type().String(), "common.Address") {
				addrPars = append(addrPars, p)
			}
		}
		var subj *ssa.Parameter
		allInstrs(shareFn, func(i ssa.Instruction) {
			st, ok := i.(*ssa.Store)
			if !ok {
				return
			}
			fa, ok := st.Addr.(*ssa.FieldAddr)
			if !ok {
				return
			}
			if n, _, _ := fieldName(fa); n != "Shares" {
				return
			}
			if c, ok := st.Val.(*ssa.Call); ok && callName(c) == "Sub" {
				// the delegation value comes from GetDelegation(param.Bytes())
				e.Slice(fa.X, SliceOpts{MaxDepth: 8}, func(x ssa.Value) Verdict {
					if gc, ok := x.(*ssa.Call); ok && callName(gc) == "GetDelegation" {
						for _, a := range callArgs(gc) {
							e.Slice(a, SliceOpts{MaxDepth: 4}, func(y ssa.Value) Verdict {
								if p, ok := y.(*ssa.Parameter); ok && p.Parent() == shareFn && strings.HasSuffix(p.Type().String(), "common.Address") {
									subj = p
									return Accept
								}
								return Continue
							})
						}
						return Accept
					}
					return Continue
				})
			}
		})
		if subj == nil {
			r.Fail("R2", e.FnKey(shareFn)+" subject", e.Pos(shareFn.Pos()), "cannot identify the party whose shares are reduced (anchor unresolved)")
		} else {
			r.Ok("R2", e.FnKey(shareFn)+" subject", e.Pos(shareFn.Pos()), "shares are subtracted from the delegation of parameter "+subj.Name())
			for _, cs := range e.CallSites(shareFn) {
				if isAuxPkg(fnPkgPath(cs.Caller)) {
					continue
				}
				ck := e.FnKey(cs.Caller) + " -> share transfer"
				a := argFor(cs, subj)
				if ok, _ := e.rootsAtCaller(a); ok {
					r.Ok("R2", ck, e.InstrPos(cs.Call), "from <- contract.Caller()")
					continue
				}
				// must be dominated by the allowance decrement with (from=a, spender=Caller, same shares)
				var sharesArg ssa.Value
				for _, x := range cs.Call.Common().Args {
					if strings.HasSuffix(x.Type().String(), "big.Int") {
						sharesArg = x
					}
				}
				okDec := false
				why := "no dominating allowance check-and-decrement"
				allCalls(cs.Caller, func(c ssa.CallInstruction) {
					f := c.Common().StaticCallee()
					if f == nil || !isFx(f) || !e.allowanceDecrementShape(f) {
						return
					}
					// the decrement either precedes the transfer on every path, or follows it on every success path
					// (both run inside one native action, so a failing decrement still undoes the transfer)
					if !Dominates(c, cs.Call) {
						if cs.Call.Parent() != c.Parent() || MustPassThrough(cs.Caller, cs.Call, func(i ssa.Instruction) bool { return i == ssa.Instruction(c) }) != nil {
							return
						}
					}
					// args: owner SameExpr a ; spender roots at Caller ; amount SameExpr shares
					hasOwner, hasSpender, hasAmt := false, false, false
					for _, x := range c.Common().Args {
						if SameExpr(stripBytes(x), stripBytes(a), 6) {
							hasOwner = true
						} else if ok, _ := e.rootsAtCaller(x); ok && !isCtxType(x.Type()) && strings.Contains(x.Type().String(), "Address") {
							hasSpender = true
						}
						if sharesArg != nil && SameExpr(x, sharesArg, 6) {
							hasAmt = true
						}
					}
					if hasOwner && hasSpender && hasAmt {
						if ok, _ := errorHandled(c); ok {
							okDec = true
						} else {
							why = "allowance decrement error is not propagated"
						}
					} else {
						why = fmt.Sprintf("allowance decrement arguments do not match (owner=%v spender=Caller:%v amount=%v)", hasOwner, hasSpender, hasAmt)
					}
				})
				if !okDec {
					// the check-and-decrement written out in the calling function itself
					if get, set, amt, ok := e.allowanceDecrementParts(cs.Caller); ok {
						ordered := Dominates(set, cs.Call)
						if !ordered && MustPassThrough(cs.Caller, cs.Call, func(i ssa.Instruction) bool { return i == ssa.Instruction(set) }) == nil {
							ordered = true
						}
						keyOK := func(c ssa.CallInstruction) bool {
							hasOwner, hasSpender := false, false
							for _, x := range c.Common().Args {
								if SameExpr(stripBytes(x), stripBytes(a), 6) {
									hasOwner = true
								} else if ok, _ := e.rootsAtCaller(x); ok && !isCtxType(x.Type()) && (strings.Contains(x.Type().String(), "Address") || strings.Contains(x.Type().String(), "[]byte")) {
									hasSpender = true
								}
							}
							return hasOwner && hasSpender
						}
						hasAmt := sharesArg != nil && amt != nil && SameExpr(amt, sharesArg, 6)
						switch {
						case !ordered:
							why = "the allowance decrement does not run on every path that moves the shares"
						case !keyOK(get) || !keyOK(set) || !hasAmt:
							why = fmt.Sprintf("allowance decrement arguments do not match (read key=%v written key=%v amount=%v)", keyOK(get), keyOK(set), hasAmt)
						default:
							okDec = true
						}
					}
				}
				r.Check(okDec, "R2", ck, e.InstrPos(cs.Call), "call-data `from` behind allowance check-and-decrement(owner=from, spender=Caller(), same shares)", "shares of an account that is not the caller can be moved: "+why)
			}
		}
	}

	// R3 dispatchers
	disp := e.precompileDispatchers()
	if len(disp) < 2 {
		r.Fail("R3", "dispatchers", "", fmt.Sprintf("UNRESOLVED-ANCHOR: %d dispatchers", len(disp)))
	}
	for _, d := range disp {
		base := e.FnKey(d.Fn)
		// readonly guard
		okRO := false
		for _, g := range GuardsOf(d.RunCall) {
			// shape: if readonly { if !IsReadonly() {fail} }  -> RunCall not dominated by a single guard. Use path check below.
			_ = g
		}
		// path check: can RunCall be reached from entry with readonly==true && IsReadonly()==false without hitting a failing return?
		// structural: exists If on readonly param whose true-branch leads to If on IsReadonly() result whose false-branch fails clean.
		allInstrs(d.Fn, func(i ssa.Instruction) {
			iff, ok := i.(*ssa.If)
			if !ok || iff.Cond != ssa.Value(d.ReadOnly) {
				return
			}
			tb := iff.Block().Succs[0]
			if len(tb.Instrs) == 0 {
				return
			}
			if in, ok := tb.Instrs[len(tb.Instrs)-1].(*ssa.If); ok {
				if c, ok := in.Cond.(*ssa.Call); ok && callName(c) == "IsReadonly" {
					if BranchFailsClean(in, false, nil) && iff.Block().Dominates(d.RunCall.Block()) {
						okRO = true
					}
				}
				if u, ok := in.Cond.(*ssa.UnOp); ok {
					if c, ok := u.X.(*ssa.Call); ok && callName(c) == "IsReadonly" && BranchFailsClean(in, true, nil) && iff.Block().Dominates(d.RunCall.Block()) {
						okRO = true
					}
				}
			}
		})
		r.Check(okRO, "R3", base+" readonly-guard", e.InstrPos(d.RunCall), "`readonly && !method.IsReadonly()` -> error before method.Run", "a state-changing method can run in a read-only (STATICCALL/DELEGATECALL/CALLCODE) context")
		// gov switch
		okGov := false
		why := "no CheckDisabledPrecompiles call"
		if d.GovCall != nil {
			why = ""
			if !Dominates(d.GovCall, d.RunCall) {
				why = "governance switch is checked after (or not on every path before) method.Run"
			} else if ok, w := errorHandled(d.GovCall); !ok {
				why = "governance switch result ignored: " + w
			} else {
				// method id argument: GetMethodId() of the dispatched method or Input[:4]
				var idArg ssa.Value
				for _, a := range d.GovCall.Common().Args {
					if sl, ok := a.Type().Underlying().(*types.Slice); ok && isByte(sl.Elem()) {
						idArg = a
					}
				}
				okID := false
				if idArg != nil {
					if c, ok := idArg.(*ssa.Call); ok && callName(c) == "GetMethodId" {
						if SameExpr(c.Common().Value, d.RunCall.Common().Value, 4) {
							okID = true
						}
					}
					if sl, ok := idArg.(*ssa.Slice); ok {
						if hi, ok := constInt(sl.High); ok && hi == 4 && sl.Low == nil {
							if n, _, ok := fieldNameOfLoad(sl.X); ok && n == "Input" {
								okID = true
							}
						}
					}
				}
				if !okID {
					why = "method id passed to the governance switch is not the dispatched method's selector"
				} else {
					// address argument = c.Address()
					okGov = true
				}
			}
		}
		r.Check(okGov, "R3", base+" gov-switch", e.InstrPos(d.RunCall), "CheckDisabledPrecompiles(address, selector) -> error dominates method.Run", why)
		// dispatch selector: RunCall guarded by bytes.Equal(method.GetMethodId(), Input[:4])
		okSel := false
		for _, g := range GuardsOf(d.RunCall) {
			ci, ok := NormCond(g)
			if !ok || ci.Op != "==" || ci.X == nil || ci.Y == nil {
				continue
			}
			// an equality one side of which is a method's selector (GetMethodId()), in any spelling
			for _, v := range []ssa.Value{ci.X, ci.Y} {
				if c, ok := stripConv(v).(*ssa.Call); ok && callName(c) == "GetMethodId" {
					okSel = true
				}
			}
		}
		r.Check(okSel, "R3", base+" selector", e.InstrPos(d.RunCall), "method chosen by its 4-byte selector", "method.Run is not guarded by a selector comparison")
	}
	// go-ethereum readOnly flags (dependency body, loaded from the fork actually built)
	want := map[string]bool{"Call": false, "CallCode": true, "DelegateCall": true, "StaticCall": true}
	seen := map[string]bool{}
	for _, f := range e.DepFuncs {
		if f.Pkg == nil || !strings.HasSuffix(f.Pkg.Pkg.Path(), "go-ethereum/core/vm") || f.Signature.Recv() == nil {
			continue
		}
		w, ok := want[f.Name()]
		if !ok || !strings.HasSuffix(f.Signature.Recv().Type().String(), "vm.EVM") {
			continue
		}
		allCalls(f, func(c ssa.CallInstruction) {
			if callName(c) != "RunPrecompiledContract" {
				return
			}
			args := c.Common().Args
			last := args[len(args)-1]
			k, isC := last.(*ssa.Const)
			seen[f.Name()] = true
			okv := isC && k.Value != nil && k.Value.Kind() == constant.Bool && constant.BoolVal(k.Value) == w
			r.Check(okv, "R3", "go-ethereum EVM."+f.Name()+" readOnly", e.InstrPos(c), fmt.Sprintf("passes readOnly=%v to RunPrecompiledContract", w), fmt.Sprintf("go-ethereum fork: EVM.%s must pass readOnly=%v to precompiles", f.Name(), w))
		})
	}
	for n := range want {
		if !seen[n] {
			r.Fail("R3", "go-ethereum EVM."+n+" readOnly", "", "UNRESOLVED-ANCHOR: EVM."+n+" does not call RunPrecompiledContract in the go-ethereum fork being built")
		}
	}

	// R4 switch check shape
	var chk *ssa.Function
	for _, fn := range e.Funcs {
		if fn.Name() == "CheckContractAddressIsDisabled" && !isAuxPkg(fnPkgPath(fn)) {
			chk = fn
		}
	}
	if chk == nil {
		// renamed: the function taking (the disabled list, the called address, the method id) and returning an error
		chk = e.findFn(func(f *ssa.Function) bool {
			if f.Signature.Results().Len() != 1 || !isErrorType(f.Signature.Results().At(0).Type()) {
				return false
			}
			var hasList, hasAddr, hasID bool
			for _, p := range f.Params {
				switch ts := p.Type().String(); {
				case ts == "[]string":
					hasList = true
				case strings.HasSuffix(ts, "common.Address"):
					hasAddr = true
				case ts == "[]byte":
					hasID = true
				}
			}
			return hasList && hasAddr && hasID
		})
	}
	if chk == nil {
		// fallback: callee of CheckDisabledPrecompiles
		r.Fail("R4", "switch-check", "", "UNRESOLVED-ANCHOR: governance switch comparison routine not found")
	} else {
		// the list scan: an entry that names the address (whole) or address/method makes the call fail, and no entry is
		// skipped — the loop is left early only through an error return
		var hdr *ssa.BasicBlock
		var loop map[*ssa.BasicBlock]bool
		for _, b := range chk.Blocks {
			if h, set := loopOf(b); h != nil {
				hdr, loop = h, set
			}
		}
		ck := e.FnKey(chk)
		if hdr == nil {
			r.Fail("R4", ck+" scan-complete", e.Pos(chk.Pos()), "UNRESOLVED-ANCHOR: the switch check does not iterate over the disabled list")
		} else {
			onlyFailure := func(start *ssa.BasicBlock) *ssa.Return {
				seen := map[*ssa.BasicBlock]bool{}
				var bad *ssa.Return
				var dfs func(b *ssa.BasicBlock)
				dfs = func(b *ssa.BasicBlock) {
					if seen[b] || bad != nil {
						return
					}
					seen[b] = true
					if ret, ok := b.Instrs[len(b.Instrs)-1].(*ssa.Return); ok {
						if !IsFailureReturn(ret) {
							bad = ret
						}
						return
					}
					for _, s2 := range b.Succs {
						dfs(s2)
					}
				}
				dfs(start)
				return bad
			}
			var early *ssa.Return
			for b := range loop {
				if b == hdr {
					continue
				}
				for _, s2 := range b.Succs {
					if !loop[s2] {
						if ret := onlyFailure(s2); ret != nil {
							early = ret
						}
					}
				}
			}
			if early != nil {
				r.Fail("R4", ck+" scan-complete", e.InstrPos(early), "the scan of the disabled list can be left early without an error (break / early return): entries after that point are never compared, so a disabled address or method listed later still executes")
			} else {
				r.Ok("R4", ck+" scan-complete", e.Pos(chk.Pos()), "the loop over the disabled list is left early only through an error return")
			}
			var addrPar, methPar *ssa.Parameter
			for _, p := range chk.Params {
				ts := p.Type().String()
				if strings.HasSuffix(ts, "common.Address") {
					addrPar = p
				}
				if ts == "[]byte" {
					methPar = p
				}
			}
			addrOnly, withMethod := false, false
			for b := range loop {
				for _, in := range b.Instrs {
					_ = in
				}
			}
			for _, b := range chk.Blocks {
				ret, ok := b.Instrs[len(b.Instrs)-1].(*ssa.Return)
				if !ok || !IsFailureReturn(ret) {
					continue
				}
				inLoop := false
				for _, g := range GuardsOf(ret) {
					if loop[g.If.Block()] {
						inLoop = true
					}
				}
				if !inLoop {
					continue
				}
				a, m := false, false
				extra := false
				for _, g := range GuardsOf(ret) {
					if !loop[g.If.Block()] {
						continue
					}
					ci, ok := NormCond(g)
					if ok && (ci.Op == "found" || ci.Op == "!found") {
						continue // the boolean of the entry split (strings.Cut)
					}
					if g.If.Block() == hdr {
						continue // the loop's own continuation test
					}
					if !ok || (ci.Op != "==" && ci.Op != "!=") || ci.X == nil || ci.Y == nil {
						extra = true // any further condition narrows the match
						continue
					}
					if bt, ok := ci.X.Type().Underlying().(*types.Basic); !ok || bt.Kind() != types.String {
						extra = true
						continue
					}
					if ci.Op == "!=" {
						continue // the other kind of entry did not match: not a narrowing of this match
					}
					for _, side := range []ssa.Value{ci.X, ci.Y} {
						if addrPar != nil && e.rootsParam(side, addrPar) {
							a = true
						}
						if methPar != nil && e.rootsParam(side, methPar) {
							m = true
						}
					}
				}
				if extra {
					continue
				}
				if a && !m {
					addrOnly = true
				}
				if m {
					withMethod = true
				}
			}
			r.Check(addrOnly, "R4", ck+" address-match", e.Pos(chk.Pos()), "an entry equal to the address alone returns an error", "no error return is guarded by exactly the comparison with the called address (a further condition narrows the match): disabling a whole precompile has no effect for some calls")
			r.Check(withMethod, "R4", ck+" method-match", e.Pos(chk.Pos()), "an entry naming address and method id returns an error", "no error return is guarded by exactly the comparison with the called method id (a further condition narrows the match): disabling one method has no effect for some calls")
		}
	}
}

func stripBytes(v ssa.Value) ssa.Value {
	for {
		v = stripConv(v)
		if c, ok := v.(*ssa.Call); ok && (callName(c) == "Bytes") {
			a := callArgs(c)
			if len(a) == 1 {
				v = a[0]
				continue
			}
		}
		return v
	}
}

// allowanceDecrementShape: f reads the allowance (family staking:90 via a getter), fails when allowance < x, and writes allowance - x.
func (e *Engine) allowanceDecrementShape(f *ssa.Function) bool {
	_, _, _, ok := e.allowanceDecrementParts(f)
	return ok
}

// allowanceDecrementParts returns the read, the write and the compared amount of a check-and-decrement found in f.
func (e *Engine) allowanceDecrementParts(f *ssa.Function) (get, set ssa.CallInstruction, cmpAmt ssa.Value, okShape bool) {
	allCalls(f, func(c ssa.CallInstruction) {
		if e.callDirectOp(c, "staking", "90", "get") && get == nil {
			get = c
		}
		if e.callDirectOp(c, "staking", "90", "set") && set == nil {
			set = c
		}
	})
	if get == nil || set == nil {
		return
	}
	gv := get.(ssa.Value)
	// guard: allowance.Cmp(x) < 0 -> fail, dominating set
	okGuard := false
	for _, g := range GuardsOf(set) {
		rel, ok := RelOf(g)
		if !ok || rel.A == nil || rel.B == nil {
			continue
		}
		// allowance >= x on the passing branch, in any spelling (Cmp either way round, negated, mirrored)
		isAllow := func(v ssa.Value) bool { return stripConv(v) == gv }
		other := func(v ssa.Value) bool { return stripConv(v) != gv }
		if rel.Says(">=", isAllow, other) && BranchFailsClean(g.If, !g.Pol, func(i ssa.Instruction) bool { return e.EffectOf(i) != "" }) {
			okGuard = true
			if stripConv(rel.A) == gv {
				cmpAmt = rel.B
			} else {
				cmpAmt = rel.A
			}
		}
	}
	if !okGuard {
		return
	}
	// written value = Sub(allowance, x)
	okSub := false
	for _, a := range set.Common().Args {
		if c, ok := a.(*ssa.Call); ok && callName(c) == "Sub" {
			as := callArgs(c)
			if len(as) == 3 && as[1] == gv && (as[2] == cmpAmt || SameExpr(as[2], cmpAmt, 6)) {
				okSub = true
			}
		}
	}
	// the allowance written is the one that was read: same key arguments, position by position
	ga, sa := nonCtxArgs(get), nonCtxArgs(set)
	if len(ga) == 0 || len(sa) != len(ga)+1 {
		return
	}
	for i := range ga {
		if ga[i] != sa[i] && !SameExpr(ga[i], sa[i], 6) {
			return
		}
	}
	okShape = okSub
	return
}

// ephemeralCtxEffect: the call's context argument is the branch of a CacheContext() whose write-back function is never
// used (query-on-a-scratch-branch idiom): its writes are discarded.
func (e *Engine) ephemeralCtxEffect(i ssa.Instruction) bool {
	c, ok := i.(ssa.CallInstruction)
	if !ok {
		return false
	}
	found := false
	for _, a := range callArgs(c) {
		if !isCtxType(a.Type()) {
			continue
		}
		found = true
		ex, ok := stripConv(a).(*ssa.Extract)
		if !ok || ex.Index != 0 {
			return false
		}
		cc0, ok := ex.Tuple.(*ssa.Call)
		if !ok || callName(cc0) != "CacheContext" {
			return false
		}
		for _, ref := range *cc0.Referrers() {
			if e2, ok := ref.(*ssa.Extract); ok && e2.Index == 1 && len(*e2.Referrers()) > 0 {
				return false
			}
		}
	}
	return found
}

// abiNameOf: the constant key of the first abi.Methods[...] lookup in a constructor returning (a pointer to) T.
func (e *Engine) abiNameOf(T types.Type) string {
	want := namedTypeName(T)
	best := ""
	for _, fn := range e.Funcs {
		if fn.Parent() != nil || fn.Signature.Recv() != nil || fn.Signature.Results().Len() != 1 {
			continue
		}
		if namedTypeName(fn.Signature.Results().At(0).Type()) != want {
			continue
		}
		allInstrs(fn, func(i ssa.Instruction) {
			if best != "" {
				return
			}
			if lk, ok := i.(*ssa.Lookup); ok {
				if strings.HasSuffix(lk.Type().String(), "abi.Method") {
					if k, ok := constString(lk.Index); ok {
						best = k
					}
				}
			}
		})
	}
	return best
}

// storeAliasRule: every value read from a KVStore (Get) or a store iterator (Key/Value) is followed through re-slicing,
// conversions and phis; any in-place write through it is reported.
func (e *Engine) storeAliasRule(r *Report, rule string) {
	isStoreRead := func(c ssa.CallInstruction) bool {
		com := c.Common()
		n := ""
		if com.IsInvoke() {
			n = com.Method.Name()
		} else if f := com.StaticCallee(); f != nil {
			n = f.Name()
		}
		if n != "Get" && n != "Key" && n != "Value" {
			return false
		}
		v, ok := c.(ssa.Value)
		if !ok {
			return false
		}
		sl, ok := v.Type().Underlying().(*types.Slice)
		if !ok {
			return false
		}
		if b, ok := sl.Elem().Underlying().(*types.Basic); !ok || b.Kind() != types.Byte {
			return false
		}
		var recv types.Type
		if com.IsInvoke() {
			recv = com.Value.Type()
		} else if f := com.StaticCallee(); f != nil && f.Signature.Recv() != nil {
			recv = f.Signature.Recv().Type()
		}
		if recv == nil {
			return false
		}
		rs := recv.String()
		return strings.Contains(rs, "KVStore") || strings.Contains(rs, "Iterator") || strings.Contains(rs, "prefix.Store") || strings.Contains(rs, "store/")
	}
	n := 0
	ord := map[*ssa.Function]int{}
	for _, fn := range e.Funcs {
		if isAuxPkg(fnPkgPath(fn)) {
			continue
		}
		allCalls(fn, func(c ssa.CallInstruction) {
			if !isStoreRead(c) {
				return
			}
			n++
			ord[fn]++
			ck := fmt.Sprintf("%s %s#%d", e.FnKey(fn), callName(c), ord[fn])
			seen := map[ssa.Value]bool{}
			var bad ssa.Instruction
			var why string
			var follow func(v ssa.Value)
			follow = func(v ssa.Value) {
				if seen[v] || bad != nil {
					return
				}
				seen[v] = true
				for _, ref := range *v.Referrers() {
					switch x := ref.(type) {
					case *ssa.Slice:
						if x.X == v {
							follow(x)
						}
					case *ssa.Phi:
						follow(x)
					case *ssa.ChangeType:
						follow(x)
					case *ssa.IndexAddr:
						if x.X != v {
							continue
						}
						for _, r2 := range *x.Referrers() {
							if st, ok := r2.(*ssa.Store); ok && st.Addr == ssa.Value(x) {
								bad, why = st, "an element of the slice is assigned"
							}
						}
					case ssa.CallInstruction:
						com := x.Common()
						if b, ok := com.Value.(*ssa.Builtin); ok {
							if b.Name() == "copy" && len(com.Args) > 0 && com.Args[0] == v {
								bad, why = x, "it is the destination of copy()"
							}
							if b.Name() == "append" && len(com.Args) > 0 && com.Args[0] == v {
								if _, isSl := v.(*ssa.Slice); isSl {
									bad, why = x, "append() onto a re-slice of it writes into its backing array"
								}
							}
							continue
						}
						cn := callName(x)
						if strings.HasPrefix(cn, "PutUint") || strings.HasPrefix(cn, "PutVarint") || strings.HasPrefix(cn, "PutUvarint") || cn == "FillBytes" || (cn == "Read" && !com.IsInvoke()) {
							for _, a := range com.Args {
								if a == v {
									bad, why = x, cn+" writes into it"
								}
							}
						}
					}
				}
			}
			follow(c.(ssa.Value))
			if bad != nil {
				r.Fail(rule, ck, e.InstrPos(bad), "the byte slice returned by the store is written in place ("+why+"): cache layers and journal snapshots share that slice, the write reaches the parent store without a Set and is not undone when the frame or transaction is reverted")
			} else {
				r.Ok(rule, ck, e.InstrPos(c), "read-only use of the stored bytes")
			}
		})
	}
	if n == 0 {
		r.Fail(rule, "store reads", "", "UNRESOLVED-ANCHOR: no KVStore read found")
	}
}

// c10PayoutEqualsValue: R6. Pay-out routine = a function of a precompile package that moves coins from the precompile's own
// address (an account argument rooted at a GetAddress() call) with an amount rooted at one of its *big.Int parameters.
func (e *Engine) c10PayoutEqualsValue(r *Report) {
	nsites := 0
	for _, fn := range e.Funcs {
		if fn.Parent() != nil || !strings.HasSuffix(fnPkgPath(fn), "/precompile") || isAuxPkg(fnPkgPath(fn)) {
			continue
		}
		var amtPar *ssa.Parameter
		allCalls(fn, func(c ssa.CallInstruction) {
			if !strings.HasPrefix(callName(c), "SendCoins") {
				return
			}
			own := false
			for _, a := range c.Common().Args {
				e.Slice(a, SliceOpts{MaxDepth: 5}, func(x ssa.Value) Verdict {
					if cc0, ok := x.(*ssa.Call); ok && callName(cc0) == "GetAddress" {
						own = true
						return Accept
					}
					return Continue
				})
			}
			if !own {
				return
			}
			for _, a := range c.Common().Args {
				if !isCoinsType(a.Type()) && !isCoinType(a.Type()) {
					continue
				}
				for _, p := range fn.Params {
					if strings.HasSuffix(p.Type().String(), "big.Int") && e.rootsParam(a, p) {
						amtPar = p
					}
				}
			}
		})
		if amtPar == nil {
			continue
		}
		pidx := paramIndex(amtPar)
		for _, cs := range e.CallSites(fn) {
			if isAuxPkg(fnPkgPath(cs.Caller)) {
				continue
			}
			nsites++
			ck := e.CanonFnKey(rootFn(cs.Caller)) + " -> " + fn.Name() + " amount"
			args := cs.Call.Common().Args
			if pidx >= len(args) {
				r.Fail("R6", ck, e.InstrPos(cs.Call), "UNRESOLVED-ANCHOR: amount argument not found")
				continue
			}
			amt := args[pidx]
			isValue := func(v ssa.Value) bool {
				res := e.Slice(v, SliceOpts{MaxDepth: 5}, func(x ssa.Value) Verdict {
					if cc0, ok := x.(*ssa.Call); ok && callName(cc0) == "Value" && strings.HasSuffix(recvTypeName(cc0), "vm.Contract") {
						return Accept
					}
					return Continue
				})
				return res.AllAccepted()
			}
			if isValue(amt) {
				r.Ok("R6", ck, e.InstrPos(cs.Call), "the amount is contract.Value()")
				continue
			}
			ak := vkey(amt, 0)
			okEq := false
			for _, g := range GuardsOf(cs.Call) {
				ci, ok := NormCond(g)
				if !ok || ci.Op != "==" || ci.X == nil || ci.Y == nil {
					continue
				}
				// amount.Cmp(value) == 0 on the path to the call
				cmp, isCmp := stripConv(ci.X).(*ssa.Call)
				k, isK := constInt(ci.Y)
				if !isCmp || !isK || k != 0 || callName(cmp) != "Cmp" {
					continue
				}
				ca := callArgs(cmp)
				if len(ca) != 2 {
					continue
				}
				if (vkey(ca[0], 0) == ak && isValue(ca[1])) || (vkey(ca[1], 0) == ak && isValue(ca[0])) {
					okEq = true
				}
			}
			if okEq {
				r.Ok("R6", ck, e.InstrPos(cs.Call), "amount.Cmp(contract.Value()) == 0 holds on every path to the pay-out")
			} else {
				r.Fail("R6", ck, e.InstrPos(cs.Call), "coins are paid out of the precompile's own account for an amount that is not tied to the value attached to this call (no dominating `amount.Cmp(msg.value) != 0 -> error`): the difference comes from what other callers left on that account")
			}
		}
	}
	if nsites == 0 {
		r.Fail("R6", "pay-out sites", "", "UNRESOLVED-ANCHOR: no call of a routine that moves coins out of the precompile's own account")
	}
}


// nativeActionCallUnjournaled: the journaling primitive is the ExecuteNativeAction method of the EVM state DB (an interface
// invoke, or a dependency's method). A call to an fx-core function of that name is a wrapper: it is accepted only if its
// action parameter is never called directly and is only handed on to the primitive (or to another such wrapper) — otherwise
// some path runs the action outside the journal (round-7 seed C09: "a call sent by the transaction sender itself needs no
// snapshot"). Returns "" when journaled, else the reason.
func (e *Engine) nativeActionCallUnjournaled(c ssa.CallInstruction, depth int) string {
	cc := c.Common()
	if cc.IsInvoke() {
		return ""
	}
	f := cc.StaticCallee()
	if f == nil {
		return "ExecuteNativeAction is called through a function value: cannot decide that the action is journaled"
	}
	if !isFx(f) {
		return ""
	}
	if depth > 3 {
		return "wrapper chain around ExecuteNativeAction too deep to decide"
	}
	var action *ssa.Parameter
	for _, p := range f.Params {
		if sig, ok := p.Type().Underlying().(*types.Signature); ok && sig.Params().Len() == 1 && strings.HasSuffix(sig.Params().At(0).Type().String(), "types.Context") {
			action = p
		}
	}
	if action == nil {
		return "fx-core function " + e.FnKey(f) + " named ExecuteNativeAction takes no action closure"
	}
	handed := 0
	for _, ref := range *action.Referrers() {
		call, ok := ref.(ssa.CallInstruction)
		if !ok {
			if _, isDbg := ref.(*ssa.DebugRef); isDbg {
				continue
			}
			return "wrapper " + e.FnKey(f) + " stores or forwards the action in a way that cannot be followed"
		}
		if call.Common().Value == ssa.Value(action) {
			return "wrapper " + e.FnKey(f) + " calls the action directly on some path (outside the state DB's journal): its effects are then not undone with the EVM frame — and a failed top-level call still commits the state DB"
		}
		if callName(call) != "ExecuteNativeAction" {
			return "wrapper " + e.FnKey(f) + " hands the action to " + callName(call) + ", which is not the journaling primitive"
		}
		if why := e.nativeActionCallUnjournaled(call, depth+1); why != "" {
			return why
		}
		handed++
	}
	if handed == 0 {
		return "wrapper " + e.FnKey(f) + " never hands the action to the state DB"
	}
	// every success path of the wrapper must go through the primitive
	off := MustPassThrough(f, nil, func(i ssa.Instruction) bool {
		call, ok := i.(ssa.CallInstruction)
		return ok && callName(call) == "ExecuteNativeAction"
	})
	if off != nil {
		return "wrapper " + e.FnKey(f) + " can return success without running the action through the state DB"
	}
	return ""
}
