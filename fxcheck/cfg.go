package main

import (
	"fmt"
	"go/constant"
	"go/token"
	"go/types"
	"os"
	"sort"
	"strings"

	"golang.org/x/tools/go/ssa"
)

// ---------- positions inside a function ----------

func instrIndex(i ssa.Instruction) int {
	for k, x := range i.Block().Instrs {
		if x == i {
			return k
		}
	}
	return -1
}

// Dominates: instruction a dominates instruction b (same function).
func Dominates(a, b ssa.Instruction) bool {
	if a.Parent() != b.Parent() {
		return false
	}
	if a.Block() == b.Block() {
		return instrIndex(a) < instrIndex(b)
	}
	return a.Block().Dominates(b.Block())
}

// ---------- guards ----------

type Guard struct {
	Cond ssa.Value
	Pol  bool // true: condition holds on this path
	If   *ssa.If
}

// GuardsOf returns the branch conditions (with polarity) that dominate instruction i.
func GuardsOf(i ssa.Instruction) []Guard {
	return GuardsOfBlock(i.Block())
}

// GuardsOfBlock: the conditions that hold whenever b runs: those of the branches dominating b, and — when b runs only under
// a boolean flag — the conditions common to every point at which that flag becomes true (they held when it was set; SSA
// values do not change afterwards).
func GuardsOfBlock(b *ssa.BasicBlock) []Guard {
	out := plainGuardsOfBlock(b)
	if len(b.Instrs) == 0 {
		return out
	}
	for _, sites := range flagGuards(b.Instrs[0]) {
		var common []Guard
		for k, s := range sites {
			gs := plainGuardsOfBlock(s.Block())
			for _, x := range siteExtra[s] {
				dup := false
				for _, g := range gs {
					if g.Cond == x.Cond && g.Pol == x.Pol {
						dup = true
					}
				}
				if !dup {
					gs = append(gs, x)
				}
			}
			if k == 0 {
				common = gs
				continue
			}
			var keep []Guard
			for _, c := range common {
				for _, g := range gs {
					if g.Cond == c.Cond && g.Pol == c.Pol {
						keep = append(keep, c)
						break
					}
				}
			}
			common = keep
		}
		for _, c := range common {
			dup := false
			for _, o := range out {
				if o.Cond == c.Cond && o.Pol == c.Pol {
					dup = true
				}
			}
			if !dup {
				out = append(out, c)
			}
		}
	}
	return out
}

// siteExtra: conditions that hold in addition to the dominating ones when a flag becomes true at a site (see trueSites).
var siteExtra = map[ssa.Instruction][]Guard{}

// ifTesting: the If instruction that branches on v (possibly through negations).
func ifTesting(v ssa.Value) *ssa.If {
	if v.Referrers() == nil {
		return nil
	}
	for _, r := range *v.Referrers() {
		switch x := r.(type) {
		case *ssa.If:
			return x
		case *ssa.UnOp:
			if x.Op == token.NOT {
				if iff := ifTesting(x); iff != nil {
					return iff
				}
			}
		}
	}
	return nil
}

func plainGuardsOfBlock(b *ssa.BasicBlock) []Guard {
	var out []Guard
	// for every dominator D of b with If terminator, check which successor edge dominates b
	for d := b.Idom(); d != nil; d = d.Idom() {
		if len(d.Instrs) == 0 {
			continue
		}
		iff, ok := d.Instrs[len(d.Instrs)-1].(*ssa.If)
		if !ok {
			continue
		}
		t, f := d.Succs[0], d.Succs[1]
		td := edgeDominates(d, t, b)
		fd := edgeDominates(d, f, b)
		if td && !fd {
			out = append(out, Guard{iff.Cond, true, iff})
		} else if fd && !td {
			out = append(out, Guard{iff.Cond, false, iff})
		}
	}
	return out
}

// edgeDominates: every path from entry to b goes through edge d->s.
func edgeDominates(d, s, b *ssa.BasicBlock) bool {
	if !s.Dominates(b) && s != b {
		return false
	}
	// s must be entered only via d (or via blocks dominated by s — back edges)
	for _, p := range s.Preds {
		if p == d {
			continue
		}
		if !s.Dominates(p) {
			return false
		}
	}
	return true
}

// ---------- reachability avoiding a set of instructions ----------

// ReachAvoiding: can execution starting right after `from` (or at function entry if from==nil)
// reach `to` (an instruction) without executing any instruction in `avoid`?
func ReachAvoiding(fn *ssa.Function, from ssa.Instruction, to func(ssa.Instruction) bool, avoid func(ssa.Instruction) bool) ssa.Instruction {
	type st struct {
		b   *ssa.BasicBlock
		idx int
	}
	seen := map[*ssa.BasicBlock]bool{}
	var q []st
	if from == nil {
		if len(fn.Blocks) == 0 {
			return nil
		}
		q = append(q, st{fn.Blocks[0], 0})
		seen[fn.Blocks[0]] = true
	} else {
		q = append(q, st{from.Block(), instrIndex(from) + 1})
		// the from block may be re-entered from the top via a loop: not marked seen
	}
	for len(q) > 0 {
		s := q[0]
		q = q[1:]
		blocked := false
		for k := s.idx; k < len(s.b.Instrs); k++ {
			in := s.b.Instrs[k]
			if avoid != nil && avoid(in) {
				blocked = true
				break
			}
			if to(in) {
				return in
			}
		}
		if blocked {
			continue
		}
		for _, nx := range s.b.Succs {
			if !seen[nx] {
				seen[nx] = true
				q = append(q, st{nx, 0})
			}
		}
	}
	return nil
}

// ---------- return classification ----------

func errorResultIndex(fn *ssa.Function) int {
	res := fn.Signature.Results()
	for i := res.Len() - 1; i >= 0; i-- {
		if isErrorType(res.At(i).Type()) {
			return i
		}
	}
	return -1
}

func isErrorType(t types.Type) bool {
	n, ok := t.(*types.Named)
	return ok && n.Obj().Pkg() == nil && n.Obj().Name() == "error"
}

func isNilConst(v ssa.Value) bool {
	c, ok := v.(*ssa.Const)
	return ok && c.Value == nil
}

// definitelyNonNilErr: v is the result of an error constructor / wrap or a MakeInterface
func definitelyNonNilErr(v ssa.Value) bool {
	switch x := v.(type) {
	case *ssa.MakeInterface:
		return true
	case *ssa.Call:
		n := callName(x)
		switch n {
		case "Wrap", "Wrapf", "WithType", "WithStack", "WithMessage", "WithMessagef":
			// the package-level wrappers (cosmossdk.io/errors.Wrap(err, …), pkg/errors) return nil for a nil error;
			// the methods of a registered error (ErrX.Wrap(…)) never do
			if f := x.Call.StaticCallee(); f != nil && f.Signature.Recv() == nil && !x.Call.IsInvoke() {
				return len(x.Call.Args) > 0 && (definitelyNonNilErr(x.Call.Args[0]) || guardedNonNil(x.Call.Args[0], x))
			}
			return true
		case "New", "Errorf", "Error", "Newf", "Register":
			return true
		}
		if strings.HasPrefix(n, "Err") {
			return true
		}
	case *ssa.UnOp:
		if g, ok := x.X.(*ssa.Global); ok && strings.HasPrefix(g.Name(), "Err") {
			return true
		}
	case *ssa.Phi:
		for _, ed := range x.Edges {
			if !definitelyNonNilErr(ed) {
				return false
			}
		}
		return len(x.Edges) > 0
	}
	return false
}

// IsFailureReturn: the return provably returns a non-nil error.
func IsFailureReturn(r *ssa.Return) bool {
	fn := r.Parent()
	idx := errorResultIndex(fn)
	if idx < 0 || idx >= len(r.Results) {
		return false
	}
	v := r.Results[idx]
	// defer-spilled results: `*res = x; rundefers; t = *res; return t` — classify by the value stored last in this block
	if u, ok := v.(*ssa.UnOp); ok && u.Op == token.MUL {
		if a, ok := u.X.(*ssa.Alloc); ok {
			instrs := r.Block().Instrs
			for k := len(instrs) - 1; k >= 0; k-- {
				if st, ok := instrs[k].(*ssa.Store); ok && st.Addr == a {
					v = st.Val
					break
				}
			}
		}
	}
	if isNilConst(v) {
		return false
	}
	if definitelyNonNilErr(v) {
		return true
	}
	if errNonNilVia(v, r, 3) {
		return true
	}
	// guarded by v != nil
	for _, g := range GuardsOf(r) {
		if b, ok := g.Cond.(*ssa.BinOp); ok {
			if (b.X == v && isNilConst(b.Y)) || (b.Y == v && isNilConst(b.X)) {
				if (b.Op == token.NEQ && g.Pol) || (b.Op == token.EQL && !g.Pol) {
					return true
				}
			}
		}
	}
	// phi of (err guarded) handled conservatively: not failure
	return false
}

func isPanicExit(b *ssa.BasicBlock) bool {
	if len(b.Instrs) == 0 {
		return false
	}
	_, ok := b.Instrs[len(b.Instrs)-1].(*ssa.Panic)
	return ok
}

// SuccessReturns lists returns that may be success.
func SuccessReturns(fn *ssa.Function) []*ssa.Return {
	var out []*ssa.Return
	for _, b := range fn.Blocks {
		if len(b.Instrs) == 0 {
			continue
		}
		if r, ok := b.Instrs[len(b.Instrs)-1].(*ssa.Return); ok {
			if !IsFailureReturn(r) {
				out = append(out, r)
			}
		}
	}
	return out
}

// MustPassThrough: every path from `from` (nil=entry) to a success return executes an instruction in P.
// Returns the offending success return if not.
func MustPassThrough(fn *ssa.Function, from ssa.Instruction, P func(ssa.Instruction) bool) *ssa.Return {
	r := ReachAvoiding(fn, from, func(i ssa.Instruction) bool {
		if ret, ok := i.(*ssa.Return); ok {
			return !IsFailureReturn(ret)
		}
		return false
	}, P)
	if r == nil {
		return nil
	}
	return r.(*ssa.Return)
}

// ---------- condition normalisation ----------

// CmpInfo describes a comparison-like boolean.
type CmpInfo struct {
	Op   string // "==", "!=", "<", "<=", ">", ">=", "isnil", "notnil", "call:<Name>", "found"
	X, Y ssa.Value
	Call *ssa.Call
}

// NormCond decomposes a guard condition into a comparison with polarity applied.
func NormCond(g Guard) (CmpInfo, bool) {
	ci, ok := normCond0(g)
	if ok && (ci.Op == "==" || ci.Op == "!=") && ci.X != nil && ci.Y != nil {
		ci.X, ci.Y = eqViews(ci.X, ci.Y)
	}
	return ci, ok
}

// eqViews: an equality of two injective views of values is the equality of the values: bytes.Equal(a.Bytes(), b.Bytes()),
// string(a) == string(b), a.String() == b.String() and a.Equals(b) all compare a with b. Conversions are dropped on both
// sides, Bytes() on either side, String()/Hex() only when both sides carry it.
func eqViews(x, y ssa.Value) (ssa.Value, ssa.Value) {
	for i := 0; i < 4; i++ {
		x, y = stripConv(x), stripConv(y)
		cx, okx := x.(*ssa.Call)
		cy, oky := y.(*ssa.Call)
		nx, ny := "", ""
		if okx && len(callArgs(cx)) == 1 {
			nx = callName(cx)
		}
		if oky && len(callArgs(cy)) == 1 {
			ny = callName(cy)
		}
		switch {
		case nx == "Bytes" && ny == "Bytes", (nx == "String" || nx == "Hex") && nx == ny:
			x, y = callArgs(cx)[0], callArgs(cy)[0]
		case nx == "Bytes":
			x = callArgs(cx)[0]
		case ny == "Bytes":
			y = callArgs(cy)[0]
		default:
			return x, y
		}
	}
	return x, y
}

// RelOf reads a guard as an order / equality relation `a op b` between two values, whatever idiom spells it: a.LT(b),
// b.GT(a) (returned as written: op relates a to b), a.Cmp(b) <op> 0 / == 1 / == -1, a.Sign() <op> 0 (b is nil: zero), plain
// binary comparisons. Rules match it in either orientation with Rel.Says.
type Rel struct {
	Op   string
	A, B ssa.Value // B == nil means the constant zero (Sign forms)
}

func mirrorOp(op string) string {
	switch op {
	case "<":
		return ">"
	case "<=":
		return ">="
	case ">":
		return "<"
	case ">=":
		return "<="
	}
	return op
}

func relImplies(have, want string) bool {
	if have == want {
		return true
	}
	switch want {
	case ">=":
		return have == ">" || have == "=="
	case "<=":
		return have == "<" || have == "=="
	case "!=":
		return have == "<" || have == ">"
	}
	return false
}

func RelOf(g Guard) (Rel, bool) {
	ci, ok := NormCond(g)
	if !ok {
		return Rel{}, false
	}
	switch ci.Op {
	case "==", "!=", "<", "<=", ">", ">=":
	default:
		return Rel{}, false
	}
	if ci.Call != nil {
		a := callArgs(ci.Call)
		if len(a) < 2 {
			return Rel{}, false
		}
		return Rel{Op: ci.Op, A: a[0], B: a[1]}, true
	}
	// three-way comparison against a constant
	x, y, op := ci.X, ci.Y, ci.Op
	if _, isC := constInt(x); isC {
		x, y, op = y, x, mirrorOp(op)
	}
	if c, ok := stripConv(x).(*ssa.Call); ok {
		if k, isK := constInt(y); isK && (callName(c) == "Cmp" || callName(c) == "Sign") {
			// sign(a-b) op k  ->  a op' b
			rel := ""
			switch {
			case k == 0:
				rel = op
			case k == 1 && (op == "==" || op == ">="):
				rel = ">"
			case k == 1 && (op == "!=" || op == "<"):
				rel = "<="
			case k == -1 && (op == "==" || op == "<="):
				rel = "<"
			case k == -1 && (op == "!=" || op == ">"):
				rel = ">="
			}
			if rel != "" {
				a := callArgs(c)
				if callName(c) == "Cmp" && len(a) == 2 {
					if isZeroNumber(a[1]) {
						return Rel{Op: rel, A: a[0]}, true
					}
					return Rel{Op: rel, A: a[0], B: a[1]}, true
				}
				if callName(c) == "Sign" && len(a) == 1 {
					return Rel{Op: rel, A: a[0]}, true
				}
			}
		}
	}
	return Rel{Op: ci.Op, A: ci.X, B: ci.Y}, true
}

// isZeroNumber: big.NewInt(0), new(big.Int), math.ZeroInt(), constant 0.
func isZeroNumber(v ssa.Value) bool {
	v = stripConv(v)
	if k, ok := constInt(v); ok {
		return k == 0
	}
	if c, ok := v.(*ssa.Call); ok {
		switch callName(c) {
		case "NewInt":
			a := callArgs(c)
			if len(a) == 1 {
				k, ok := constInt(a[0])
				return ok && k == 0
			}
		case "ZeroInt", "LegacyZeroDec", "ZeroDec", "ZeroUint":
			return true
		}
	}
	if a, ok := v.(*ssa.Alloc); ok {
		// new(big.Int)
		return strings.HasSuffix(a.Type().String(), "big.Int")
	}
	return false
}

// Says: the relation establishes `x want y` for values recognised by isX / isY (either orientation; a stronger relation
// counts). isY == nil stands for the constant zero.
func (r Rel) Says(want string, isX, isY func(ssa.Value) bool) bool {
	matchY := func(v ssa.Value) bool {
		if isY == nil {
			return v == nil || isZeroNumber(v)
		}
		return v != nil && isY(v)
	}
	if r.A != nil && isX(r.A) && matchY(r.B) && relImplies(r.Op, want) {
		return true
	}
	if r.B != nil && isX(r.B) && isY != nil && r.A != nil && isY(r.A) && relImplies(mirrorOp(r.Op), want) {
		return true
	}
	return false
}

func normCond0(g Guard) (CmpInfo, bool) {
	v, pol := g.Cond, g.Pol
	for {
		if u, ok := v.(*ssa.UnOp); ok && u.Op == token.NOT {
			v = u.X
			pol = !pol
			continue
		}
		break
	}
	switch x := v.(type) {
	case *ssa.BinOp:
		op := x.Op
		if !pol {
			op = negateOp(op)
		}
		s := opString(op)
		if s == "" {
			return CmpInfo{}, false
		}
		return CmpInfo{Op: s, X: x.X, Y: x.Y}, true
	case *ssa.Call:
		n := callName(x)
		args := callArgs(x)
		ci := CmpInfo{Call: x}
		if len(args) > 0 {
			ci.X = args[0]
		}
		if len(args) > 1 {
			ci.Y = args[1]
		}
		switch n {
		case "Equal", "Equals", "EqualFold", "IsEqual":
			if pol {
				ci.Op = "=="
			} else {
				ci.Op = "!="
			}
		case "LT":
			ci.Op = pick(pol, "<", ">=")
		case "LTE":
			ci.Op = pick(pol, "<=", ">")
		case "GT":
			ci.Op = pick(pol, ">", "<=")
		case "GTE":
			ci.Op = pick(pol, ">=", "<")
		default:
			ci.Op = pick(pol, "call:"+n, "!call:"+n)
		}
		return ci, true
	case *ssa.Extract:
		// found/ok boolean from a tuple
		return CmpInfo{Op: pick(pol, "found", "!found"), X: x.Tuple}, true
	default:
		return CmpInfo{Op: pick(pol, "true", "false"), X: v}, true
	}
}

func pick(b bool, t, f string) string {
	if b {
		return t
	}
	return f
}

func negateOp(op token.Token) token.Token {
	switch op {
	case token.EQL:
		return token.NEQ
	case token.NEQ:
		return token.EQL
	case token.LSS:
		return token.GEQ
	case token.LEQ:
		return token.GTR
	case token.GTR:
		return token.LEQ
	case token.GEQ:
		return token.LSS
	}
	return token.ILLEGAL
}

func opString(op token.Token) string {
	switch op {
	case token.EQL:
		return "=="
	case token.NEQ:
		return "!="
	case token.LSS:
		return "<"
	case token.LEQ:
		return "<="
	case token.GTR:
		return ">"
	case token.GEQ:
		return ">="
	}
	return ""
}

func constInt(v ssa.Value) (int64, bool) {
	c, ok := v.(*ssa.Const)
	if !ok || c.Value == nil {
		return 0, false
	}
	if c.Value.Kind() != constant.Int {
		return 0, false
	}
	return constant.Int64Val(c.Value)
}

func constString(v ssa.Value) (string, bool) {
	c, ok := v.(*ssa.Const)
	if !ok || c.Value == nil || c.Value.Kind() != constant.String {
		return "", false
	}
	return constant.StringVal(c.Value), true
}

// FailsOnBranch: does taking branch `pol` of `iff` inevitably lead to a failure return / panic
// without executing any instruction satisfying `effect`? (used for "mismatch -> error, no effect")
func BranchFailsClean(iff *ssa.If, pol bool, effect func(ssa.Instruction) bool) bool {
	b := iff.Block()
	start := b.Succs[1]
	if pol {
		start = b.Succs[0]
	}
	// what the branch taken tells about a nil-tested value: `v != nil` / `v == nil` with the polarity of the branch
	nilTest := func(c ssa.Value) (ssa.Value, bool, bool) { // value, "true means non-nil", ok
		neg := false
		for {
			if u, ok := c.(*ssa.UnOp); ok && u.Op == token.NOT {
				c, neg = u.X, !neg
				continue
			}
			break
		}
		bo, ok := c.(*ssa.BinOp)
		if !ok || (bo.Op != token.NEQ && bo.Op != token.EQL) {
			return nil, false, false
		}
		var v ssa.Value
		switch {
		case isNilConst(bo.Y):
			v = bo.X
		case isNilConst(bo.X):
			v = bo.Y
		default:
			return nil, false, false
		}
		return v, (bo.Op == token.NEQ) != neg, true
	}
	var known ssa.Value
	knownNonNil := false
	if v, trueMeansNonNil, ok := nilTest(iff.Cond); ok {
		known, knownNonNil = v, trueMeansNonNil == pol
	}
	type key struct{ x, from *ssa.BasicBlock }
	seen := map[key]bool{}
	var walk func(x, from *ssa.BasicBlock) bool
	walk = func(x, from *ssa.BasicBlock) bool {
		if seen[key{x, from}] {
			return true
		}
		seen[key{x, from}] = true
		for _, in := range x.Instrs {
			if effect != nil && effect(in) {
				return false
			}
			switch t := in.(type) {
			case *ssa.Return:
				return IsFailureReturn(t)
			case *ssa.Panic:
				return true
			case *ssa.If:
				// the same value (possibly merged into a phi of this block, coming through the edge we arrived by) is
				// tested again: only the consistent branch is feasible (`err = f(); if err == nil { err = g() }; if err != nil`)
				if known != nil {
					if w, trueMeansNonNil, ok := nilTest(t.Cond); ok {
						if ph, isPhi := w.(*ssa.Phi); isPhi && ph.Block() == x && from != nil {
							for k, p := range x.Preds {
								if p == from {
									w = ph.Edges[k]
								}
							}
						}
						if w == known {
							nb := x.Succs[1]
							if trueMeansNonNil == knownNonNil {
								nb = x.Succs[0]
							}
							return walk(nb, x)
						}
					}
				}
			}
		}
		if len(x.Succs) == 0 {
			return false
		}
		for _, s := range x.Succs {
			if !walk(s, x) {
				return false
			}
		}
		return true
	}
	return walk(start, b)
}

// guardedNonNil: instruction `at` is dominated by `v != nil`.
func guardedNonNil(v ssa.Value, at ssa.Instruction) bool {
	// a merge of values each of which is non-nil on the edge it arrives by (`err = f(); if err == nil { err = g() … }`
	// falling through to one `return wrap(err)`)
	if ph, ok := v.(*ssa.Phi); ok && len(ph.Block().Preds) == len(ph.Edges) {
		all := len(ph.Edges) > 0
		for k, ed := range ph.Edges {
			p := ph.Block().Preds[k]
			if len(p.Instrs) == 0 {
				all = false
				break
			}
			last := p.Instrs[len(p.Instrs)-1]
			if _, isPhi := ed.(*ssa.Phi); isPhi && ed == v {
				all = false
				break
			}
			if !(definitelyNonNilErr(ed) || guardedNonNilEdge(ed, p, ph.Block()) || guardedNonNil(ed, last)) {
				all = false
				break
			}
		}
		if all {
			return true
		}
	}
	for _, g := range GuardsOf(at) {
		if b, ok := g.Cond.(*ssa.BinOp); ok {
			if (b.X == v && isNilConst(b.Y)) || (b.Y == v && isNilConst(b.X)) {
				if (b.Op == token.NEQ && g.Pol) || (b.Op == token.EQL && !g.Pol) {
					return true
				}
			}
		}
	}
	return false
}

// guardedNonNilEdge: the edge p -> succ is the non-nil branch of a nil test of v that ends p.
func guardedNonNilEdge(v ssa.Value, p, succ *ssa.BasicBlock) bool {
	if len(p.Instrs) == 0 || len(p.Succs) != 2 {
		return false
	}
	iff, ok := p.Instrs[len(p.Instrs)-1].(*ssa.If)
	if !ok {
		return false
	}
	b, ok := iff.Cond.(*ssa.BinOp)
	if !ok || !((b.X == v && isNilConst(b.Y)) || (b.Y == v && isNilConst(b.X))) {
		return false
	}
	if p.Succs[0] == p.Succs[1] {
		return false
	}
	if b.Op == token.NEQ {
		return p.Succs[0] == succ
	}
	if b.Op == token.EQL {
		return p.Succs[1] == succ
	}
	return false
}

// errNonNilVia: v is the error result of a call to a source function that, on every return, yields for that result
// either a definitely non-nil error or one of its parameters whose argument at this call is non-nil
// (e.g. `return PackRetErr(err)` under `err != nil`, or PackRetErr(errors.New(...))).
func errNonNilVia(v ssa.Value, at ssa.Instruction, depth int) bool {
	if depth == 0 {
		return false
	}
	idx := 0
	var call *ssa.Call
	switch x := v.(type) {
	case *ssa.Extract:
		c, ok := x.Tuple.(*ssa.Call)
		if !ok {
			return false
		}
		call, idx = c, x.Index
	case *ssa.Call:
		call = x
	default:
		return false
	}
	f := call.Common().StaticCallee()
	if f == nil || f.Blocks == nil {
		return false
	}
	n := 0
	for _, b := range f.Blocks {
		ret, ok := b.Instrs[len(b.Instrs)-1].(*ssa.Return)
		if !ok {
			continue
		}
		n++
		if idx >= len(ret.Results) {
			return false
		}
		rv := ret.Results[idx]
		if definitelyNonNilErr(rv) {
			continue
		}
		if p, ok := rv.(*ssa.Parameter); ok {
			pi := -1
			for i, q := range f.Params {
				if q == p {
					pi = i
				}
			}
			if pi >= 0 && pi < len(call.Common().Args) {
				a := call.Common().Args[pi]
				if definitelyNonNilErr(a) || guardedNonNil(a, call) || errNonNilVia(a, call, depth-1) {
					continue
				}
			}
		}
		return false
	}
	return n > 0
}

// ---------- boolean-atom path sensitivity ----------

// condAtom maps a branch condition to (atom key, polarity). Atoms: an SSA boolean value, or a load of a struct field
// (all loads of the same field of the same base are one atom when the function never stores to that field).
func condAtom(fn *ssa.Function, v ssa.Value) (string, bool) {
	pol := true
	for {
		if u, ok := v.(*ssa.UnOp); ok && u.Op == token.NOT {
			v, pol = u.X, !pol
			continue
		}
		break
	}
	if u, ok := v.(*ssa.UnOp); ok && u.Op == token.MUL {
		if fa, ok := u.X.(*ssa.FieldAddr); ok {
			// version the atom by the set of stores to that field that can reach this load
			var reach []string
			allInstrs(fn, func(i ssa.Instruction) {
				if st, ok := i.(*ssa.Store); ok {
					if f2, ok := st.Addr.(*ssa.FieldAddr); ok && f2.Field == fa.Field && f2.X == fa.X {
						if ReachAvoiding(fn, st, func(x ssa.Instruction) bool { return x == ssa.Instruction(u) }, nil) != nil {
							reach = append(reach, fmt.Sprintf("b%d.%d", st.Block().Index, instrIndex(st)))
						}
					}
				}
			})
			return fmt.Sprintf("field:%s.%d@%s", fa.X.Name(), fa.Field, strings.Join(reach, "+")), pol
		}
	}
	return "val:" + v.Name(), pol
}

// MustPassThroughPS is MustPassThrough with consistency of repeated boolean conditions: a path that takes contradictory
// branches on the same atom is not considered. Returns an offending success return, or nil.
func MustPassThroughPS(fn *ssa.Function, from ssa.Instruction, P func(ssa.Instruction) bool) *ssa.Return {
	var found *ssa.Return
	seen := map[string]bool{}
	type pvals map[*ssa.Phi]ssa.Value
	envKey := func(env map[string]bool, pv pvals) string {
		keys := make([]string, 0, len(env)+len(pv))
		for k, v := range env {
			keys = append(keys, fmt.Sprintf("%s=%v", k, v))
		}
		for p, v := range pv {
			keys = append(keys, fmt.Sprintf("%s:=%s", p.Name(), v.Name()))
		}
		sort.Strings(keys)
		return strings.Join(keys, ",")
	}
	// resolve a branch condition along the current path: boolean phis take the value of the edge the path came through
	// (`x := a && b; if !x` — the phi of the && lowering is either the constant false or b)
	var resolve func(v ssa.Value, pv pvals, depth int) (ssa.Value, bool)
	resolve = func(v ssa.Value, pv pvals, depth int) (ssa.Value, bool) {
		pol := true
		for depth < 8 {
			depth++
			if u, ok := v.(*ssa.UnOp); ok && u.Op == token.NOT {
				v, pol = u.X, !pol
				continue
			}
			if ph, ok := v.(*ssa.Phi); ok {
				if val, ok := pv[ph]; ok {
					v = val
					continue
				}
			}
			break
		}
		return v, pol
	}
	var walk func(b *ssa.BasicBlock, idx int, env map[string]bool, pv pvals, depth int)
	enter := func(from, to *ssa.BasicBlock, pv pvals) pvals {
		// record the values of to's boolean phis for the edge from -> to
		var out pvals
		pi := -1
		for k, p := range to.Preds {
			if p == from {
				pi = k
			}
		}
		if pi < 0 {
			return pv
		}
		for _, in := range to.Instrs {
			ph, ok := in.(*ssa.Phi)
			if !ok {
				break
			}
			if bt, ok := ph.Type().Underlying().(*types.Basic); !ok || bt.Kind() != types.Bool {
				continue
			}
			if out == nil {
				out = pvals{}
				for k, v := range pv {
					out[k] = v
				}
			}
			out[ph] = ph.Edges[pi]
		}
		if out == nil {
			return pv
		}
		return out
	}
	walk = func(b *ssa.BasicBlock, idx int, env map[string]bool, pv pvals, depth int) {
		if found != nil || depth > 400 {
			return
		}
		k := fmt.Sprintf("%d|%d|%s", b.Index, idx, envKey(env, pv))
		if seen[k] {
			return
		}
		seen[k] = true
		for i := idx; i < len(b.Instrs); i++ {
			in := b.Instrs[i]
			if P(in) {
				return
			}
			switch t := in.(type) {
			case *ssa.Return:
				if !IsFailureReturn(t) {
					found = t
					if os.Getenv("FXDEBUG_PS") != "" {
						fmt.Println("PS-DEBUG offending path env:", envKey(env, pv), "block", b.Index)
					}
				}
				return
			case *ssa.Panic:
				return
			case *ssa.If:
				cv, cpol := resolve(t.Cond, pv, 0)
				if c, isC := cv.(*ssa.Const); isC && c.Value != nil && c.Value.Kind() == constant.Bool {
					taken := constant.BoolVal(c.Value) == cpol
					nb := b.Succs[1]
					if taken {
						nb = b.Succs[0]
					}
					walk(nb, 0, env, enter(b, nb, pv), depth+1)
					return
				}
				atom, pol := condAtom(fn, cv)
				pol = pol == cpol
				if val, ok := env[atom]; ok {
					taken := val == pol
					nb := b.Succs[1]
					if taken {
						nb = b.Succs[0]
					}
					walk(nb, 0, env, enter(b, nb, pv), depth+1)
					return
				}
				for _, br := range []bool{true, false} {
					e2 := map[string]bool{}
					for kk, vv := range env {
						e2[kk] = vv
					}
					e2[atom] = br == pol
					nb := b.Succs[1]
					if br {
						nb = b.Succs[0]
					}
					walk(nb, 0, e2, enter(b, nb, pv), depth+1)
				}
				return
			}
		}
		for _, s := range b.Succs {
			walk(s, 0, env, enter(b, s, pv), depth+1)
		}
	}
	if from == nil {
		if len(fn.Blocks) > 0 {
			walk(fn.Blocks[0], 0, map[string]bool{}, pvals{}, 0)
		}
	} else {
		walk(from.Block(), instrIndex(from)+1, map[string]bool{}, pvals{}, 0)
	}
	return found
}

// ---------- flag-mediated dominance ----------
//
// A refactor often replaces "the guarded statements sit inside the branch" by "the branch sets a boolean, later code tests
// it" (`reached = true; break` … `if !reached { return }`, or a field such as att.Observed). Plain dominance loses the
// connection; the helpers below restore it: if an instruction runs only when a flag is true, then some instruction that
// made the flag true ran before it.

var flagEngine *Engine // set by Load; needed for the call sites of a function whose pointer parameter carries the flag

// trueSites returns the instructions at which the boolean value v can become true (the points after which it holds), or
// ok=false when v is not a flag this analysis understands (then nothing is concluded).
func trueSites(v ssa.Value, seen map[ssa.Value]bool) (sites []ssa.Instruction, ok bool) {
	if seen[v] {
		return nil, true
	}
	seen[v] = true
	switch x := v.(type) {
	case *ssa.Const:
		if x.Value != nil && x.Value.Kind() == constant.Bool && !constant.BoolVal(x.Value) {
			return nil, true
		}
		return nil, false
	case *ssa.Phi:
		for i, ed := range x.Edges {
			if c, isC := ed.(*ssa.Const); isC && c.Value != nil && c.Value.Kind() == constant.Bool {
				if constant.BoolVal(c.Value) {
					p := x.Block().Preds[i]
					sites = append(sites, p.Instrs[len(p.Instrs)-1])
				}
				continue
			}
			s, k := trueSites(ed, seen)
			if !k {
				// a computed boolean (`return !ok` of an inlined predicate): the flag is true through this edge only
				// if that value is — the end of the predecessor is a true-site that carries the value as a condition
				if b, isB := ed.Type().Underlying().(*types.Basic); isB && b.Kind() == types.Bool {
					if iff := ifTesting(x); iff != nil {
						p := x.Block().Preds[i]
						site := p.Instrs[len(p.Instrs)-1]
						siteExtra[site] = append(siteExtra[site], Guard{ed, true, iff})
						sites = append(sites, site)
						continue
					}
				}
				return nil, false
			}
			sites = append(sites, s...)
		}
		return sites, true
	case *ssa.UnOp:
		if x.Op != token.MUL {
			return nil, false
		}
		switch a := x.X.(type) {
		case *ssa.Alloc:
			// a local bool kept in memory: every use is a load or a store of a constant / another flag
			for _, ref := range *a.Referrers() {
				switch u := ref.(type) {
				case *ssa.UnOp, *ssa.DebugRef:
				case *ssa.Store:
					if u.Addr != ssa.Value(a) {
						return nil, false
					}
					if c, isC := u.Val.(*ssa.Const); isC && c.Value != nil && c.Value.Kind() == constant.Bool {
						if constant.BoolVal(c.Value) {
							sites = append(sites, u)
						}
						continue
					}
					return nil, false
				default:
					return nil, false
				}
			}
			return sites, true
		case *ssa.FieldAddr:
			// a bool field of a record reached through a pointer parameter: false at every call site of the function
			// (guard `!arg.field` there), true only by stores of the constant in this function, and not written by callees
			par, isPar := a.X.(*ssa.Parameter)
			fn := x.Parent()
			if !isPar || fn == nil || flagEngine == nil {
				return nil, false
			}
			pidx := -1
			for i, p := range fn.Params {
				if p == par {
					pidx = i
				}
			}
			st := fieldStructOf(a)
			if pidx < 0 || st == nil {
				return nil, false
			}
			e := flagEngine
			bad := false
			allInstrs(fn, func(i ssa.Instruction) {
				s, isS := i.(*ssa.Store)
				if !isS {
					return
				}
				fa, isFA := s.Addr.(*ssa.FieldAddr)
				if !isFA || fa.Field != a.Field || fieldStructOf(fa) != st {
					return
				}
				if c, isC := s.Val.(*ssa.Const); isC && c.Value != nil && c.Value.Kind() == constant.Bool && fa.X == a.X {
					if constant.BoolVal(c.Value) {
						sites = append(sites, s)
					}
					return
				}
				bad = true
			})
			if bad {
				return nil, false
			}
			// callees that are handed the record must not write the field (followed two levels down the argument)
			var handed func(f *ssa.Function, v ssa.Value, depth int)
			handed = func(f *ssa.Function, v ssa.Value, depth int) {
				allCalls(f, func(c ssa.CallInstruction) {
					for ai, arg := range c.Common().Args {
						if arg != v {
							continue
						}
						for _, callee := range e.calleesOf(c) {
							if callee.Blocks == nil {
								continue
							}
							allInstrs(callee, func(i ssa.Instruction) {
								if s, isS := i.(*ssa.Store); isS {
									if fa, isFA := s.Addr.(*ssa.FieldAddr); isFA && fa.Field == a.Field && fieldStructOf(fa) == st {
										bad = true
									}
								}
							})
							if depth < 2 && ai < len(callee.Params) {
								handed(callee, callee.Params[ai], depth+1)
							}
						}
					}
				})
			}
			handed(fn, a.X, 0)
			if bad {
				return nil, false
			}
			css := e.CallSites(fn)
			if len(css) == 0 {
				return nil, false
			}
			for _, cs := range css {
				args := cs.Call.Common().Args
				if cs.Call.Common().IsInvoke() || pidx >= len(args) {
					return nil, false
				}
				arg := args[pidx]
				okSite := false
				for _, g := range GuardsOf(cs.Call) {
					c, pol := g.Cond, g.Pol
					for {
						u, isU := c.(*ssa.UnOp)
						if !isU || u.Op != token.NOT {
							break
						}
						c, pol = u.X, !pol
					}
					if ld, isL := c.(*ssa.UnOp); isL && ld.Op == token.MUL && !pol {
						if fa, isFA := ld.X.(*ssa.FieldAddr); isFA && fa.Field == a.Field && fa.X == arg {
							okSite = true
						}
					}
				}
				if !okSite {
					return nil, false
				}
			}
			return sites, true
		}
	}
	return nil, false
}

func fieldStructOf(fa *ssa.FieldAddr) *types.Struct {
	t := fa.X.Type()
	if p, ok := t.Underlying().(*types.Pointer); ok {
		t = p.Elem()
	}
	st, _ := t.Underlying().(*types.Struct)
	return st
}

// flagGuards: the flags that must be true for instruction i to run, each with the instructions that can make it true.
func flagGuards(i ssa.Instruction) [][]ssa.Instruction {
	var out [][]ssa.Instruction
	for _, g := range plainGuardsOfBlock(i.Block()) {
		c, pol := g.Cond, g.Pol
		for {
			u, isU := c.(*ssa.UnOp)
			if !isU || u.Op != token.NOT {
				break
			}
			c, pol = u.X, !pol
		}
		if !pol {
			continue
		}
		if b, isB := c.Type().Underlying().(*types.Basic); !isB || b.Kind() != types.Bool {
			continue
		}
		switch c.(type) {
		case *ssa.Phi, *ssa.UnOp:
		default:
			continue
		}
		sites, ok := trueSites(c, map[ssa.Value]bool{})
		if ok && len(sites) > 0 {
			out = append(out, sites)
		}
	}
	return out
}

// DominatesF: a runs before b on every path — by dominance, or because b runs only under a flag that becomes true only
// after a.
func DominatesF(a, b ssa.Instruction) bool {
	return dominatesF(a, b, 0)
}

func dominatesF(a, b ssa.Instruction, depth int) bool {
	if Dominates(a, b) {
		return true
	}
	if depth > 2 || a.Parent() != b.Parent() {
		return false
	}
	for _, sites := range flagGuards(b) {
		all := true
		for _, s := range sites {
			if s == a || dominatesF(a, s, depth+1) {
				continue
			}
			// the flag is set first and a follows on every path from there to b (`found = true; x, err := a(); if err … return`)
			if ReachAvoiding(a.Parent(), s, func(i ssa.Instruction) bool { return i == b }, func(i ssa.Instruction) bool { return i == a }) == nil {
				continue
			}
			all = false
			break
		}
		if all {
			return true
		}
	}
	// the same SSA condition tested twice (`found := err == nil; if found { a } … if found { b }`): b runs only when the
	// condition holds, so every feasible path to b took the same branch of the earlier test; if a lies on every path from
	// that branch to b, a runs before b
	for _, g := range plainGuardsOfBlock(b.Block()) {
		for d := b.Block().Idom(); d != nil; d = d.Idom() {
			if len(d.Instrs) == 0 {
				continue
			}
			iff, ok := d.Instrs[len(d.Instrs)-1].(*ssa.If)
			if !ok || iff == g.If || iff.Cond != g.Cond || len(d.Succs) != 2 {
				continue
			}
			start := d.Succs[1]
			if g.Pol {
				start = d.Succs[0]
			}
			// breadth-first from that branch to b, not passing a
			seen := map[*ssa.BasicBlock]bool{start: true}
			q := []*ssa.BasicBlock{start}
			reached := false
			for len(q) > 0 && !reached {
				x := q[0]
				q = q[1:]
				blocked := false
				for _, in := range x.Instrs {
					if in == a {
						blocked = true
						break
					}
					if in == b {
						reached = true
						break
					}
				}
				if blocked || reached {
					continue
				}
				for _, nx := range x.Succs {
					if !seen[nx] {
						seen[nx] = true
						q = append(q, nx)
					}
				}
			}
			if !reached {
				return true
			}
		}
	}
	return false
}
