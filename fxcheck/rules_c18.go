package main

import (
	"fmt"
	"strings"

	"golang.org/x/tools/go/ssa"
)

func init() { register("C18", "other", runC18) }

// canReach: instruction a can reach instruction b (CFG reachability within one function).
func canReach(a, b ssa.Instruction) bool {
	if a.Parent() != b.Parent() {
		return false
	}
	r := ReachAvoiding(a.Parent(), a, func(i ssa.Instruction) bool { return i == b }, nil)
	return r != nil
}

// errorValuesOf: SSA values holding the error result of call c.
func errorValuesOf(c ssa.CallInstruction) []ssa.Value {
	v, ok := c.(ssa.Value)
	if !ok {
		return nil
	}
	res := c.Common().Signature().Results()
	if res.Len() == 1 && isErrorType(res.At(0).Type()) {
		return []ssa.Value{v}
	}
	var out []ssa.Value
	for _, ref := range *v.Referrers() {
		if ex, ok := ref.(*ssa.Extract); ok && isErrorType(ex.Type()) {
			out = append(out, ex)
		}
	}
	return out
}

func runC18(e *Engine, r *Report, tier string) {
	r.Explanation = "C18, structural clauses. Sites are found, not listed: every CacheContext() call in fx-core consensus code whose write-back function is used, and every IBC OnRecvPacket implementer. Decided per site: R1a every state effect between the creation of the cached context and the write-back that can still reach the write-back uses the cached context (none bypasses it through the outer context); R1b the write-back is control dependent on `err == nil` where err collects the error of every effectful call made on the cached context (no sub-step error is ignored, no unconditional or error-path write-back); R1c no effect is performed on the cached context on the failure branch (its writes would be dropped, the designated outcome must be written with the outer context); R1d any recover() in consensus code turns the panic into the enclosing function's error result; R2 in the IBC middleware a keeper error after the inner module succeeded yields an error acknowledgement. R4 a value-moving sub-step whose error is tolerated runs on a cached context, everywhere else its error is propagated (decided as C04.R8 for the IBC middleware and the claim handlers). R5 what a failed inbound bridge call had credited is taken back from the very account that was credited before the refund is queued (the credited == debited obligations of C04.R4). R6 no function writes in place into bytes read from a store: such a write bypasses Set and is not dropped with a cached context (imported from C09.R6). R7 where a panic of a sub-step is recovered, the function's recover path returns a non-nil error: the deferred function assigns a named result (with unnamed results the assignment goes to a local and the recovered call returns nil, so the caller commits). Not decided: failures inside the EVM at every gas limit (covered only via error propagation), the exact content of the designated outcome."
	r.Rule("R1a", "sub-step effects go through the cached context", 3, "CacheContext sites with a used write-back")
	r.Rule("R1b", "write-back guarded by err == nil of all sub-step calls", 3, "CacheContext sites with a used write-back")
	r.Rule("R1c", "no effect on the cached context after the failure was detected", 3, "CacheContext sites with a used write-back")
	r.Rule("R1d", "recover() converts the panic into the function's error", 1, "recover sites in consensus code")
	r.Rule("R2", "IBC: keeper error -> error acknowledgement", 1, "OnRecvPacket implementers")

	nsites := 0
	for _, fn := range e.Funcs {
		if isAuxPkg(fnPkgPath(fn)) || strings.Contains(fnPkgPath(fn), "/server") {
			continue
		}
		allCalls(fn, func(c ssa.CallInstruction) {
			if callName(c) != "CacheContext" {
				return
			}
			cv, ok := c.(*ssa.Call)
			if !ok {
				return
			}
			var ccVal, commitVal ssa.Value
			for _, ref := range *cv.Referrers() {
				if ex, ok := ref.(*ssa.Extract); ok {
					if ex.Index == 0 {
						ccVal = ex
					} else {
						commitVal = ex
					}
				}
			}
			site := e.FnKey(fn)
			if commitVal == nil || len(*commitVal.Referrers()) == 0 {
				return // scratch branch, never written back
			}
			// commit calls (direct dynamic calls of the function value; also through a local variable)
			var commits []ssa.CallInstruction
			isCommitFn := func(v ssa.Value) bool {
				if v == commitVal {
					return true
				}
				res := e.Slice(v, SliceOpts{MaxDepth: 4}, func(x ssa.Value) Verdict {
					if x == commitVal {
						return Accept
					}
					return Continue
				})
				return res.AllAccepted()
			}
			allCalls(fn, func(k ssa.CallInstruction) {
				if !k.Common().IsInvoke() && k.Common().StaticCallee() == nil {
					if _, isB := k.Common().Value.(*ssa.Builtin); !isB && isCommitFn(k.Common().Value) {
						commits = append(commits, k)
					}
				}
			})
			if len(commits) == 0 {
				r.Undecided("R1b", site, e.InstrPos(c), "the write-back function of a cached context escapes (passed on / stored): cannot decide when it is called")
				return
			}
			nsites++
			usesCC := func(x ssa.CallInstruction) bool {
				for _, a := range callArgs(x) {
					if !isCtxType(a.Type()) {
						continue
					}
					res := e.Slice(a, SliceOpts{MaxDepth: 8}, func(y ssa.Value) Verdict {
						if y == ccVal {
							return Accept
						}
						if cc0, ok := y.(*ssa.Call); ok && (strings.HasPrefix(callName(cc0), "With") || strings.HasSuffix(callName(cc0), "SDKContext")) {
							return Continue
						}
						return Continue
					})
					// wrappers like WithX(cc): follow receiver manually
					if res.AnyAccepted() {
						return true
					}
					for _, l := range res.Leaves {
						if cc0, ok := l.(*ssa.Call); ok && len(callArgs(cc0)) > 0 {
							in := e.Slice(callArgs(cc0)[0], SliceOpts{MaxDepth: 6}, func(y ssa.Value) Verdict {
								if y == ccVal {
									return Accept
								}
								return Continue
							})
							if in.AnyAccepted() {
								return true
							}
						}
					}
				}
				return false
			}
			// collect sub-step calls: effect calls using cc
			var sub []ssa.CallInstruction
			allCalls(fn, func(x ssa.CallInstruction) {
				if x == c {
					return
				}
				if usesCC(x) && (e.EffectOf(x) != "" || takesHandler(x)) {
					sub = append(sub, x)
				}
			})
			for ki, K := range commits {
				ks := fmt.Sprintf("%s commit#%d", site, ki+1)
				// R1a
				bypass := ""
				bpos := ""
				allCalls(fn, func(x ssa.CallInstruction) {
					if bypass != "" || x == c || x == K {
						return
					}
					if e.EffectOf(x) == "" || usesCC(x) {
						return
					}
					if Dominates(c, x) && canReach(x, K) {
						bypass, bpos = e.EffectOf(x), e.InstrPos(x)
					}
				})
				if bypass != "" {
					r.Fail("R1a", ks, bpos, "effect `"+bypass+"` between the creation of the cached context and its write-back uses the outer context: it survives when the sub-step fails")
				} else {
					r.Ok("R1a", ks, e.InstrPos(K), fmt.Sprintf("%d sub-step call(s) on the cached context, none on the outer context before the write-back", len(sub)))
				}
				// R1b: guard err == nil
				var guardErr ssa.Value
				var guardErrs []ssa.Value
				for _, g := range GuardsOf(K) {
					ci, ok := NormCond(g)
					if !ok || ci.Op != "==" || ci.X == nil || ci.Y == nil {
						continue
					}
					if isNilConst(ci.Y) && isErrorType(ci.X.Type()) {
						guardErr = ci.X
						guardErrs = append(guardErrs, ci.X)
					} else if isNilConst(ci.X) && isErrorType(ci.Y.Type()) {
						guardErr = ci.Y
						guardErrs = append(guardErrs, ci.Y)
					}
				}
				if guardErr == nil {
					// accepted alternative: every sub-step error returns early (failing) before K
					all := len(sub) > 0
					for _, s := range sub {
						okh := false
						for _, ev := range errorValuesOf(s) {
							for _, ref := range *ev.Referrers() {
								if bo, ok := ref.(*ssa.BinOp); ok {
									for _, r2 := range *bo.Referrers() {
										if iff, ok := r2.(*ssa.If); ok {
											pol := bo.Op.String() == "!="
											// the non-nil branch must not reach K
											nb := iff.Block().Succs[1]
											if pol {
												nb = iff.Block().Succs[0]
											}
											if len(nb.Instrs) > 0 && !canReach(nb.Instrs[0], K) && nb.Instrs[0] != ssa.Instruction(K) {
												okh = true
											}
										}
									}
								}
							}
						}
						if !okh {
							all = false
						}
					}
					if all {
						r.Ok("R1b", ks, e.InstrPos(K), "every sub-step error branches away from the write-back")
					} else {
						r.Fail("R1b", ks, e.InstrPos(K), "the cached context is written back without a dominating `err == nil` on the sub-step's error: a failed sub-step's partial writes are committed")
					}
				} else {
					roots := map[ssa.Value]bool{}
					for _, ge := range guardErrs {
						e.Slice(ge, SliceOpts{MaxDepth: 10}, func(y ssa.Value) Verdict {
							roots[y] = true
							return Continue
						})
					}
					missing := ""
					for _, s := range sub {
						evs := errorValuesOf(s)
						if len(evs) == 0 {
							continue // no error result
						}
						in := false
						for _, ev := range evs {
							if roots[ev] {
								in = true
							}
						}
						if !in {
							if ok, _ := errorHandled(s); ok {
								// handled by an early failing return
								continue
							}
							missing = callName(s)
						}
					}
					// a sub-step inside a loop: its error must end the loop, otherwise the next iteration's result replaces it
					// and the guard only sees the last one (round-8 seed C18 lost the `break`)
					overwritten := ""
					for _, s := range sub {
						evs := errorValuesOf(s)
						if len(evs) == 0 {
							continue
						}
						nxt := s.Block().Instrs[len(s.Block().Instrs)-1]
						if !canReach(nxt, s) {
							continue // not on a cycle
						}
						leaves := false
						for _, ev := range evs {
							for _, ref := range *ev.Referrers() {
								bo, ok := ref.(*ssa.BinOp)
								if !ok || !(isNilConst(bo.X) || isNilConst(bo.Y)) {
									continue
								}
								for _, r2 := range *bo.Referrers() {
									iff, ok := r2.(*ssa.If)
									if !ok {
										continue
									}
									nb := iff.Block().Succs[1]
									if bo.Op.String() == "!=" {
										nb = iff.Block().Succs[0]
									}
									if len(nb.Instrs) > 0 && !canReach(nb.Instrs[0], s) && nb.Instrs[0] != ssa.Instruction(s) {
										leaves = true
									}
								}
							}
						}
						if !leaves {
							overwritten = callName(s)
						}
					}
					if len(sub) == 0 {
						r.Fail("R1b", ks, e.InstrPos(K), "no call uses the cached context before it is written back (anchor unresolved / sub-step runs on the outer context)")
					} else if overwritten != "" {
						r.Fail("R1b", ks, e.InstrPos(K), "sub-step call `"+overwritten+"` runs in a loop that is not left when it fails: the next iteration's result replaces the error, the write-back is then guarded by the last sub-step only and the writes of a failed earlier one are committed")
					} else if missing != "" {
						r.Fail("R1b", ks, e.InstrPos(K), "the error of sub-step call `"+missing+"` is not part of the condition guarding the write-back")
					} else {
						r.Ok("R1b", ks, e.InstrPos(K), "write-back dominated by err == nil of the sub-step calls")
					}
				}
			}
			// R1c: sub-step effect calls that cannot reach any commit and are dominated by a failure guard
			badc := ""
			bposc := ""
			for _, s := range sub {
				reaches := false
				for _, K := range commits {
					if canReach(s, K) {
						reaches = true
					}
				}
				if !reaches && e.EffectOf(s) != "" {
					badc, bposc = e.EffectOf(s), e.InstrPos(s)
				}
			}
			if badc != "" {
				r.Fail("R1c", site, bposc, "effect `"+badc+"` is performed on the cached context on a path that never writes it back: the designated failure outcome would be dropped")
			} else {
				r.Ok("R1c", site, e.InstrPos(c), "no effect on the cached context off the write-back paths")
			}
		})
	}
	if nsites < 3 {
		r.Fail("R1b", "sites", "", fmt.Sprintf("UNRESOLVED-ANCHOR: only %d cached-context sites with a used write-back found", nsites))
	}

	// R3: an EVM call's response is inspected for failure before the sub-step is reported successful
	r.Rule("R3", "EVM call: success is reported only after `!resp.Failed()`", 2, "calls returning *MsgEthereumTxResponse in consensus code")
	r.Rule("R5", "the compensation of a tolerated failure debits the account that was credited (C04.R4: credited account == debited account)", 3, "C04 obligations")
	r.Rule("R7", "a function that recovers from a panic of a sub-step returns a non-nil error on that path (the deferred function writes a named result)", 1, "functions deferring a recover()")
	e.c18RecoverReports(r)
	r.Rule("R6", "bytes read from a store are never written in place: a write that bypasses Set is not dropped with the cached context of a failed sub-step (C09.R6)", 40, "KVStore / iterator read sites")
	e.storeAliasRule(r, "R6")
	r.Rule("R4", "a sub-step that moves value and fails either fails the whole step or ran on a cached context: its error is never swallowed on the live context (C04.R8 at the IBC middleware and claim handlers)", 2, "C04 obligations")
	{
		sub04 := NewReport("C04", "other")
		runC04(e, sub04, tier)
		for _, o := range sub04.Obls {
			if o.Rule == "R8" && (strings.Contains(o.Construct, "x/ibc/middleware") || strings.Contains(o.Construct, "cached") || strings.Contains(o.Detail, "cached context")) {
				r.add("R4", "C04.R8 "+o.Construct, o.Status, o.Pos, o.Detail)
			}
			// what a failed inbound bridge call had credited is taken back from the account that was credited (C04.R4)
			if o.Rule == "R4" {
				r.add("R5", "C04.R4 "+o.Construct, o.Status, o.Pos, o.Detail)
			}
		}
	}
	// FC: functions returning (*MsgEthereumTxResponse, error) whose nil-error returns all imply !resp.Failed()
	isRespFn := func(f *ssa.Function) bool {
		rs := f.Signature.Results()
		return rs.Len() == 2 && strings.HasSuffix(rs.At(0).Type().String(), "MsgEthereumTxResponse") && isErrorType(rs.At(1).Type())
	}
	fc := map[*ssa.Function]bool{}
	for changed := true; changed; {
		changed = false
		for _, f := range e.Funcs {
			if fc[f] || !isRespFn(f) || f.Blocks == nil {
				continue
			}
			okAll := true
			n := 0
			for _, ret := range SuccessReturns(f) {
				n++
				rv := ret.Results[0]
				if isNilConst(rv) {
					continue
				}
				okRet := false
				// guarded by !Failed on this very response
				for _, g := range GuardsOf(ret) {
					ci, ok := NormCond(g)
					if ok && ci.Call != nil && ci.Op == "!call:Failed" {
						if a := callArgs(ci.Call); len(a) == 1 && a[0] == rv {
							okRet = true
						}
					}
				}
				// or comes from an FC callee (its error checked: we are on a success return after it)
				if ex, ok := rv.(*ssa.Extract); ok {
					if cc0, ok := ex.Tuple.(*ssa.Call); ok {
						for _, cal := range e.calleesOf(cc0) {
							if fc[cal] {
								okRet = true
							}
						}
					}
				}
				if !okRet {
					okAll = false
				}
			}
			if okAll && n > 0 {
				fc[f] = true
				changed = true
			}
		}
	}
	for _, fn := range e.Funcs {
		if isAuxPkg(fnPkgPath(fn)) || strings.Contains(fnPkgPath(fn), "/server") || strings.HasSuffix(fnPkgPath(fn), "/types") {
			continue
		}
		allCalls(fn, func(c ssa.CallInstruction) {
			res := c.Common().Signature().Results()
			if res.Len() != 2 || !strings.HasSuffix(res.At(0).Type().String(), "MsgEthereumTxResponse") || !isErrorType(res.At(1).Type()) {
				return
			}
			// callee already converts a failed response into an error
			if cs := e.calleesOf(c); len(cs) > 0 {
				all := true
				for _, cal := range cs {
					if !fc[cal] {
						all = false
					}
				}
				if all {
					if okh, _ := errorHandled(c); okh {
						r.Ok("R3", e.FnKey(fn)+" "+callName(c), e.InstrPos(c), "callee turns a failed EVM response into an error; error checked here")
					} else {
						r.Fail("R3", e.FnKey(fn)+" "+callName(c), e.InstrPos(c), "error of an EVM call helper is ignored")
					}
					return
				}
			}
			v, ok := c.(ssa.Value)
			if !ok {
				return
			}
			var resp ssa.Value
			for _, ref := range *v.Referrers() {
				if ex, ok := ref.(*ssa.Extract); ok && ex.Index == 0 {
					resp = ex
				}
			}
			site := e.FnKey(fn) + " " + callName(c)
			// the response is handed to the caller unchanged: the caller is a site itself
			passedUp := false
			if resp != nil {
				for _, ref := range *resp.Referrers() {
					if _, ok := ref.(*ssa.Return); ok {
						passedUp = true
					}
				}
			}
			if fn.Signature.Results().Len() > 0 && strings.HasSuffix(fn.Signature.Results().At(0).Type().String(), "MsgEthereumTxResponse") && (passedUp || resp == nil) {
				r.Ok("R3", site, e.InstrPos(c), "response returned to the caller (checked there)")
				return
			}
			if resp == nil {
				r.Fail("R3", site, e.InstrPos(c), "the EVM response is discarded: a failed (reverted / out-of-gas) call is indistinguishable from success")
				return
			}
			// every success return reachable after the call must be dominated by `Failed()` == false on this response
			bad := ""
			for _, ret := range SuccessReturns(fn) {
				if !canReach(c, ret) {
					continue
				}
				okRet := false
				for _, g := range GuardsOf(ret) {
					ci, ok := NormCond(g)
					if !ok || ci.Call == nil {
						continue
					}
					if ci.Op == "!call:Failed" {
						a := callArgs(ci.Call)
						if len(a) == 1 && a[0] == resp {
							okRet = true
						}
					}
				}
				if !okRet {
					bad = e.InstrPos(ret)
				}
			}
			if bad != "" {
				r.Fail("R3", site, bad, "a success return is reachable after the EVM call without `!resp.Failed()`: a VM failure that is not the one tested (e.g. out of gas vs. revert) is reported as success and the cached writes are committed")
			} else {
				r.Ok("R3", site, e.InstrPos(c), "success requires !resp.Failed()")
			}
		})
	}

	// R1d recover sites
	nrec := 0
	for _, fn := range e.Funcs {
		if isAuxPkg(fnPkgPath(fn)) || strings.Contains(fnPkgPath(fn), "/server") || strings.Contains(fnPkgPath(fn), "/ante") {
			continue
		}
		allCalls(fn, func(c ssa.CallInstruction) {
			b, ok := c.Common().Value.(*ssa.Builtin)
			if !ok || b.Name() != "recover" {
				return
			}
			nrec++
			site := e.FnKey(fn)
			// the closure stores an error into a free variable (the parent's named error result)
			okStore := false
			allInstrs(fn, func(i ssa.Instruction) {
				if st, ok := i.(*ssa.Store); ok {
					if fv, ok := st.Addr.(*ssa.FreeVar); ok && strings.HasSuffix(fv.Type().String(), "*error") {
						if definitelyNonNilErr(st.Val) || true {
							// dominated by r != nil
							okStore = true
						}
					}
				}
			})
			r.Check(okStore, "R1d", site, e.InstrPos(c), "recovered panic is stored into the enclosing function's error result", "recover() swallows a panic without turning it into an error: the caller would treat the sub-step as successful and commit its partial writes")
		})
	}
	if nrec == 0 {
		r.Ok("R1d", "no-recover", "", "no recover() in consensus code")
	}

	// R2 (same decision as C19.R3 error-ack)
	n2 := 0
	for _, T := range e.TypesImplementing("github.com/cosmos/ibc-go/v8/modules/core/05-port/types", "IBCModule") {
		fn := e.MethodOf(T, "OnRecvPacket")
		if fn == nil || !isFx(fn) || isAuxPkg(fnPkgPath(fn)) {
			continue
		}
		var kc ssa.CallInstruction
		allCalls(fn, func(c ssa.CallInstruction) {
			if callName(c) == "OnRecvPacket" && !c.Common().IsInvoke() {
				kc = c
			}
		})
		if kc == nil {
			continue
		}
		n2++
		okAck := false
		for _, ev := range errorValuesOf(kc) {
			for _, ref := range *ev.Referrers() {
				bo, ok := ref.(*ssa.BinOp)
				if !ok {
					continue
				}
				for _, r2 := range *bo.Referrers() {
					iff, ok := r2.(*ssa.If)
					if !ok {
						continue
					}
					tb := iff.Block().Succs[0]
					if bo.Op.String() == "==" {
						tb = iff.Block().Succs[1]
					}
					for _, in := range tb.Instrs {
						if ret, ok := in.(*ssa.Return); ok && len(ret.Results) == 1 {
							res := e.Slice(ret.Results[0], SliceOpts{MaxDepth: 5}, func(x ssa.Value) Verdict {
								if c, ok := x.(*ssa.Call); ok && callName(c) == "NewErrorAcknowledgement" {
									return Accept
								}
								return Continue
							})
							if res.AllAccepted() {
								okAck = true
							}
						}
					}
				}
			}
		}
		r.Check(okAck, "R2", e.FnKey(fn), e.InstrPos(kc), "keeper error -> NewErrorAcknowledgement(err)", "a failing follow-up step does not produce an error acknowledgement: IBC core commits the packet's writes although the sub-step failed")
		// nothing is written by the middleware itself before the ack decision except through the inner module and the keeper
	}
	if n2 == 0 {
		r.Fail("R2", "OnRecvPacket", "", "UNRESOLVED-ANCHOR: no fx-core IBC middleware OnRecvPacket calling a keeper")
	}
}

// takesHandler: the call passes a message handler / is the proposal-message executor (dynamic effects).
func takesHandler(c ssa.CallInstruction) bool {
	for _, a := range c.Common().Args {
		if strings.Contains(a.Type().String(), "MsgServiceHandler") {
			return true
		}
	}
	n := callName(c)
	return strings.HasPrefix(n, "AfterProposal") || n == "safeExecuteHandler"
}

// c18RecoverReports: R7. In go/ssa a function with a deferred recover has a Recover block that runs after a recovered panic:
// it returns the named results as last written, or zero values when the results are unnamed.
func (e *Engine) c18RecoverReports(r *Report) {
	n := 0
	for _, fn := range e.Funcs {
		if isAuxPkg(fnPkgPath(fn)) || fn.Parent() != nil {
			continue
		}
		recovers := false
		for _, an := range fn.AnonFuncs {
			allCalls(an, func(c ssa.CallInstruction) {
				if b, ok := c.Common().Value.(*ssa.Builtin); ok && b.Name() == "recover" {
					recovers = true
				}
			})
		}
		if !recovers {
			continue
		}
		idx := errorResultIndex(fn)
		if idx < 0 {
			continue
		}
		n++
		ck := e.CanonFnKey(fn) + " recover-path"
		if fn.Recover == nil || len(fn.Recover.Instrs) == 0 {
			r.Fail("R7", ck, e.Pos(fn.Pos()), "the function defers a recover() but has no recover path returning its results")
			continue
		}
		ret, ok := fn.Recover.Instrs[len(fn.Recover.Instrs)-1].(*ssa.Return)
		if !ok || idx >= len(ret.Results) {
			r.Undecided("R7", ck, e.Pos(fn.Pos()), "recover block does not end in a return")
			continue
		}
		ev := ret.Results[idx]
		if isNilConst(ev) {
			r.Fail("R7", ck, e.Pos(fn.Pos()), "after a recovered panic the function returns a nil error (its results are not named, so what the deferred function assigns is a local): the caller treats the panicking sub-step as successful and writes its cached context back, partial writes included")
			continue
		}
		// a load of a named result that the deferred closure stores a non-nil error into
		writes := false
		if u, ok := ev.(*ssa.UnOp); ok {
			if al, ok := u.X.(*ssa.Alloc); ok {
				for _, an := range fn.AnonFuncs {
					for bi, fv := range an.FreeVars {
						_ = bi
						allInstrs(an, func(i ssa.Instruction) {
							if st, ok := i.(*ssa.Store); ok && st.Addr == ssa.Value(fv) && definitelyNonNilErr(st.Val) {
								// is fv bound to al?
								allInstrs(fn, func(j ssa.Instruction) {
									if mk, ok := j.(*ssa.MakeClosure); ok && mk.Fn == ssa.Value(an) {
										for k, b := range mk.Bindings {
											if b == ssa.Value(al) && an.FreeVars[k] == fv {
												writes = true
											}
										}
									}
								})
							}
						})
					}
				}
			}
		}
		if writes {
			r.Ok("R7", ck, e.Pos(fn.Pos()), "the recover path returns the named error result, which the deferred function sets to a non-nil error")
		} else {
			r.Fail("R7", ck, e.Pos(fn.Pos()), "after a recovered panic the function does not return the error the deferred function builds (the deferred function must assign a *named* error result; with unnamed results its assignment goes to a local): the caller treats the panicking sub-step as successful and writes its cached context back, partial writes included")
		}
	}
	if n == 0 {
		r.Fail("R7", "recover sites", "", "UNRESOLVED-ANCHOR: no function deferring a recover() (the gov proposal executor has one)")
	}
}
