package main

import (
	"bufio"
	"encoding/json"
	"fmt"
	"io"
	"os"
	"path/filepath"
	"sort"
	"strings"
	"time"
)

type Status string

const (
	OK        Status = "discharged"
	Violated  Status = "violated"
	Undecided Status = "undecided"
)

// Obligation: one rule instance on one construct.
type Obligation struct {
	Rule      string `json:"rule"`
	Construct string `json:"construct"` // line-independent identity
	Status    Status `json:"status"`
	Detail    string `json:"detail,omitempty"`
	Pos       string `json:"pos,omitempty"` // convenience only
	Known     string `json:"known_finding,omitempty"`
}

type RuleStat struct {
	Rule        string `json:"rule"`
	What        string `json:"what"`
	Instances   int    `json:"instances"`
	Discharged  int    `json:"discharged"`
	Violated    int    `json:"violated"`
	Undecided   int    `json:"undecided"`
	Floor       int    `json:"floor"`
	FloorSource string `json:"floor_source,omitempty"`
}

// Report collects the obligations of one property run.
type Report struct {
	Prop        string
	Level       string
	Explanation string
	Assumptions []string
	Trusted     []string
	Obls        []*Obligation
	rules       map[string]*RuleStat
	ruleOrder   []string
	Notes       []string
}

func NewReport(prop, level string) *Report {
	return &Report{Prop: prop, Level: level, rules: map[string]*RuleStat{}}
}

// Rule declares a rule with its instance floor.
func (r *Report) Rule(id, what string, floor int, floorSrc string) {
	if _, ok := r.rules[id]; !ok {
		r.rules[id] = &RuleStat{Rule: id, What: what, Floor: floor, FloorSource: floorSrc}
		r.ruleOrder = append(r.ruleOrder, id)
	}
}

func (r *Report) add(rule, construct string, st Status, pos, detail string) *Obligation {
	if _, ok := r.rules[rule]; !ok {
		r.Rule(rule, "", 0, "")
	}
	o := &Obligation{Rule: rule, Construct: construct, Status: st, Detail: detail, Pos: pos}
	r.Obls = append(r.Obls, o)
	return o
}

func (r *Report) Ok(rule, construct, pos, detail string) {
	r.add(rule, construct, OK, pos, detail)
}
func (r *Report) Fail(rule, construct, pos, detail string) {
	r.add(rule, construct, Violated, pos, detail)
}
func (r *Report) Undecided(rule, construct, pos, detail string) {
	r.add(rule, construct, Undecided, pos, detail)
}
func (r *Report) Check(cond bool, rule, construct, pos, okDetail, failDetail string) bool {
	if cond {
		r.Ok(rule, construct, pos, okDetail)
	} else {
		r.Fail(rule, construct, pos, failDetail)
	}
	return cond
}
func (r *Report) Note(format string, a ...any) { r.Notes = append(r.Notes, fmt.Sprintf(format, a...)) }
func (r *Report) Assume(s string)              { r.Assumptions = append(r.Assumptions, s) }

// ---- known findings ----

type KnownFinding struct {
	Status    string `json:"status"` // known | fixed
	Property  string `json:"property"`
	Rule      string `json:"rule"`
	Construct string `json:"construct"`
	ID        string `json:"id"`
	What      string `json:"what"`
	Commit    string `json:"commit,omitempty"`
}

func loadKnown(path string) ([]KnownFinding, error) {
	f, err := os.Open(path)
	if err != nil {
		if os.IsNotExist(err) {
			return nil, nil
		}
		return nil, err
	}
	defer f.Close()
	var out []KnownFinding
	sc := bufio.NewScanner(f)
	sc.Buffer(make([]byte, 1<<20), 1<<20)
	for sc.Scan() {
		line := strings.TrimSpace(sc.Text())
		if line == "" || strings.HasPrefix(line, "#") {
			continue
		}
		var k KnownFinding
		if err := json.Unmarshal([]byte(line), &k); err != nil {
			return nil, fmt.Errorf("known_findings: %v in %q", err, line)
		}
		out = append(out, k)
	}
	return out, sc.Err()
}

// Finish computes the verdict, prints lines, writes evidence; returns exit code.
func (r *Report) Finish(verifDir, tier string, seed int64, start time.Time, stats map[string]any) int {
	known, err := loadKnown(filepath.Join(verifDir, "known_findings.jsonl"))
	if err != nil {
		fmt.Fprintln(finishOut, "ERROR:", err)
		r.Fail("engine", "known_findings.jsonl", "", err.Error())
	}
	// floors
	cnt := map[string]int{}
	for _, o := range r.Obls {
		cnt[o.Rule]++
	}
	for _, id := range r.ruleOrder {
		rs := r.rules[id]
		if cnt[id] < rs.Floor {
			r.Fail(id, "instance-floor", "", fmt.Sprintf("rule matched %d instances, floor is %d (%s): an anchor no longer resolves", cnt[id], rs.Floor, rs.FloorSource))
		}
	}
	// dedupe obligations by rule+construct (keep worst)
	rank := map[Status]int{OK: 0, Undecided: 1, Violated: 2}
	byKey := map[string]*Obligation{}
	var order []string
	for _, o := range r.Obls {
		k := o.Rule + "|" + o.Construct
		if p, ok := byKey[k]; ok {
			if rank[o.Status] > rank[p.Status] {
				byKey[k] = o
			}
			continue
		}
		byKey[k] = o
		order = append(order, k)
	}
	var obls []*Obligation
	for _, k := range order {
		obls = append(obls, byKey[k])
	}
	r.Obls = obls
	for _, id := range r.ruleOrder {
		rs := r.rules[id]
		rs.Instances, rs.Discharged, rs.Violated, rs.Undecided = 0, 0, 0, 0
	}
	nviol := 0
	var knownMatched []string
	var viols []*Obligation
	for _, o := range r.Obls {
		rs := r.rules[o.Rule]
		rs.Instances++
		switch o.Status {
		case OK:
			rs.Discharged++
		case Violated, Undecided:
			matched := false
			for _, k := range known {
				if k.Status == "known" && k.Property == r.Prop && k.Rule == o.Rule && normConstruct(k.Construct) == normConstruct(o.Construct) {
					matched = true
					o.Known = k.ID
					fmt.Fprintf(finishOut, "KNOWN-FINDING: property=%s %s [%s %s] %s\n", r.Prop, k.ID, o.Rule, o.Construct, k.What)
					knownMatched = append(knownMatched, k.ID)
					break
				}
			}
			if o.Status == Violated {
				rs.Violated++
			} else {
				rs.Undecided++
			}
			if !matched {
				nviol++
				viols = append(viols, o)
			}
		}
	}
	// write violation files
	vdir := filepath.Join(verifDir, "evidence", "violations")
	os.MkdirAll(vdir, 0o755)
	old, _ := filepath.Glob(filepath.Join(vdir, r.Prop+"-*.json"))
	for _, f := range old {
		os.Remove(f)
	}
	for i, o := range viols {
		p := filepath.Join(vdir, fmt.Sprintf("%s-%d.json", r.Prop, i+1))
		b, _ := json.MarshalIndent(map[string]any{"property": r.Prop, "rule": o.Rule, "construct": o.Construct,
			"status": o.Status, "detail": o.Detail, "pos": o.Pos, "rule_text": r.rules[o.Rule].What}, "", " ")
		os.WriteFile(p, b, 0o644)
		fmt.Fprintf(finishOut, "REPORT %s %s %s: %s -- %s (%s)\n", r.Prop, o.Rule, o.Status, o.Construct, o.Detail, o.Pos)
		fmt.Fprintf(finishOut, "VIOLATION property=%s replay=%s\n", r.Prop, p)
	}
	// evidence
	var rules []*RuleStat
	nob, ndis := 0, 0
	for _, id := range r.ruleOrder {
		rules = append(rules, r.rules[id])
		nob += r.rules[id].Instances
		ndis += r.rules[id].Discharged
	}
	var samples []*Obligation
	perRule := map[string]int{}
	for _, o := range r.Obls {
		if o.Status != OK || perRule[o.Rule] < 60 {
			samples = append(samples, o)
			perRule[o.Rule]++
		}
		if len(samples) >= 200 {
			break
		}
	}
	sort.Strings(knownMatched)
	if knownMatched == nil {
		knownMatched = []string{}
	}
	if r.Assumptions == nil {
		r.Assumptions = []string{}
	}
	r.Assumptions = append(r.Assumptions, "go/types and go/ssa (x/tools v0.29.0) represent the program the Go compiler builds from the same files; dependencies are known by type only unless a rule says it reads their bodies")
	if r.Trusted == nil {
		r.Trusted = []string{}
	}
	r.Trusted = append(r.Trusted, "go/packages + go/types + go/ssa of golang.org/x/tools v0.29.0", "the engine's key-family resolution and store-effect summaries (fxcheck/keys.go, effects.go)")
	if r.Notes == nil {
		r.Notes = []string{}
	}
	// known findings discharged through the file count as "discharged by listing" for proof-level bookkeeping: no.
	cov := map[string]any{
		"explanation":            r.Explanation,
		"rules":                  rules,
		"obligations":            nob,
		"discharged":             ndis,
		"samples":                samples,
		"known_findings_matched": knownMatched,
		"checker_cmd":            fmt.Sprintf("bin/fxcheck -prop %s -tier %s", r.Prop, tier),
		"trusted_base":           r.Trusted,
		"exhaustive":             true,
		"notes":                  r.Notes,
		// generic fallback keys (measured): every obligation is one evaluated rule instance on a distinct construct
		"evaluations":         nob,
		"distinct_nontrivial": nob,
		"rule":                "one obligation per (rule, construct) instance enumerated from the type-checked program; distinct by construct identity",
	}
	for k, v := range stats {
		cov[k] = v
	}
	ev := map[string]any{
		"property_id": r.Prop,
		"tier":        tier,
		"seed":        seed,
		"level":       r.Level,
		"coverage":    cov,
		"assumptions": r.Assumptions,
		"wall_s":      time.Since(start).Seconds(),
		"violations":  nviol,
	}
	b, _ := json.MarshalIndent(ev, "", " ")
	os.MkdirAll(filepath.Join(verifDir, "evidence"), 0o755)
	if err := os.WriteFile(filepath.Join(verifDir, "evidence", r.Prop+".json"), b, 0o644); err != nil {
		fmt.Fprintln(finishOut, "ERROR writing evidence:", err)
		return 1
	}
	fmt.Fprintf(finishOut, "SUMMARY property=%s tier=%s obligations=%d discharged=%d known=%d violations=%d wall=%.1fs\n",
		r.Prop, tier, nob, ndis, len(knownMatched), nviol, time.Since(start).Seconds())
	if nviol > 0 {
		return 1
	}
	return 0
}

// finishOut receives what Finish prints (main redirects it while it decides on the inlined normal form).
var finishOut io.Writer = os.Stdout

// normConstruct: a finding is about a function, not about whether its receiver is a value or a pointer today.
func normConstruct(c string) string {
	return strings.ReplaceAll(c, "(*", "(")
}
