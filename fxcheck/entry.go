package main

import (
	"go/types"
	"sort"
	"strings"

	"golang.org/x/tools/go/ssa"
)

// Handler is a Msg service method: func (recv) M(ctx context.Context, req *MsgX) (*MsgXResponse, error)
type Handler struct {
	Fn      *ssa.Function
	Req     *types.Named
	ReqPar  *ssa.Parameter
	CtxPar  *ssa.Parameter
	HasAuth bool // request struct has an Authority field
}

func structOf(t types.Type) (*types.Struct, *types.Named) {
	if p, ok := t.(*types.Pointer); ok {
		t = p.Elem()
	}
	n, ok := t.(*types.Named)
	if !ok {
		return nil, nil
	}
	s, ok := n.Underlying().(*types.Struct)
	if !ok {
		return nil, nil
	}
	return s, n
}

func hasField(s *types.Struct, name string) bool {
	for i := 0; i < s.NumFields(); i++ {
		if s.Field(i).Name() == name {
			return true
		}
	}
	return false
}

// MsgHandlers enumerates all Msg service methods declared in fx-core (non-aux packages).
func (e *Engine) MsgHandlers() []*Handler {
	var out []*Handler
	for _, fn := range e.Funcs {
		if fn.Parent() != nil || fn.Signature.Recv() == nil || isAuxPkg(fnPkgPath(fn)) {
			continue
		}
		sig := fn.Signature
		if sig.Params().Len() != 2 || sig.Results().Len() != 2 {
			continue
		}
		if !isCtxType(sig.Params().At(0).Type()) || !isErrorType(sig.Results().At(1).Type()) {
			continue
		}
		s, n := structOf(sig.Params().At(1).Type())
		if s == nil || !strings.HasPrefix(n.Obj().Name(), "Msg") {
			continue
		}
		if _, ok := sig.Params().At(1).Type().(*types.Pointer); !ok {
			continue
		}
		rs, rn := structOf(sig.Results().At(0).Type())
		if rs == nil || !strings.HasSuffix(rn.Obj().Name(), "Response") {
			continue
		}
		if !ast_IsExported(fn.Name()) {
			continue
		}
		h := &Handler{Fn: fn, Req: n, HasAuth: hasField(s, "Authority")}
		// params: [recv, ctx, req]
		if len(fn.Params) == 3 {
			h.CtxPar, h.ReqPar = fn.Params[1], fn.Params[2]
		}
		out = append(out, h)
	}
	sort.Slice(out, func(i, j int) bool { return e.FnKey(out[i].Fn) < e.FnKey(out[j].Fn) })
	return out
}

func ast_IsExported(name string) bool {
	return name != "" && name[0] >= 'A' && name[0] <= 'Z'
}

// TypesImplementing returns fx-core (non-aux) named types T (or *T) implementing the interface pkgpath.Name.
func (e *Engine) TypesImplementing(ifacePkg, ifaceName string) []types.Type {
	p := e.ByPath[ifacePkg]
	if p == nil {
		p = e.ByPath[ModPath+"/"+ifacePkg]
	}
	var iface *types.Interface
	if p != nil {
		if o := p.Types.Scope().Lookup(ifaceName); o != nil {
			iface, _ = o.Type().Underlying().(*types.Interface)
		}
	} else {
		// search imports
		for _, q := range e.Pkgs {
			for _, imp := range q.Types.Imports() {
				if imp.Path() == ifacePkg {
					if o := imp.Scope().Lookup(ifaceName); o != nil {
						iface, _ = o.Type().Underlying().(*types.Interface)
					}
				}
			}
			if iface != nil {
				break
			}
		}
	}
	if iface == nil {
		return nil
	}
	return e.TypesImplementingIface(iface)
}

func (e *Engine) TypesImplementingIface(iface *types.Interface) []types.Type {
	var out []types.Type
	for _, p := range e.Pkgs {
		if !strings.HasPrefix(p.PkgPath, ModPath) || isAuxPkg(p.PkgPath) {
			continue
		}
		sc := p.Types.Scope()
		for _, n := range sc.Names() {
			tn, ok := sc.Lookup(n).(*types.TypeName)
			if !ok || tn.IsAlias() {
				continue
			}
			T := tn.Type()
			if _, isI := T.Underlying().(*types.Interface); isI {
				continue
			}
			if types.Implements(T, iface) {
				out = append(out, T)
			} else if types.Implements(types.NewPointer(T), iface) {
				out = append(out, types.NewPointer(T))
			}
		}
	}
	sort.Slice(out, func(i, j int) bool { return out[i].String() < out[j].String() })
	return out
}

// MethodOf returns the source function for method `name` of type T (looks through promotion wrappers).
func (e *Engine) MethodOf(T types.Type, name string) *ssa.Function {
	ms := e.Prog.MethodSets.MethodSet(T)
	for i := 0; i < ms.Len(); i++ {
		sel := ms.At(i)
		if sel.Obj().Name() != name {
			continue
		}
		if fo, ok := sel.Obj().(*types.Func); ok {
			if f := e.Prog.FuncValue(fo); f != nil && f.Blocks != nil {
				return f
			}
		}
		if f := e.Prog.MethodValue(sel); f != nil && f.Blocks != nil {
			return f
		}
	}
	return nil
}

// PrecompileMethods: types implementing contract.PrecompileMethod (fx-core).
func (e *Engine) PrecompileMethods() []types.Type {
	return e.TypesImplementing(ModPath+"/contract", "PrecompileMethod")
}

// TxEntryPoints returns the functions through which user transactions enter fx-core code:
// Msg handlers, precompile Run methods, ante decorators, IBC module callbacks.
func (e *Engine) TxEntryPoints() []*ssa.Function {
	seen := map[*ssa.Function]bool{}
	var out []*ssa.Function
	add := func(f *ssa.Function) {
		if f != nil && !seen[f] {
			seen[f] = true
			out = append(out, f)
		}
	}
	for _, h := range e.MsgHandlers() {
		add(h.Fn)
	}
	for _, T := range e.PrecompileMethods() {
		add(e.MethodOf(T, "Run"))
	}
	for _, fn := range e.Funcs {
		if fn.Parent() != nil || isAuxPkg(fnPkgPath(fn)) || fn.Signature.Recv() == nil {
			continue
		}
		switch fn.Name() {
		case "AnteHandle", "PostHandle", "OnRecvPacket", "OnAcknowledgementPacket", "OnTimeoutPacket", "SendPacket", "WriteAcknowledgement":
			add(fn)
		case "Run":
			// precompile contract dispatchers: Run(evm, contract, readonly)
			if fn.Signature.Params().Len() == 3 {
				add(fn)
			}
		}
	}
	sort.Slice(out, func(i, j int) bool { return e.FnKey(out[i]) < e.FnKey(out[j]) })
	return out
}

// BlockEntryPoints: Begin/End/PreBlock style functions of fx-core modules and the app.
func (e *Engine) BlockEntryPoints() []*ssa.Function {
	var out []*ssa.Function
	for _, fn := range e.Funcs {
		if fn.Parent() != nil || isAuxPkg(fnPkgPath(fn)) {
			continue
		}
		switch fn.Name() {
		case "EndBlock", "BeginBlock", "PreBlock", "EndBlocker", "BeginBlocker", "PreBlocker":
			out = append(out, fn)
		}
	}
	return out
}
