package main

import (
	"go/types"
	"sort"
	"go/constant"
	"fmt"
	"go/token"
	"strings"

	"golang.org/x/tools/go/ssa"
)

func init() { register("C13", "other", runC13) }

// guardReadsFamily: some guard dominating `at` is a boolean produced by a call that directly reads family hx, with the
// given polarity of "found"; mismatch branch fails clean. wantFound=false means: the passing path has found==false.
func (e *Engine) absenceGuard(at ssa.Instruction, hx string, wantFound bool) bool {
	for _, g := range GuardsOf(at) {
		v, pol := g.Cond, g.Pol
		for {
			if u, ok := v.(*ssa.UnOp); ok && u.Op == token.NOT {
				v, pol = u.X, !pol
				continue
			}
			break
		}
		var call *ssa.Call
		switch x := v.(type) {
		case *ssa.Call:
			call = x
		case *ssa.Extract:
			call, _ = x.Tuple.(*ssa.Call)
		}
		if call == nil || !e.callDirectOp(call, cc, hx, "has,get") {
			continue
		}
		if pol != wantFound {
			continue
		}
		if BranchFailsClean(g.If, !g.Pol, func(i ssa.Instruction) bool { return e.EffectOf(i) != "" }) {
			return true
		}
	}
	return false
}

// condMentions: the guard's condition value has a call named n in its backward slice.
func (e *Engine) condMentions(g Guard, names ...string) bool {
	hit := false
	e.Slice(g.Cond, SliceOpts{MaxDepth: 10, ThroughBinOps: true, ThroughCalls: true}, func(x ssa.Value) Verdict {
		if c, ok := x.(*ssa.Call); ok {
			for _, n := range names {
				if callName(c) == n {
					hit = true
					return Accept
				}
			}
		}
		return Continue
	})
	return hit
}

func runC13(e *Engine, r *Report, tier string) {
	r.Explanation = "C13, structural clauses. Decided: R1 the oracle record (0x12) and its two reverse indexes (0x13 external, 0x14 bridger) are created together under absence tests on all three keys, the bridger edit deletes the stored record's old index key and sets the new one under an absence test, unbond deletes all three on its success path, and nothing else writes 0x13/0x14; R2 bonding and add-delegate are dominated by membership in the governance list (0x38), the denom test and both stake bounds; R3 the recorded stake, the coins sent to the delegate account and the delegated amount are the same value, and the delegate account is GetDelegateAddress of the same oracle; R4 the penalty is clamped to [0, stake], add-delegate clears the slash counter, unbond requires `not in governance list` and `offline`; R5 the slash primitive is called only from the end-block slashing loops, each call guarded by `joined before the object` and `no confirmation by this oracle`, with the oracle's own address; R6 unbond pays out and deletes only on the branch where no unbonding delegation exists for the delegate account; R7 a governance oracle-list update hands every removed oracle to the unbonding routine regardless of the oracle's own state. R8 every store of Online = true into an oracle record is accompanied, on every path, by StartHeight := ctx.BlockHeight() for the same record, so that `created after it joined` (the start-height test of R5) refers to the latest join. Not decided: staking-module accounting, unbonding maturity, amounts."
	r.Rule("R1", "registry co-write: create all three under absence tests; edit re-keys; unbond deletes all; no other writer", 8, "writers of crosschain:12/13/14")
	r.Rule("R2", "bonding guarded by governance membership, denom and stake bounds", 6, "functions delegating for an oracle")
	r.Rule("R3", "recorded stake = transferred = delegated; delegate account of the same oracle", 2, "")
	r.Rule("R4", "penalty clamped; slash counter cleared on top-up; unbond requires removed and offline", 4, "")
	r.Rule("R5", "slash primitive only from the slashing loops, guarded by start height and missing confirmation", 7, "callers of the slash primitive")
	r.Rule("R6", "unbond proceeds only when no unbonding delegation exists", 1, "")
	r.Rule("R7", "governance removal unbonds every removed oracle", 1, "")
	r.Rule("R8", "every transition to Online = true sets StartHeight to the current block height on every path", 2, "stores of Oracle.Online = true")
	r.Rule("R9", "coins leave an oracle's delegate account for another account only in the unbond routine (stake minus penalty, record deleted) or while the oracle is Online (its stake is delegated, the balance is rewards)", 2, "account-to-account transfers out of GetDelegateAddress()")

	e.c13DelegateAccountPayouts(r)

	// classify msg handlers by their direct calls
	type hinfo struct {
		fn                                  *ssa.Function
		set12, set13, set14, del12, del13, del14 []ssa.CallInstruction
		delegate, sendCoins                  []ssa.CallInstruction
	}
	var hs []*hinfo
	for _, fn := range e.Funcs {
		if isAuxPkg(fnPkgPath(fn)) || fn.Parent() != nil || isGenesisOrUpgrade(fn) || !strings.Contains(fnPkgPath(fn), "x/crosschain/keeper") {
			continue
		}
		h := &hinfo{fn: fn}
		allCalls(fn, func(c ssa.CallInstruction) {
			if e.callDirectOp(c, cc, "12", "set") {
				h.set12 = append(h.set12, c)
			}
			if e.callDirectOp(c, cc, "13", "set") {
				h.set13 = append(h.set13, c)
			}
			if e.callDirectOp(c, cc, "14", "set") {
				h.set14 = append(h.set14, c)
			}
			if e.callDirectOp(c, cc, "12", "delete") {
				h.del12 = append(h.del12, c)
			}
			if e.callDirectOp(c, cc, "13", "delete") {
				h.del13 = append(h.del13, c)
			}
			if e.callDirectOp(c, cc, "14", "delete") {
				h.del14 = append(h.del14, c)
			}
			if callName(c) == "Delegate" && len(e.calleesOf(c)) == 0 {
				h.delegate = append(h.delegate, c)
			}
			if callName(c) == "SendCoins" && len(e.calleesOf(c)) == 0 {
				h.sendCoins = append(h.sendCoins, c)
			}
		})
		// skip the primitive writers themselves (direct store ops)
		direct := false
		for _, so := range e.Effects(fn) {
			if so.IsWrite() {
				direct = true
			}
		}
		if direct {
			continue
		}
		if len(h.set12)+len(h.set13)+len(h.set14)+len(h.del12)+len(h.del13)+len(h.del14)+len(h.delegate) > 0 {
			hs = append(hs, h)
		}
	}
	var create, edit, unbond *hinfo
	for _, h := range hs {
		switch {
		case len(h.set13) > 0 && len(h.set14) > 0 && len(h.set12) > 0:
			create = h
		case len(h.del14) > 0 && len(h.set14) > 0:
			edit = h
		case len(h.del12) > 0:
			unbond = h
		}
	}
	// --- R1 create
	if create == nil {
		r.Fail("R1", "create", "", "UNRESOLVED-ANCHOR: no function creates record + both indexes")
	} else {
		k := e.FnKey(create.fn)
		for _, f := range []struct {
			hx   string
			site ssa.CallInstruction
		}{{"12", create.set12[0]}, {"13", create.set13[0]}, {"14", create.set14[0]}} {
			ok := e.absenceGuard(f.site, f.hx, false)
			r.Check(ok, "R1", k+" absent(0x"+f.hx+")", e.InstrPos(f.site), "creation dominated by `not present` test on 0x"+f.hx+" (else error)", "an oracle record/index of family 0x"+f.hx+" can be overwritten: creation is not guarded by an absence test on that key (two oracles could share a bridger/external address)")
		}
	}
	// --- R1 edit
	if edit == nil {
		r.Fail("R1", "edit-bridger", "", "UNRESOLVED-ANCHOR: no function re-keys the bridger index")
	} else {
		k := e.FnKey(edit.fn)
		// deleted key roots at the stored record (read from 0x12)
		okOld := false
		for _, a := range nonCtxArgs(edit.del14[0]) {
			res := e.Slice(a, SliceOpts{MaxDepth: 10, ThroughCalls: true, At: edit.del14[0], IntoCallers: true}, func(x ssa.Value) Verdict {
				if _, ok := e.valueReadsFamily(x, cc, "12"); ok {
					return Accept
				}
				if p, ok := x.(*ssa.Parameter); ok && paramIndex(p) > 0 {
					// a record handed in by the callers (re-keying extracted into a helper): followed into the callers;
					// a parameter of a function without callers, or a message field, stays a reject
					if len(e.CallSites(p.Parent())) > 0 && strings.Contains(p.Type().String(), "Oracle") {
						return Continue
					}
					return Reject
				}
				return Continue
			})
			if res.AnyAccepted() && len(res.Rejected) == 0 {
				okOld = true
			}
		}
		r.Check(okOld, "R1", k+" old-key", e.InstrPos(edit.del14[0]), "deletes the index key of the stored record's bridger", "the bridger index entry removed is not the stored record's own bridger (the old bridger would stay mapped)")
		okAbs := e.absenceGuard(edit.set14[0], "14", false)
		if !okAbs {
			// the test may sit in the callers of a re-keying helper: then every call site must be guarded
			sites := e.CallSites(edit.fn)
			all := len(sites) > 0
			for _, cs := range sites {
				if isAuxPkg(fnPkgPath(cs.Caller)) {
					continue
				}
				if !e.absenceGuard(cs.Call, "14", false) {
					all = false
				}
			}
			okAbs = all
		}
		r.Check(okAbs, "R1", k+" absent(0x14)", e.InstrPos(edit.set14[0]), "new bridger must be unused", "the new bridger address is not checked for being bound to another oracle")
		okRec := len(edit.set12) > 0
		if !okRec {
			// a helper that returns the re-keyed record: every caller stores that returned record
			sites := e.CallSites(edit.fn)
			all := len(sites) > 0
			for _, cs := range sites {
				if isAuxPkg(fnPkgPath(cs.Caller)) {
					continue
				}
				cv, isVal := cs.Call.(ssa.Value)
				stored := false
				allCalls(cs.Caller, func(c ssa.CallInstruction) {
					if !e.callDirectOp(c, cc, "12", "set") || !Dominates(cs.Call, c) || !isVal {
						return
					}
					for _, a := range nonCtxArgs(c) {
						if e.rootsValue(a, cv) {
							stored = true
						}
					}
				})
				if !stored {
					all = false
				}
			}
			okRec = all
		}
		r.Check(okRec, "R1", k+" record", e.Pos(edit.fn.Pos()), "record rewritten with the new bridger", "the oracle record is not updated with the new bridger (the record that is stored is not the one whose bridger was changed)")
		// delete before set
		r.Check(Dominates(edit.del14[0], edit.set14[0]), "R1", k+" order", e.InstrPos(edit.set14[0]), "old index deleted before the new one is set", "new bridger index is written on a path that does not delete the old one")
	}
	// --- R1 unbond
	if unbond == nil {
		r.Fail("R1", "unbond", "", "UNRESOLVED-ANCHOR: no function deletes oracle records")
	} else {
		k := e.FnKey(unbond.fn)
		for _, hx := range []string{"12", "13", "14"} {
			hx := hx
			off := MustPassThrough(unbond.fn, nil, func(i ssa.Instruction) bool {
				c, ok := i.(ssa.CallInstruction)
				return ok && e.callDirectOp(c, cc, hx, "delete")
			})
			pos := e.Pos(unbond.fn.Pos())
			if off != nil {
				pos = e.InstrPos(off)
			}
			r.Check(off == nil, "R1", k+" delete(0x"+hx+")", pos, "deleted on every success path", "unbond can succeed without deleting family 0x"+hx+" (a dangling record/index; the oracle could be paid twice or its addresses stay reserved)")
			// each entry is deleted under the key it was written under: the record's own external / bridger / oracle address
			want := map[string]string{"12": "OracleAddress", "13": "ExternalAddress", "14": "BridgerAddress"}[hx]
			allCalls(unbond.fn, func(c ssa.CallInstruction) {
				if !e.callDirectOp(c, cc, hx, "delete") {
					return
				}
				okKey, seenArg := false, false
				for _, a := range c.Common().Args {
					if isCtxType(a.Type()) || strings.HasSuffix(a.Type().String(), "Keeper") || strings.HasSuffix(a.Type().String(), "MsgServer") {
						continue
					}
					seenArg = true
					res := e.Slice(a, SliceOpts{MaxDepth: 8}, func(x ssa.Value) Verdict {
						if n, t, ok := fieldName(x); ok && strings.HasSuffix(t.String(), "types.Oracle") {
							if n == want {
								return Accept
							}
							return Reject
						}
						// an accessor of the record (oracle.GetBridger()): decided by what it returns
						if cl, ok := x.(*ssa.Call); ok {
							if f := cl.Call.StaticCallee(); f != nil && f.Blocks != nil && f.Signature.Recv() != nil && strings.HasSuffix(strings.TrimPrefix(f.Signature.Recv().Type().String(), "*"), "types.Oracle") {
								okAll, n := true, 0
								for _, b := range f.Blocks {
									ret, isR := b.Instrs[len(b.Instrs)-1].(*ssa.Return)
									if !isR || len(ret.Results) == 0 {
										continue
									}
									n++
									rr := e.Slice(ret.Results[0], SliceOpts{MaxDepth: 6}, func(y ssa.Value) Verdict {
										if fn2, t2, ok := fieldName(y); ok && strings.HasSuffix(t2.String(), "types.Oracle") {
											if fn2 == want {
												return Accept
											}
											return Reject
										}
										return Continue
									})
									if !(rr.AnyAccepted() && rr.AllAccepted()) {
										okAll = false
									}
								}
								if okAll && n > 0 {
									return Accept
								}
								return Reject
							}
						}
						return Continue
					})
					if res.AnyAccepted() && res.AllAccepted() {
						okKey = true
					}
					if hx == "12" && !okKey {
						// the key the record was read with
						allCalls(unbond.fn, func(g ssa.CallInstruction) {
							if e.callDirectOp(g, cc, "12", "get") && Dominates(g, c) {
								for _, ga := range g.Common().Args {
									if !isCtxType(ga.Type()) && SameExpr(ga, a, 6) {
										okKey = true
									}
								}
							}
						})
					}
				}
				if !seenArg {
					return
				}
				r.Check(okKey, "R1", k+" delete(0x"+hx+") key", e.InstrPos(c), "deleted under the record's "+want, "the entry of family 0x"+hx+" is deleted under a key that is not the record's "+want+": the real entry stays behind (a retired bridger / external address keeps resolving to the oracle when it bonds again) and nothing is deleted under the key used")
			})
		}
	}
	// --- R1 no other writer of 13/14
	for _, hx := range []string{"13", "14"} {
		_, sites := e.writerCallSites(cc, hx, "set")
		for _, cs := range sites {
			okc := (create != nil && cs.Caller == create.fn) || (edit != nil && cs.Caller == edit.fn)
			r.Check(okc, "R1", "writer(0x"+hx+") "+e.FnKey(cs.Caller), e.InstrPos(cs.Call), "creation or bridger edit", "unexpected writer of the oracle index 0x"+hx)
		}
	}

	// --- R2 / R3 bonding
	nbond := 0
	for _, h := range hs {
		if len(h.delegate) == 0 || len(h.set12) == 0 {
			continue
		}
		nbond++
		k := e.FnKey(h.fn)
		d := h.delegate[0]
		r.Check(e.absenceGuard(d, "38", true) || e.guardCallNamed(d, "IsProposalOracle", true), "R2", k+" governance-list", e.InstrPos(d), "dominated by membership in the governance-approved list", "an oracle can bond / add stake without being in the governance-approved list")
		thr, mul, den := false, false, false
		for _, g := range GuardsOf(d) {
			if !BranchFailsClean(g.If, !g.Pol, func(i ssa.Instruction) bool { return e.EffectOf(i) != "" }) {
				continue
			}
			if e.condMentions(g, "GetOracleDelegateMultiple") {
				mul = true
			} else if e.condMentions(g, "GetOracleDelegateThreshold") {
				ci, _ := NormCond(g)
				if ci.Op == "==" || ci.Op == "!=" {
					den = true
				} else {
					thr = true
				}
			}
		}
		r.Check(thr, "R2", k+" lower-bound", e.InstrPos(d), "stake >= threshold (else error) dominates the delegation", "stake below the configured threshold is accepted")
		r.Check(mul, "R2", k+" upper-bound", e.InstrPos(d), "stake <= threshold*multiple (else error) dominates the delegation", "stake above the configured maximum is accepted")
		r.Check(den, "R2", k+" denom", e.InstrPos(d), "denom equality (else error) dominates the delegation", "stake in another denom is accepted")
		// R3: SendCoins amount and MsgDelegate amount same; delegate address same
		if len(h.sendCoins) == 0 {
			r.Fail("R3", k, e.InstrPos(d), "no transfer to the delegate account before delegating")
			continue
		}
		var sendCoin, delCoin, sendTo, delAddr ssa.Value
		for _, sc := range h.sendCoins {
			a := nonCtxArgs(sc)
			if len(a) == 3 && Dominates(sc, d) {
				sendTo = a[1]
				// coins -> NewCoins(x)
				e.Slice(a[2], SliceOpts{MaxDepth: 6}, func(x ssa.Value) Verdict {
					if namedTypeName(x.Type()) == "github.com/cosmos/cosmos-sdk/types.Coin" && x.Type().String() == "github.com/cosmos/cosmos-sdk/types.Coin" {
						if _, isC := x.(*ssa.Call); isC || true {
							if sendCoin == nil {
								sendCoin = x
							}
							return Accept
						}
					}
					return Continue
				})
			}
		}
		// msg delegate
		for _, a := range nonCtxArgs(d) {
			if c, ok := a.(*ssa.Call); ok && callName(c) == "NewMsgDelegate" {
				ca := c.Common().Args
				if len(ca) == 3 {
					delAddr, delCoin = ca[0], ca[2]
				}
			}
		}
		okAmt := sendCoin != nil && delCoin != nil && SameExpr(stripLoad(sendCoin), stripLoad(delCoin), 8)
		r.Check(okAmt, "R3", k+" amount", e.InstrPos(d), "the coin sent to the delegate account is the coin delegated", "the amount delegated differs from the amount transferred to the delegate account")
		okAddr := false
		if sendTo != nil && delAddr != nil {
			okAddr = SameExpr(stripString(delAddr), stripString(sendTo), 8)
			if gc, ok := stripString(sendTo).(*ssa.Call); !ok || callName(gc) != "GetDelegateAddress" {
				okAddr = false
			}
		}
		r.Check(okAddr, "R3", k+" delegate-account", e.InstrPos(d), "transfer destination and delegator are GetDelegateAddress of the same oracle", "coins are sent to / delegated from an account that is not the oracle's delegate account")
	}
	if nbond < 2 {
		r.Fail("R2", "bonding functions", "", fmt.Sprintf("UNRESOLVED-ANCHOR: %d functions delegate and record an oracle (bond, add-delegate expected)", nbond))
	}

	// --- R3 the delegate account is derived from the oracle address AND the chain module's name: one oracle account bonded on
	// two bridge chains must get two delegate accounts, or the two stakes are pooled (one chain's unbond pays out both)
	if da := e.findFn(func(f *ssa.Function) bool {
		return canonName(f.Name()) == "GetDelegateAddress" && f.Signature.Recv() != nil && strings.HasSuffix(namedTypeName(f.Signature.Recv().Type()), "types.Oracle")
	}); da == nil {
		r.Fail("R3", "delegate-account derivation", "", "UNRESOLVED-ANCHOR: no GetDelegateAddress on the oracle record")
	} else {
		var strPar *ssa.Parameter
		for _, p := range da.Params {
			if b, ok := p.Type().Underlying().(*types.Basic); ok && b.Kind() == types.String {
				strPar = p
			}
		}
		hasAddr, hasMod := false, false
		var hashed ssa.Value
		allCalls(da, func(c ssa.CallInstruction) {
			if strings.HasPrefix(callName(c), "Keccak256") || strings.HasPrefix(callName(c), "Sum") {
				for _, a := range c.Common().Args {
					hashed = a
				}
			}
		})
		seenP := map[ssa.Value]bool{}
		var parts func(v ssa.Value, d int)
		parts = func(v ssa.Value, d int) {
			if v == nil || d > 12 || seenP[v] {
				return
			}
			seenP[v] = true
			v0 := v
			v = stripConv(v)
			if strPar != nil && v == ssa.Value(strPar) {
				hasMod = true
				return
			}
			switch x := v.(type) {
			case *ssa.Slice:
				parts(x.X, d+1)
			case *ssa.Alloc: // varargs array
				for _, ref := range *x.Referrers() {
					if ia, ok := ref.(*ssa.IndexAddr); ok {
						for _, r2 := range *ia.Referrers() {
							if st, ok := r2.(*ssa.Store); ok {
								parts(st.Val, d+1)
							}
						}
					}
				}
			case *ssa.MakeSlice:
				// a buffer filled with copy(): every copy whose destination window is not empty contributes its source
				allCalls(da, func(c ssa.CallInstruction) {
					b, ok := c.Common().Value.(*ssa.Builtin)
					if !ok || b.Name() != "copy" || len(c.Common().Args) != 2 {
						return
					}
					dst := c.Common().Args[0]
					if sl, ok := dst.(*ssa.Slice); ok && sl.X == ssa.Value(x) {
						if sl.Low != nil && sl.High == nil && vkey(sl.Low, 0) == vkey(x.Len, 0) {
							return // dst[len:] of a buffer of that very length: nothing is copied
						}
					} else if dst != ssa.Value(x) {
						return
					}
					parts(c.Common().Args[1], d+1)
				})
			case *ssa.Call:
				if b, ok := x.Call.Value.(*ssa.Builtin); ok && b.Name() == "append" {
					for _, a := range x.Call.Args {
						parts(a, d+1)
					}
					return
				}
				if n, _, ok := fieldNameOfLoad(stripConv(v0)); ok && n == "OracleAddress" {
					hasAddr = true
				}
				// accessor of the record (GetOracle()) or a conversion of a field
				for _, a := range callArgs(x) {
					if a == ssa.Value(da.Params[0]) {
						hasAddr = true
					}
					parts(a, d+1)
				}
			case *ssa.UnOp:
				if n, _, ok := fieldName(x.X); ok && n == "OracleAddress" {
					hasAddr = true
				}
			case *ssa.Phi:
				for _, ed := range x.Edges {
					parts(ed, d+1)
				}
			}
		}
		parts(hashed, 0)
		ck := e.CanonFnKey(da) + " derivation"
		switch {
		case hashed == nil:
			r.Fail("R3", ck, e.Pos(da.Pos()), "UNRESOLVED-ANCHOR: no hash in the delegate-account derivation")
		case hasAddr && hasMod:
			r.Ok("R3", ck, e.Pos(da.Pos()), "hash pre-image contains the oracle address and the module name")
		default:
			r.Fail("R3", ck, e.Pos(da.Pos()), fmt.Sprintf("the hashed pre-image of the delegate account does not contain both the oracle address (%v) and the chain module's name (%v): an account bonded as oracle on two bridge chains gets one delegate account, its stakes are pooled and one chain's unbond pays out both", hasAddr, hasMod))
		}
	}

	// --- R4 unbond: the penalty leaves the delegate account once
	// payout = (balance of the delegate account) - penalty is right only for a balance read *before* the penalty was taken
	// out of that account; a balance read after the debit already lacks it.
	if unbond != nil {
		fnU := unbond.fn
		var debit, payout ssa.CallInstruction
		allCalls(fnU, func(c ssa.CallInstruction) {
			switch callName(c) {
			case "SendCoinsFromAccountToModule":
				debit = c
			case "SendCoins":
				payout = c
			}
		})
		ck := e.CanonFnKey(fnU) + " payout"
		if debit == nil || payout == nil {
			r.Fail("R4", ck, e.Pos(fnU.Pos()), "UNRESOLVED-ANCHOR: penalty debit or payout not found in the unbond routine")
		} else {
			var pen, out ssa.Value
			for _, a := range debit.Common().Args {
				if isCoinsType(a.Type()) {
					pen = a
				}
			}
			for _, a := range payout.Common().Args {
				if isCoinsType(a.Type()) {
					out = a
				}
			}
			var bal *ssa.Call
			subPen := false
			seenW := map[ssa.Value]bool{}
			var walkOut func(v ssa.Value, d int)
			walkOut = func(v ssa.Value, d int) {
				if v == nil || d > 14 || seenW[v] {
					return
				}
				seenW[v] = true
				switch x := v.(type) {
				case *ssa.Phi:
					for _, ed := range x.Edges {
						walkOut(ed, d+1)
					}
				case *ssa.Slice:
					walkOut(x.X, d+1)
				case *ssa.ChangeType:
					walkOut(x.X, d+1)
				case *ssa.Convert:
					walkOut(x.X, d+1)
				case *ssa.UnOp:
					if al, ok := x.X.(*ssa.Alloc); ok {
						for _, ref := range *al.Referrers() {
							if st, ok := ref.(*ssa.Store); ok && st.Addr == ssa.Value(al) {
								walkOut(st.Val, d+1)
							}
							// an array local filled element by element (the variadic argument of append)
							if ia, ok := ref.(*ssa.IndexAddr); ok {
								for _, r2 := range *ia.Referrers() {
									if st, ok := r2.(*ssa.Store); ok && st.Addr == ssa.Value(ia) {
										walkOut(st.Val, d+1)
									}
								}
							}
						}
					}
					if ia, ok := x.X.(*ssa.IndexAddr); ok {
						walkOut(ia.X, d+1) // an element of a slice: where the slice comes from
					}
				case *ssa.Alloc:
					for _, ref := range *x.Referrers() {
						if ia, ok := ref.(*ssa.IndexAddr); ok {
							for _, r2 := range *ia.Referrers() {
								if st, ok := r2.(*ssa.Store); ok && st.Addr == ssa.Value(ia) {
									walkOut(st.Val, d+1)
								}
							}
						}
					}
				case *ssa.Index:
					walkOut(x.X, d+1)
				case *ssa.Call:
					if b, ok := x.Call.Value.(*ssa.Builtin); ok && b.Name() == "append" {
						// the slice appended to and the elements appended (a filter loop copies the kept coins one by one)
						for _, a := range x.Call.Args {
							walkOut(a, d+1)
						}
						return
					}
					switch callName(x) {
					case "GetAllBalances", "GetBalance", "SpendableCoins":
						bal = x
					case "Sub", "SafeSub":
						as := callArgs(x)
						if len(as) >= 2 && pen != nil && coinsKey(as[1]) != "" && coinsKey(as[1]) == coinsKey(pen) {
							subPen = true
						}
						if len(as) >= 1 {
							walkOut(as[0], d+1)
						}
					case "NewCoins", "Add", "Sort":
						for _, a := range callArgs(x) {
							walkOut(a, d+1)
						}
					}
				case *ssa.Extract:
					walkOut(x.Tuple, d+1)
				}
			}
			walkOut(out, 0)
			switch {
			case bal == nil || pen == nil:
				r.Fail("R4", ck, e.InstrPos(payout), "UNRESOLVED-ANCHOR: the paid-out amount is not derived from a balance of the delegate account")
			case Dominates(bal, debit) && subPen:
				r.Ok("R4", ck, e.InstrPos(payout), "payout = balance read before the penalty debit, minus the penalty")
			case Dominates(bal, debit) && !subPen:
				r.Fail("R4", ck, e.InstrPos(payout), "the payout is the whole balance read before the penalty was taken out of the delegate account: the transfer exceeds what is left (the penalty is not charged, or the unbond can never succeed)")
			case subPen:
				r.Fail("R4", ck, e.InstrPos(payout), "the penalty is subtracted from a balance that was read after the penalty had already been taken out of the delegate account: it is charged twice (one part burned, one part stranded in the delegate account; with a fraction above 50% the subtraction panics and the stake can never be withdrawn)")
			default:
				r.Ok("R4", ck, e.InstrPos(payout), "payout = what is left in the delegate account after the penalty debit")
			}
		}
	}

	// --- R4 clamp shape
	gs := e.Method("x/crosschain/types", "Oracle", "GetSlashAmount")
	if gs == nil {
		// renamed: the Oracle method that clamps with MinInt/MaxInt
		gs = e.findFn(func(f *ssa.Function) bool {
			return f.Signature.Recv() != nil && strings.HasSuffix(namedTypeName(f.Signature.Recv().Type()), "x/crosschain/types.Oracle") && callsNamed(f, "MinInt")
		})
	}
	if gs == nil {
		r.Fail("R4", "GetSlashAmount", "", "UNRESOLVED-ANCHOR")
	} else {
		minOK, maxOK := false, false
		allCalls(gs, func(c ssa.CallInstruction) {
			if callName(c) == "MinInt" {
				for _, a := range c.Common().Args {
					if n, _, ok := fieldNameOfLoad(a); ok && n == "DelegateAmount" {
						minOK = true
					}
				}
			}
			if callName(c) == "MaxInt" {
				for _, a := range c.Common().Args {
					if z, ok := a.(*ssa.Call); ok && callName(z) == "ZeroInt" {
						maxOK = true
					}
				}
			}
		})
		// the returned value passes through both
		r.Check(minOK && maxOK, "R4", "penalty clamp", e.Pos(gs.Pos()), "penalty = max(min(x, stake), 0)", "penalty is no longer clamped to [0, recorded stake]")
	}
	// add-delegate clears SlashTimes where it burns the slash
	for _, h := range hs {
		if len(h.delegate) == 0 {
			continue
		}
		burns := false
		allCalls(h.fn, func(c ssa.CallInstruction) {
			if callName(c) == "BurnCoins" {
				burns = true
			}
		})
		if !burns {
			continue
		}
		cleared := false
		allInstrs(h.fn, func(i ssa.Instruction) {
			if st, ok := i.(*ssa.Store); ok {
				if fa, ok := st.Addr.(*ssa.FieldAddr); ok {
					if n, _, _ := fieldName(fa); n == "SlashTimes" {
						if z, ok := constInt(st.Val); ok && z == 0 {
							cleared = true
						}
					}
				}
			}
		})
		r.Check(cleared, "R4", e.FnKey(h.fn)+" slash-counter", e.Pos(h.fn.Pos()), "slash counter reset after the penalty is burned", "the penalty is burned but the slash counter is not reset: it would be charged again")
	}
	if unbond != nil {
		k := e.FnKey(unbond.fn)
		d := unbond.del12[0]
		r.Check(e.guardCallNamed(d, "IsProposalOracle", false) || e.absenceGuard(d, "38", false), "R4", k+" removed-by-governance", e.InstrPos(d), "unbond requires the oracle to be out of the governance list", "an oracle still approved by governance can unbond")
		okOff := false
		for _, g := range GuardsOf(d) {
			ci, ok := NormCond(g)
			if ok && ci.Op == "false" {
				if n, _, ok := fieldNameOfLoad(ci.X); ok && n == "Online" {
					okOff = BranchFailsClean(g.If, !g.Pol, nil)
				}
			}
		}
		r.Check(okOff, "R4", k+" offline", e.InstrPos(d), "unbond requires Online == false", "an online oracle can unbond")
		// R6
		verdict := "none"
		for _, g := range GuardsOf(d) {
			ci, ok := NormCond(g)
			if !ok {
				continue
			}
			isUBDErr := func(v ssa.Value) bool {
				if ex, ok := v.(*ssa.Extract); ok {
					if c, ok := ex.Tuple.(*ssa.Call); ok && callName(c) == "GetUnbondingDelegation" && isErrorType(ex.Type()) {
						return true
					}
				}
				return false
			}
			if ci.X != nil && ci.Y != nil && (isUBDErr(ci.X) && isNilConst(ci.Y) || isUBDErr(ci.Y) && isNilConst(ci.X)) {
				if ci.Op == "!=" {
					verdict = "notfound"
				} else if ci.Op == "==" && verdict != "notfound" {
					verdict = "found"
				}
			}
			if ci.Call != nil && callName(ci.Call) == "Is" && strings.HasPrefix(ci.Op, "call:") {
				for _, a := range ci.Call.Common().Args {
					if isUBDErr(a) {
						verdict = "notfound"
					}
				}
			}
		}
		switch verdict {
		case "notfound":
			r.Ok("R6", k, e.InstrPos(d), "payout and delete lie on the branch where the unbonding-delegation lookup reports `not found`")
		case "found":
			r.Fail("R6", k, e.InstrPos(d), "unbond pays out and deletes the oracle on the branch where an unbonding delegation EXISTS: the stake still in the unbonding queue later matures into the keyless delegate account")
		default:
			r.Fail("R6", k, e.InstrPos(d), "unbond does not depend on the absence of an unbonding delegation for the delegate account (stake still unbonding would be abandoned)")
		}
	}

	// --- R5 slash primitive
	var slashFn *ssa.Function
	for _, fn := range e.Funcs {
		if isAuxPkg(fnPkgPath(fn)) || fn.Parent() != nil {
			continue
		}
		inc := false
		allInstrs(fn, func(i ssa.Instruction) {
			if st, ok := i.(*ssa.Store); ok {
				if fa, ok := st.Addr.(*ssa.FieldAddr); ok {
					if n, _, _ := fieldName(fa); n == "SlashTimes" {
						if _, c, ok := plusConst(st.Val); ok && c == 1 {
							inc = true
						}
					}
				}
			}
		})
		if inc {
			slashFn = fn
		}
	}
	if slashFn == nil {
		r.Fail("R5", "slash primitive", "", "UNRESOLVED-ANCHOR: no function increments SlashTimes")
	} else {
		blockReach := e.Reach(e.BlockEntryPoints(), nil)
		txReach := e.Reach(e.TxEntryPoints(), nil)
		sites := e.CallSites(slashFn)
		nloops := 0
		for _, cs := range sites {
			if isAuxPkg(fnPkgPath(cs.Caller)) {
				continue
			}
			k := e.FnKey(cs.Caller) + " -> slash"
			if txReach[cs.Caller] || !blockReach[cs.Caller] {
				r.Fail("R5", k, e.InstrPos(cs.Call), "the slash primitive is called from code reachable from a transaction (or not from end-block): oracles may only be penalised by the end-block slashing pass")
				continue
			}
			nloops++
			// guards: start height and missing confirm
			okStart, okConf := false, false
			for _, g := range GuardsOf(cs.Call) {
				ci, ok := NormCond(g)
				if !ok {
					continue
				}
				if ci.X != nil && ci.Y != nil {
					if n, _, ok := fieldNameOfLoad(stripConv(ci.X)); ok && n == "StartHeight" && (ci.Op == "<=" || ci.Op == "<") {
						okStart = true
					}
					if n, _, ok := fieldNameOfLoad(stripConv(ci.Y)); ok && n == "StartHeight" && (ci.Op == ">=" || ci.Op == ">") {
						okStart = true
					}
				}
				if ci.Op == "!found" {
					if lk, ok := ci.X.(*ssa.Lookup); ok && lk.CommaOk {
						// key = oracle external address
						if n, _, ok := fieldNameOfLoad(lk.Index); ok && n == "ExternalAddress" {
							okConf = true
						}
					}
				}
			}
			r.Check(okStart, "R5", k+" joined-before", e.InstrPos(cs.Call), "slash guarded by oracle.StartHeight <= object height", "an oracle can be penalised for an object created before it joined")
			r.Check(okConf, "R5", k+" unconfirmed", e.InstrPos(cs.Call), "slash guarded by `no confirmation from this oracle's external address`", "an oracle that confirmed (or any oracle regardless of confirmations) can be penalised")
			// argument: the oracle's own address
			okArg := false
			for _, a := range nonCtxArgs(cs.Call) {
				if n, _, ok := fieldNameOfLoad(a); ok && n == "OracleAddress" {
					okArg = true
				}
				if c, ok := a.(*ssa.Call); ok && (callName(c) == "GetOracle" || callName(c) == "GetOracleAddress") {
					okArg = true
				}
			}
			r.Check(okArg, "R5", k+" argument", e.InstrPos(cs.Call), "slashes the iterated oracle's OracleAddress", "the slash primitive is not given the iterated oracle's address")
		}
		if nloops < 3 {
			r.Fail("R5", "slashing loops", e.Pos(slashFn.Pos()), fmt.Sprintf("UNRESOLVED-ANCHOR: %d end-block call sites of the slash primitive (oracle set, batch, bridge call expected)", nloops))
		}
	}

	// --- R7 governance removal
	_, w38 := e.writerCallSites(cc, "38", "set")
	nrem := 0
	for _, cs := range w38 {
		F := cs.Caller
		// unbonding routine call
		var ub ssa.CallInstruction
		allCalls(F, func(c ssa.CallInstruction) {
			if e.callReachesExternal(c, "Undelegate") && len(e.calleesOf(c)) > 0 {
				ub = c
			}
		})
		if ub == nil {
			continue
		}
		nrem++
		k := e.FnKey(F)
		// append sites feeding the list iterated for the unbonding call
		bad := ""
		badPos := ""
		napp := 0
		allInstrs(F, func(i ssa.Instruction) {
			c, ok := i.(*ssa.Call)
			if !ok {
				return
			}
			b, ok := c.Common().Value.(*ssa.Builtin)
			if !ok || b.Name() != "append" || !strings.HasSuffix(c.Type().String(), "types.Oracle") {
				return
			}
			napp++
			for _, g := range GuardsOf(c) {
				// allowed: map comma-ok lookups, loop conditions
				if ex, ok := g.Cond.(*ssa.Extract); ok {
					if lk, ok := ex.Tuple.(*ssa.Lookup); ok && lk.CommaOk {
						continue
					}
					if _, ok := ex.Tuple.(*ssa.Next); ok {
						continue
					}
				}
				if bo, ok := g.Cond.(*ssa.BinOp); ok {
					// range index loop: i < len
					if _, ok := bo.Y.(*ssa.Call); ok && bo.Op == token.LSS {
						continue
					}
				}
				// anything rooted in a field of the oracle record is a state-dependent exclusion
				res := e.Slice(g.Cond, SliceOpts{MaxDepth: 6, ThroughBinOps: true}, func(x ssa.Value) Verdict {
					if n, st, ok := fieldName(x); ok && strings.HasSuffix(namedTypeName(st), "types.Oracle") {
						bad = "oracle." + n
						return Reject
					}
					return Continue
				})
				if len(res.Rejected) > 0 {
					badPos = e.InstrPos(g.If)
				}
			}
		})
		if napp == 0 {
			r.Fail("R7", k, e.Pos(F.Pos()), "cannot find where removed oracles are collected (anchor unresolved)")
		} else if bad != "" {
			r.Fail("R7", k, badPos, "a removed oracle is handed to the unbonding routine only if `"+bad+"` holds: an oracle removed by governance in another state keeps its stake delegated forever and can never withdraw it")
		} else {
			ok2, _ := errorHandled(ub)
			r.Check(ok2, "R7", k, e.InstrPos(ub), "every oracle dropped from the list is unbonded; errors abort the update", "error of the unbonding routine is ignored")
		}
	}
	if nrem == 0 {
		r.Fail("R7", "governance removal", "", "UNRESOLVED-ANCHOR: the function updating the governance oracle list does not unbond removed oracles")
	}

	// ---------- R8: whoever puts an oracle online resets the height it answers from ----------
	// The slashing loops skip objects created before oracle.StartHeight (R5). That is only "created after it joined" if every
	// transition to Online = true also sets StartHeight to the current block height, on every path — an oracle taken offline by
	// governance (not slashed) and put back online must not keep the start height of its first bond.
	non := 0
	for _, fn := range e.Funcs {
		if isAuxPkg(fnPkgPath(fn)) || isGenesisOrUpgrade(fn) || !strings.Contains(fnPkgPath(fn), "x/crosschain/keeper") {
			continue
		}
		allInstrs(fn, func(i ssa.Instruction) {
			st, ok := i.(*ssa.Store)
			if !ok {
				return
			}
			fa, ok := st.Addr.(*ssa.FieldAddr)
			if !ok {
				return
			}
			n, t, ok := fieldName(fa)
			if !ok || n != "Online" || !strings.HasSuffix(t.String(), "types.Oracle") {
				return
			}
			c, isC := st.Val.(*ssa.Const)
			if !isC || c.Value == nil || c.Value.Kind() != constant.Bool || !constant.BoolVal(c.Value) {
				return
			}
			non++
			ck := e.CanonFnKey(fn) + " online"
			var sh *ssa.Store
			allInstrs(fn, func(j ssa.Instruction) {
				s2, ok := j.(*ssa.Store)
				if !ok {
					return
				}
				f2, ok := s2.Addr.(*ssa.FieldAddr)
				if !ok || f2.X != fa.X {
					return
				}
				if n2, _, ok := fieldName(f2); !ok || n2 != "StartHeight" {
					return
				}
				isNow := false
				e.Slice(s2.Val, SliceOpts{MaxDepth: 4}, func(x ssa.Value) Verdict {
					if cc0, ok := x.(*ssa.Call); ok && callName(cc0) == "BlockHeight" {
						isNow = true
						return Accept
					}
					return Continue
				})
				if !isNow {
					return
				}
				if s2.Block() == st.Block() || Dominates(s2, st) || MustPassThrough(fn, st, func(x ssa.Instruction) bool { return x == ssa.Instruction(s2) }) == nil {
					sh = s2
				}
			})
			if sh != nil {
				r.Ok("R8", ck, e.InstrPos(st), "StartHeight := current block height on every path that puts the oracle online")
			} else {
				r.Fail("R8", ck, e.InstrPos(st), "the oracle is put online without its StartHeight being set to the current block height on every path: it keeps an earlier start height and is penalised for oracle sets, batches and bridge calls created while it was not a member")
			}
		})
	}
	if non == 0 {
		r.Fail("R8", "online transitions", "", "UNRESOLVED-ANCHOR: no store of Online = true found")
	}
}

// c13DelegateAccountPayouts (R9): after governance removes an oracle its stake is undelegated and, once matured, lies on the
// delegate account as plain balance. The only way out of that account must be the unbond routine, which deducts the penalty
// and deletes the record; the reward withdrawal sweeps the whole balance and is therefore allowed only while the oracle is
// Online (round-7 seed C13 replaced that test by "still has a delegation", which dust shares satisfy).
func (e *Engine) c13DelegateAccountPayouts(r *Report) {
	n := 0
	for _, fn := range e.Funcs {
		if isAuxPkg(fnPkgPath(fn)) || !strings.Contains(fnPkgPath(fn), "/x/crosschain") || isGenesisOrUpgrade(fn) {
			continue
		}
		allCalls(fn, func(c ssa.CallInstruction) {
			if callName(c) != "SendCoins" {
				return
			}
			args := callArgs(c)
			if len(args) < 5 {
				return
			}
			fromDelegate := false
			e.Slice(args[2], SliceOpts{MaxDepth: 10, ConstLeafOK: true}, func(v ssa.Value) Verdict {
				if cc, ok := v.(*ssa.Call); ok && callName(cc) == "GetDelegateAddress" {
					fromDelegate = true
					return Accept
				}
				return Continue
			})
			if !fromDelegate {
				return
			}
			n++
			ck := e.FnKey(fn) + " pay-out from the delegate account"
			if e.HasTransEffect(rootFn(fn), "crosschain", "12", "delete") {
				r.Ok("R9", ck, e.InstrPos(c), "inside the unbond routine (deletes the oracle record)")
				return
			}
			online := false
			for _, g := range GuardsOf(c) {
				ci, ok := NormCond(g)
				if ok && ci.Op == "true" {
					if nm, _, ok := fieldNameOfLoad(ci.X); ok && nm == "Online" {
						online = BranchFailsClean(g.If, !g.Pol, func(i ssa.Instruction) bool { return e.EffectOf(i) != "" })
					}
				}
			}
			r.Check(online, "R9", ck, e.InstrPos(c), "dominated by oracle.Online (offline -> error, no effect)", "the whole balance of an oracle's delegate account is paid out without requiring the oracle to be Online: once governance removed the oracle and its undelegated stake has matured, this path hands out the stake without the slashing penalty, and the unbond routine then fails forever")
		})
	}
	if n == 0 {
		r.Fail("R9", "delegate-account pay-outs", "", "UNRESOLVED-ANCHOR: no account-to-account transfer out of GetDelegateAddress() found")
	}
}

func (e *Engine) guardCallNamed(at ssa.Instruction, name string, want bool) bool {
	for _, g := range GuardsOf(at) {
		v, pol := g.Cond, g.Pol
		for {
			if u, ok := v.(*ssa.UnOp); ok && u.Op == token.NOT {
				v, pol = u.X, !pol
				continue
			}
			break
		}
		if c, ok := v.(*ssa.Call); ok && callName(c) == name && pol == want {
			if BranchFailsClean(g.If, !g.Pol, func(i ssa.Instruction) bool { return e.EffectOf(i) != "" }) {
				return true
			}
		}
	}
	return false
}

func stripLoad(v ssa.Value) ssa.Value {
	v = stripConv(v)
	return v
}

func stripString(v ssa.Value) ssa.Value {
	for {
		v = stripConv(v)
		if c, ok := v.(*ssa.Call); ok && (callName(c) == "String" || callName(c) == "Bytes") {
			a := callArgs(c)
			if len(a) == 1 {
				v = a[0]
				continue
			}
		}
		return v
	}
}

// coinsKey: the structural key of a coins expression (its terms), "" when it has no recognisable form.
func coinsKey(v ssa.Value) string {
	ts, ok := coinsTerms(v)
	if !ok || len(ts) == 0 {
		return ""
	}
	var ks []string
	for _, t := range ts {
		ks = append(ks, fmt.Sprint(t))
	}
	sort.Strings(ks)
	return strings.Join(ks, "+")
}
