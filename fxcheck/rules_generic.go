package main

// Rules that are about Go semantics rather than about one module; several properties import them for the packages they
// are anchored in.

import (
	"go/token"
	"go/types"
	"strings"

	"golang.org/x/tools/go/ssa"
)

// ---------- results of immutable arithmetic must be used ----------

var immutableNumTypes = map[string]bool{
	"cosmossdk.io/math.Int": true, "cosmossdk.io/math.LegacyDec": true, "cosmossdk.io/math.Uint": true,
	"github.com/cosmos/cosmos-sdk/types.Coin": true, "github.com/cosmos/cosmos-sdk/types.Coins": true,
	"github.com/cosmos/cosmos-sdk/types.DecCoin": true, "github.com/cosmos/cosmos-sdk/types.DecCoins": true,
}

var pureArithNames = map[string]bool{"Add": true, "Sub": true, "Mul": true, "Quo": true, "AddRaw": true, "SubRaw": true, "MulRaw": true,
	"QuoRaw": true, "Neg": true, "Abs": true, "SafeSub": true, "SafeAdd": true, "MulInt": true, "QuoInt": true, "MulInt64": true,
	"QuoInt64": true, "AddAmount": true, "SubAmount": true, "Sort": true, "TruncateInt": true, "MulTruncate": true, "QuoTruncate": true,
	"Min": true, "Max": true, "Incr": true, "Decr": true}

// discardedArithmetic: calls of value-receiver arithmetic on the SDK's immutable number and coin types whose result
// nobody uses. `a.Add(b)` returns the sum and leaves a alone; a statement consisting of it alone drops the amount.
func (e *Engine) discardedArithmetic(pkgFilter func(string) bool, report func(fn *ssa.Function, c *ssa.Call, what string)) int {
	n := 0
	for _, fn := range e.Funcs {
		pp := fnPkgPath(fn)
		if isAuxPkg(pp) || !pkgFilter(pp) {
			continue
		}
		allInstrs(fn, func(i ssa.Instruction) {
			c, ok := i.(*ssa.Call)
			if !ok || c.Common().IsInvoke() {
				return
			}
			f := c.Common().StaticCallee()
			if f == nil || f.Signature.Recv() == nil || !pureArithNames[f.Name()] {
				return
			}
			rt := f.Signature.Recv().Type()
			if _, isPtr := rt.(*types.Pointer); isPtr {
				return
			}
			if !immutableNumTypes[namedTypeName(rt)] {
				return
			}
			n++
			if c.Referrers() != nil && len(*c.Referrers()) == 0 {
				report(fn, c, namedTypeName(rt)+"."+f.Name())
			}
		})
	}
	return n
}

func (e *Engine) ruleDiscardedArithmetic(r *Report, rule string, pkgs ...string) {
	filter := func(p string) bool {
		for _, s := range pkgs {
			if strings.Contains(p, s) {
				return true
			}
		}
		return false
	}
	bad := 0
	n := e.discardedArithmetic(filter, func(fn *ssa.Function, c *ssa.Call, what string) {
		bad++
		r.Fail(rule, e.FnKey(fn)+" "+what+" result", e.InstrPos(c), "the result of "+what+" is discarded: these types are immutable, the receiver keeps its old value, so the amount that was meant to be added/subtracted is lost from the books (e.g. collected from the sender but not recorded)")
	})
	if bad == 0 {
		r.Ok(rule, "arithmetic results", "", "every result of immutable Int/Dec/Coin arithmetic is used")
	}
	r.Note("%s: %d arithmetic call sites on immutable number/coin types examined", rule, n)
}

// ---------- a search result of -1 must not be used as an index ----------

var sentinelSearch = map[string]bool{
	"bytes.IndexByte": true, "bytes.Index": true, "bytes.LastIndex": true, "bytes.LastIndexByte": true, "bytes.IndexAny": true, "bytes.IndexRune": true, "bytes.IndexFunc": true,
	"strings.Index": true, "strings.IndexByte": true, "strings.LastIndex": true, "strings.LastIndexByte": true, "strings.IndexAny": true, "strings.IndexRune": true, "strings.IndexFunc": true,
	"slices.Index": true, "slices.IndexFunc": true, "golang.org/x/exp/slices.Index": true, "golang.org/x/exp/slices.IndexFunc": true, "slices.BinarySearch": false,
}

func sentinelCall(v ssa.Value) *ssa.Call {
	v = stripConv(v)
	c, ok := v.(*ssa.Call)
	if !ok {
		return nil
	}
	f := c.Common().StaticCallee()
	if f == nil {
		return nil
	}
	if o := f.Origin(); o != nil {
		f = o // an instance of a generic function (slices.IndexFunc[[]string string])
	}
	if f.Pkg == nil {
		return nil
	}
	name := f.Pkg.Pkg.Path() + "." + f.Name()
	if i := strings.Index(f.Name(), "["); i > 0 {
		name = f.Pkg.Pkg.Path() + "." + f.Name()[:i]
	}
	if sentinelSearch[name] {
		return c
	}
	return nil
}

// sentinelIndexSites reports slice/index expressions whose bound is the raw result of a search that returns -1 on a miss,
// with no comparison of that result dominating the use.
func (e *Engine) sentinelIndexSites(pkgFilter func(string) bool, report func(fn *ssa.Function, at ssa.Instruction, c *ssa.Call, ok bool)) {
	for _, fn := range e.Funcs {
		pp := fnPkgPath(fn)
		if isAuxPkg(pp) || !pkgFilter(pp) {
			continue
		}
		allInstrs(fn, func(i ssa.Instruction) {
			var idx []ssa.Value
			switch x := i.(type) {
			case *ssa.Slice:
				idx = []ssa.Value{x.Low, x.High, x.Max}
			case *ssa.IndexAddr:
				idx = []ssa.Value{x.Index}
			case *ssa.Index:
				idx = []ssa.Value{x.Index}
			default:
				return
			}
			for _, v := range idx {
				if v == nil {
					continue
				}
				c := sentinelCall(v)
				if c == nil {
					continue
				}
				guarded := false
				for _, g := range GuardsOf(i) {
					ci, ok := NormCond(g)
					if !ok {
						continue
					}
					if (ci.X != nil && stripConv(ci.X) == ssa.Value(c)) || (ci.Y != nil && stripConv(ci.Y) == ssa.Value(c)) {
						guarded = true
					}
				}
				report(fn, i, c, guarded)
			}
		})
	}
}

// ---------- writes to a copy that nobody reads ----------

// lostStructWrites: a struct local that is only ever written (whole, or field by field) and never read, passed on or
// stored anywhere. The typical source is `for _, x := range list { x.Field = … }` over a slice of struct values: the loop
// variable is a copy, the element in the slice keeps its old value.
func (e *Engine) lostStructWrites(pkgFilter func(string) bool, report func(fn *ssa.Function, a *ssa.Alloc, st *ssa.Store, field string)) int {
	n := 0
	for _, fn := range e.Funcs {
		pp := fnPkgPath(fn)
		if isAuxPkg(pp) || !pkgFilter(pp) {
			continue
		}
		allInstrs(fn, func(i ssa.Instruction) {
			a, ok := i.(*ssa.Alloc)
			if !ok || a.Heap || a.Referrers() == nil {
				return
			}
			stt, ok := a.Type().(*types.Pointer).Elem().Underlying().(*types.Struct)
			if !ok {
				return
			}
			n++
			// reads of the struct (whole or a field, or its address escaping) and the stores that overwrite it as a whole
			var reads []ssa.Instruction
			whole := map[ssa.Instruction]bool{}
			type fstore struct {
				st   *ssa.Store
				name string
			}
			var fstores []fstore
			for _, r := range *a.Referrers() {
				switch x := r.(type) {
				case *ssa.DebugRef:
				case *ssa.Store:
					if x.Addr == ssa.Value(a) {
						whole[x] = true
					} else {
						reads = append(reads, x)
					}
				case *ssa.FieldAddr:
					for _, r2 := range *x.Referrers() {
						switch y := r2.(type) {
						case *ssa.DebugRef:
						case *ssa.Store:
							if y.Addr == ssa.Value(x) {
								nm := ""
								if x.Field < stt.NumFields() {
									nm = stt.Field(x.Field).Name()
								}
								fstores = append(fstores, fstore{y, nm})
							} else {
								reads = append(reads, y)
							}
						default:
							reads = append(reads, r2)
						}
					}
				default:
					reads = append(reads, r)
				}
			}
			isRead := map[ssa.Instruction]bool{}
			for _, rd := range reads {
				isRead[rd] = true
			}
			for _, fs := range fstores {
				// can any read happen after this store before the struct is overwritten as a whole?
				hit := ReachAvoiding(fn, fs.st, func(i ssa.Instruction) bool { return isRead[i] }, func(i ssa.Instruction) bool { return whole[i] })
				if hit == nil {
					report(fn, a, fs.st, fs.name)
					break
				}
			}

		})
	}
	return n
}

func (e *Engine) ruleLostStructWrites(r *Report, rule string, pkgs ...string) {
	filter := func(p string) bool {
		for _, s := range pkgs {
			if strings.Contains(p, s) {
				return true
			}
		}
		return false
	}
	bad := 0
	n := e.lostStructWrites(filter, func(fn *ssa.Function, a *ssa.Alloc, st *ssa.Store, field string) {
		bad++
		r.Fail(rule, e.FnKey(fn)+" write to "+a.Comment+"."+field, e.InstrPos(st), "field "+field+" of the local struct `"+a.Comment+"` is assigned but the struct is never read afterwards: it is a copy (e.g. the loop variable of a range over a slice of struct values), so the update is lost — an amount merged into it disappears from the record although the coins were collected")
	})
	if bad == 0 {
		r.Ok(rule, "struct copies", "", "no struct local is written without being read")
	}
	r.Note("%s: %d struct locals examined", rule, n)
}

// ---------- a search result compared with > 0 ----------

// sentinelMiscompare: `i > 0`, `i <= 0`, `i < 1`, `i >= 1` on the result of a search that returns -1 on a miss and 0 for a hit
// at the first position: the first position is treated as "not found".
func (e *Engine) ruleSentinelMiscompare(r *Report, rule string, pkgs ...string) {
	filter := func(p string) bool {
		for _, s := range pkgs {
			if strings.Contains(p, s) {
				return true
			}
		}
		return false
	}
	bad, n := 0, 0
	for _, fn := range e.Funcs {
		pp := fnPkgPath(fn)
		if isAuxPkg(pp) || !filter(pp) {
			continue
		}
		allInstrs(fn, func(i ssa.Instruction) {
			b, ok := i.(*ssa.BinOp)
			if !ok {
				return
			}
			var c *ssa.Call
			var k int64
			var isK bool
			op := b.Op
			if c = sentinelCall(b.X); c != nil {
				k, isK = constInt(b.Y)
			} else if c = sentinelCall(b.Y); c != nil {
				k, isK = constInt(b.X)
				switch op {
				case token.GTR:
					op = token.LSS
				case token.LSS:
					op = token.GTR
				case token.GEQ:
					op = token.LEQ
				case token.LEQ:
					op = token.GEQ
				}
			}
			if c == nil || !isK {
				return
			}
			n++
			wrong := (k == 0 && (op == token.GTR || op == token.LEQ)) || (k == 1 && (op == token.GEQ || op == token.LSS))
			if wrong {
				bad++
				r.Fail(rule, e.FnKey(fn)+" "+callName(c)+" compared", e.InstrPos(b), "the result of "+callName(c)+" is compared so that 0 counts as `not found`: the search returns -1 on a miss and 0 for a match at the first position, so a match in first place is ignored")
			}
		})
	}
	if bad == 0 {
		r.Ok(rule, "search results compared", "", "no search result is compared with > 0 / <= 0")
	}
	r.Note("%s: %d comparisons of search results examined", rule, n)
}

// ---------- Trim with a cutset that looks like a prefix ----------

// ruleTrimCutset: strings.TrimLeft / TrimRight / Trim take a SET of characters; a constant argument of two or more different
// non-space characters is almost always meant as a prefix / suffix ("0x"), and strips more than that (leading zeros of a hex
// selector).
func (e *Engine) ruleTrimCutset(r *Report, rule string, pkgs ...string) {
	filter := func(p string) bool {
		for _, s := range pkgs {
			if strings.Contains(p, s) {
				return true
			}
		}
		return false
	}
	bad, n := 0, 0
	for _, fn := range e.Funcs {
		pp := fnPkgPath(fn)
		if isAuxPkg(pp) || !filter(pp) {
			continue
		}
		allCalls(fn, func(c ssa.CallInstruction) {
			f := c.Common().StaticCallee()
			if f == nil || f.Pkg == nil || (f.Pkg.Pkg.Path() != "strings" && f.Pkg.Pkg.Path() != "bytes") {
				return
			}
			if f.Name() != "TrimLeft" && f.Name() != "TrimRight" && f.Name() != "Trim" {
				return
			}
			a := c.Common().Args
			if len(a) != 2 {
				return
			}
			cut, ok := constString(a[1])
			if !ok {
				return
			}
			n++
			distinct := map[rune]bool{}
			space := true
			for _, ch := range cut {
				distinct[ch] = true
				if ch != ' ' && ch != '\t' && ch != '\n' && ch != '\r' {
					space = false
				}
			}
			if len(distinct) >= 2 && !space {
				bad++
				r.Fail(rule, e.FnKey(fn)+" "+f.Name()+"(\""+cut+"\")", e.InstrPos(c), f.Name()+" removes every leading/trailing character that is IN the set \""+cut+"\", not the prefix/suffix \""+cut+"\": e.g. the leading zeros of a hex value after its 0x — the normalised value then no longer equals what it is compared with")
			}
		})
	}
	if bad == 0 {
		r.Ok(rule, "trim cutsets", "", "no Trim* call with a multi-character cutset")
	}
	r.Note("%s: %d Trim* calls with a constant cutset examined", rule, n)
}
