package main

// Rules that are about Go semantics rather than about one module; several properties import them for the packages they
// are anchored in.

import (
	"go/types"
	"strings"

	"golang.org/x/tools/go/ssa"
)

// ---------- results of immutable arithmetic must be used ----------

var immutableNumTypes = map[string]bool{
	"cosmossdk.io/math.Int": true, "cosmossdk.io/math.LegacyDec": true, "cosmossdk.io/math.Uint": true,
	"github.com/cosmos/cosmos-sdk/types.Coin": true, "github.com/cosmos/cosmos-sdk/types.Coins": true,
	"github.com/cosmos/cosmos-sdk/types.DecCoin": true, "github.com/cosmos/cosmos-sdk/types.DecCoins": true,
}

var pureArithNames = map[string]bool{"Add": true, "Sub": true, "Mul": true, "Quo": true, "AddRaw": true, "SubRaw": true, "MulRaw": true,
	"QuoRaw": true, "Neg": true, "Abs": true, "SafeSub": true, "SafeAdd": true, "MulInt": true, "QuoInt": true, "MulInt64": true,
	"QuoInt64": true, "AddAmount": true, "SubAmount": true, "Sort": true, "TruncateInt": true, "MulTruncate": true, "QuoTruncate": true,
	"Min": true, "Max": true, "Incr": true, "Decr": true}

// discardedArithmetic: calls of value-receiver arithmetic on the SDK's immutable number and coin types whose result
// nobody uses. `a.Add(b)` returns the sum and leaves a alone; a statement consisting of it alone drops the amount.
func (e *Engine) discardedArithmetic(pkgFilter func(string) bool, report func(fn *ssa.Function, c *ssa.Call, what string)) int {
	n := 0
	for _, fn := range e.Funcs {
		pp := fnPkgPath(fn)
		if isAuxPkg(pp) || !pkgFilter(pp) {
			continue
		}
		allInstrs(fn, func(i ssa.Instruction) {
			c, ok := i.(*ssa.Call)
			if !ok || c.Common().IsInvoke() {
				return
			}
			f := c.Common().StaticCallee()
			if f == nil || f.Signature.Recv() == nil || !pureArithNames[f.Name()] {
				return
			}
			rt := f.Signature.Recv().Type()
			if _, isPtr := rt.(*types.Pointer); isPtr {
				return
			}
			if !immutableNumTypes[namedTypeName(rt)] {
				return
			}
			n++
			if c.Referrers() != nil && len(*c.Referrers()) == 0 {
				report(fn, c, namedTypeName(rt)+"."+f.Name())
			}
		})
	}
	return n
}

func (e *Engine) ruleDiscardedArithmetic(r *Report, rule string, pkgs ...string) {
	filter := func(p string) bool {
		for _, s := range pkgs {
			if strings.Contains(p, s) {
				return true
			}
		}
		return false
	}
	bad := 0
	n := e.discardedArithmetic(filter, func(fn *ssa.Function, c *ssa.Call, what string) {
		bad++
		r.Fail(rule, e.FnKey(fn)+" "+what+" result", e.InstrPos(c), "the result of "+what+" is discarded: these types are immutable, the receiver keeps its old value, so the amount that was meant to be added/subtracted is lost from the books (e.g. collected from the sender but not recorded)")
	})
	if bad == 0 {
		r.Ok(rule, "arithmetic results", "", "every result of immutable Int/Dec/Coin arithmetic is used")
	}
	r.Note("%s: %d arithmetic call sites on immutable number/coin types examined", rule, n)
}

// ---------- a search result of -1 must not be used as an index ----------

var sentinelSearch = map[string]bool{
	"bytes.IndexByte": true, "bytes.Index": true, "bytes.LastIndex": true, "bytes.LastIndexByte": true, "bytes.IndexAny": true, "bytes.IndexRune": true, "bytes.IndexFunc": true,
	"strings.Index": true, "strings.IndexByte": true, "strings.LastIndex": true, "strings.LastIndexByte": true, "strings.IndexAny": true, "strings.IndexRune": true, "strings.IndexFunc": true,
	"slices.Index": true, "slices.IndexFunc": true,
}

func sentinelCall(v ssa.Value) *ssa.Call {
	v = stripConv(v)
	c, ok := v.(*ssa.Call)
	if !ok {
		return nil
	}
	f := c.Common().StaticCallee()
	if f == nil || f.Pkg == nil {
		return nil
	}
	name := f.Pkg.Pkg.Path() + "." + f.Name()
	if i := strings.Index(f.Name(), "["); i > 0 {
		name = f.Pkg.Pkg.Path() + "." + f.Name()[:i]
	}
	if sentinelSearch[name] {
		return c
	}
	return nil
}

// sentinelIndexSites reports slice/index expressions whose bound is the raw result of a search that returns -1 on a miss,
// with no comparison of that result dominating the use.
func (e *Engine) sentinelIndexSites(pkgFilter func(string) bool, report func(fn *ssa.Function, at ssa.Instruction, c *ssa.Call, ok bool)) {
	for _, fn := range e.Funcs {
		pp := fnPkgPath(fn)
		if isAuxPkg(pp) || !pkgFilter(pp) {
			continue
		}
		allInstrs(fn, func(i ssa.Instruction) {
			var idx []ssa.Value
			switch x := i.(type) {
			case *ssa.Slice:
				idx = []ssa.Value{x.Low, x.High, x.Max}
			case *ssa.IndexAddr:
				idx = []ssa.Value{x.Index}
			case *ssa.Index:
				idx = []ssa.Value{x.Index}
			default:
				return
			}
			for _, v := range idx {
				if v == nil {
					continue
				}
				c := sentinelCall(v)
				if c == nil {
					continue
				}
				guarded := false
				for _, g := range GuardsOf(i) {
					ci, ok := NormCond(g)
					if !ok {
						continue
					}
					if (ci.X != nil && stripConv(ci.X) == ssa.Value(c)) || (ci.Y != nil && stripConv(ci.Y) == ssa.Value(c)) {
						guarded = true
					}
				}
				report(fn, i, c, guarded)
			}
		})
	}
}
