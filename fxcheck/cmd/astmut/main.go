// astmut rewrites one Go source file with a behaviour-preserving control-flow transformation applied at every
// applicable site (or only inside one function). It is the generator of the checker's metamorphic self-test
// (scripts/metamorph.py): the property checks must give the same verdict on the rewritten tree.
//
//	astmut -file f.go -op invert|nest|hoist|split|switch|unelse [-func Name] -out g.go     prints "sites=N"
package main

import (
	"flag"
	"fmt"
	"go/ast"
	"go/format"
	"go/parser"
	"go/token"
	"os"
	"strings"

	"golang.org/x/tools/go/ast/astutil"
)

var sites int

func main() {
	file := flag.String("file", "", "")
	op := flag.String("op", "", "")
	fn := flag.String("func", "", "")
	out := flag.String("out", "", "")
	list := flag.Bool("list", false, "list function names with bodies")
	flag.Parse()
	src, err := os.ReadFile(*file)
	if err != nil {
		fmt.Println(err)
		os.Exit(2)
	}
	if strings.Contains(string(src), "//go:embed") || strings.Contains(string(src), "//go:build") || strings.Contains(string(src), "// +build") {
		fmt.Println("sites=0 (directives)")
		os.Exit(3)
	}
	fset := token.NewFileSet()
	f, err := parser.ParseFile(fset, *file, src, 0) // comments dropped on purpose
	if err != nil {
		fmt.Println(err)
		os.Exit(2)
	}
	for _, d := range f.Decls {
		fd, ok := d.(*ast.FuncDecl)
		if !ok || fd.Body == nil {
			continue
		}
		if *list {
			fmt.Println(fd.Name.Name)
			continue
		}
		if *fn != "" && fd.Name.Name != *fn {
			continue
		}
		if hasLabels(fd.Body) {
			continue
		}
		mutBlock(fd.Body, *op)
	}
	if *list {
		return
	}
	fmt.Printf("sites=%d\n", sites)
	if sites == 0 {
		os.Exit(3)
	}
	if *op == "wraperr" {
		astutil.AddNamedImport(fset, f, "zzfmt", "fmt")
	}
	var sb strings.Builder
	if err := format.Node(&sb, token.NewFileSet(), stripPos(f)); err != nil {
		fmt.Println(err)
		os.Exit(2)
	}
	if err := os.WriteFile(*out, []byte(sb.String()), 0o644); err != nil {
		fmt.Println(err)
		os.Exit(2)
	}
}

// positions confuse the printer once statements have moved; print from a position-free tree
func stripPos(f *ast.File) *ast.File {
	ast.Inspect(f, func(n ast.Node) bool {
		switch x := n.(type) {
		case *ast.BlockStmt:
			x.Lbrace, x.Rbrace = 0, 0
		case *ast.IfStmt:
			x.If = 0
		case *ast.ReturnStmt:
			x.Return = 0
		case *ast.CompositeLit:
			// keep multi-line literals valid: the printer needs consistent positions or none
			x.Lbrace, x.Rbrace = 0, 0
		case *ast.CallExpr:
			x.Lparen, x.Rparen = 0, 0
		case *ast.Ident:
			x.NamePos = 0
		case *ast.BasicLit:
			x.ValuePos = 0
		case *ast.BinaryExpr:
			x.OpPos = 0
		case *ast.UnaryExpr:
			x.OpPos = 0
		case *ast.AssignStmt:
			x.TokPos = 0
		case *ast.FuncLit:
		case *ast.KeyValueExpr:
			x.Colon = 0
		case *ast.ParenExpr:
			x.Lparen, x.Rparen = 0, 0
		case *ast.StarExpr:
			x.Star = 0
		case *ast.SwitchStmt:
			x.Switch = 0
		case *ast.CaseClause:
			x.Case, x.Colon = 0, 0
		case *ast.ForStmt:
			x.For = 0
		case *ast.RangeStmt:
			x.For, x.TokPos = 0, 0
		case *ast.BranchStmt:
			x.TokPos = 0
		case *ast.IncDecStmt:
			x.TokPos = 0
		case *ast.DeferStmt:
			x.Defer = 0
		case *ast.GoStmt:
			x.Go = 0
		case *ast.IndexExpr:
			x.Lbrack, x.Rbrack = 0, 0
		case *ast.SliceExpr:
			x.Lbrack, x.Rbrack = 0, 0
		case *ast.TypeAssertExpr:
			x.Lparen, x.Rparen = 0, 0
		case *ast.FuncType:
			x.Func = 0
		case *ast.FieldList:
			x.Opening, x.Closing = 0, 0
		case *ast.GenDecl:
			if x.Tok != token.IMPORT {
				x.TokPos, x.Lparen, x.Rparen = 0, 0, 0
			}
		case *ast.ValueSpec:
		case *ast.TypeSwitchStmt:
			x.Switch = 0
		case *ast.SelectStmt:
			x.Select = 0
		case *ast.Ellipsis:
			x.Ellipsis = 0
		case *ast.ArrayType:
			x.Lbrack = 0
		case *ast.MapType:
			x.Map = 0
		case *ast.StructType:
			x.Struct = 0
		case *ast.InterfaceType:
			x.Interface = 0
		case *ast.ChanType:
			x.Begin, x.Arrow = 0, 0
		case *ast.LabeledStmt:
			x.Colon = 0
		case *ast.SendStmt:
			x.Arrow = 0
		case *ast.EmptyStmt:
			x.Semicolon = 0
		}
		return true
	})
	return f
}

func hasLabels(b *ast.BlockStmt) bool {
	found := false
	ast.Inspect(b, func(n ast.Node) bool {
		switch x := n.(type) {
		case *ast.LabeledStmt:
			found = true
		case *ast.BranchStmt:
			if x.Tok == token.GOTO || x.Label != nil {
				found = true
			}
		}
		return !found
	})
	return found
}

func negate(c ast.Expr) ast.Expr {
	switch x := c.(type) {
	case *ast.ParenExpr:
		return negate(x.X)
	case *ast.UnaryExpr:
		if x.Op == token.NOT {
			if p, ok := x.X.(*ast.ParenExpr); ok {
				return p.X
			}
			return x.X
		}
	case *ast.BinaryExpr:
		flip := map[token.Token]token.Token{token.EQL: token.NEQ, token.NEQ: token.EQL, token.LSS: token.GEQ, token.GEQ: token.LSS, token.GTR: token.LEQ, token.LEQ: token.GTR}
		if t, ok := flip[x.Op]; ok {
			return &ast.BinaryExpr{X: x.X, Op: t, Y: x.Y}
		}
	}
	return &ast.UnaryExpr{Op: token.NOT, X: &ast.ParenExpr{X: c}}
}

func terminates(b *ast.BlockStmt) bool {
	if len(b.List) == 0 {
		return false
	}
	switch x := b.List[len(b.List)-1].(type) {
	case *ast.ReturnStmt:
		return true
	case *ast.BranchStmt:
		return x.Tok == token.CONTINUE || x.Tok == token.BREAK
	case *ast.ExprStmt:
		if c, ok := x.X.(*ast.CallExpr); ok {
			if id, ok := c.Fun.(*ast.Ident); ok && id.Name == "panic" {
				return true
			}
		}
	}
	return false
}

// hasFreeBreak: a break (or fallthrough) that would target the enclosing switch
func hasFreeBreak(stmts []ast.Stmt) bool {
	found := false
	var walk func(n ast.Node, depth int)
	walk = func(n ast.Node, depth int) {
		ast.Inspect(n, func(m ast.Node) bool {
			if found || m == nil {
				return false
			}
			switch x := m.(type) {
			case *ast.ForStmt, *ast.RangeStmt, *ast.SwitchStmt, *ast.TypeSwitchStmt, *ast.SelectStmt, *ast.FuncLit:
				if m != n {
					// breaks inside bind to that statement; fallthrough inside nested switch is its own
					return false
				}
			case *ast.BranchStmt:
				if x.Tok == token.BREAK || x.Tok == token.FALLTHROUGH {
					found = true
				}
			}
			return true
		})
	}
	for _, s := range stmts {
		walk(s, 0)
	}
	return found
}

func declares(stmts []ast.Stmt) bool {
	for _, s := range stmts {
		switch x := s.(type) {
		case *ast.DeclStmt:
			return true
		case *ast.AssignStmt:
			if x.Tok == token.DEFINE {
				return true
			}
		}
	}
	return false
}

func pureOperand(e ast.Expr) bool {
	switch x := e.(type) {
	case *ast.Ident:
		return true
	case *ast.SelectorExpr:
		return pureOperand(x.X)
	case *ast.ParenExpr:
		return pureOperand(x.X)
	}
	return false
}

func mutBlock(b *ast.BlockStmt, op string) {
	if b == nil {
		return
	}
	// children first
	for _, s := range b.List {
		mutStmtChildren(s, op)
	}
	switch op {
	case "invert":
		for _, s := range b.List {
			if is, ok := s.(*ast.IfStmt); ok {
				invertChain(is)
			}
		}
	case "nest":
		for i := len(b.List) - 2; i >= 0; i-- {
			is, ok := b.List[i].(*ast.IfStmt)
			if !ok || is.Else != nil || !terminates(is.Body) {
				continue
			}
			rest := append([]ast.Stmt{}, b.List[i+1:]...)
			n := &ast.IfStmt{Init: is.Init, Cond: negate(is.Cond), Body: &ast.BlockStmt{List: rest}, Else: is.Body}
			b.List = append(b.List[:i:i], n)
			sites++
		}
	case "hoist":
		for i, s := range b.List {
			if is, ok := s.(*ast.IfStmt); ok && is.Init != nil {
				init := is.Init
				is.Init = nil
				b.List[i] = &ast.BlockStmt{List: []ast.Stmt{init, is}}
				sites++
			}
		}
	case "split":
		var out []ast.Stmt
		for _, s := range b.List {
			is, ok := s.(*ast.IfStmt)
			if ok && is.Else == nil && is.Init == nil {
				if be, ok := stripParen(is.Cond).(*ast.BinaryExpr); ok {
					if be.Op == token.LAND {
						out = append(out, &ast.IfStmt{Cond: be.X, Body: &ast.BlockStmt{List: []ast.Stmt{&ast.IfStmt{Cond: be.Y, Body: is.Body}}}})
						sites++
						continue
					}
					if be.Op == token.LOR && terminates(is.Body) && !containsFuncLit(is.Body) {
						out = append(out, &ast.IfStmt{Cond: be.X, Body: is.Body}, &ast.IfStmt{Cond: be.Y, Body: is.Body})
						sites++
						continue
					}
				}
			}
			out = append(out, s)
		}
		b.List = out
	case "switch":
		for i, s := range b.List {
			sw, ok := s.(*ast.SwitchStmt)
			if !ok || sw.Init != nil || len(sw.Body.List) == 0 {
				continue
			}
			if sw.Tag != nil && !pureOperand(sw.Tag) {
				continue
			}
			okAll := true
			var def *ast.CaseClause
			var cases []*ast.CaseClause
			for j, c := range sw.Body.List {
				cc := c.(*ast.CaseClause)
				if hasFreeBreak(cc.Body) {
					okAll = false
				}
				if cc.List == nil {
					if j != len(sw.Body.List)-1 {
						okAll = false // default not last: order of evaluation differs
					}
					def = cc
				} else {
					cases = append(cases, cc)
				}
			}
			if !okAll || len(cases) == 0 {
				continue
			}
			var head, cur *ast.IfStmt
			for _, cc := range cases {
				var cond ast.Expr
				for _, e := range cc.List {
					var t ast.Expr = e
					if sw.Tag != nil {
						t = &ast.BinaryExpr{X: sw.Tag, Op: token.EQL, Y: e}
					} else if _, isBin := e.(*ast.BinaryExpr); isBin {
						t = &ast.ParenExpr{X: e}
					}
					if cond == nil {
						cond = t
					} else {
						cond = &ast.BinaryExpr{X: cond, Op: token.LOR, Y: t}
					}
				}
				n := &ast.IfStmt{Cond: cond, Body: &ast.BlockStmt{List: cc.Body}}
				if head == nil {
					head = n
				} else {
					cur.Else = n
				}
				cur = n
			}
			if def != nil {
				cur.Else = &ast.BlockStmt{List: def.Body}
			}
			b.List[i] = head
			sites++
		}
	case "wraperr":
		// if err != nil { ...; return X, err }  ->  return X, zzfmt.Errorf("ctx: %w", err)
		for _, s := range b.List {
			is, ok := s.(*ast.IfStmt)
			if !ok || len(is.Body.List) == 0 {
				continue
			}
			be, ok := stripParen(is.Cond).(*ast.BinaryExpr)
			if !ok || be.Op != token.NEQ {
				continue
			}
			ex, ok1 := be.X.(*ast.Ident)
			ny, ok2 := be.Y.(*ast.Ident)
			if !ok1 || !ok2 || ny.Name != "nil" || ex.Name != "err" {
				continue
			}
			rs, ok := is.Body.List[len(is.Body.List)-1].(*ast.ReturnStmt)
			if !ok || len(rs.Results) == 0 {
				continue
			}
			last, ok := rs.Results[len(rs.Results)-1].(*ast.Ident)
			if !ok || last.Name != "err" {
				continue
			}
			rs.Results[len(rs.Results)-1] = &ast.CallExpr{
				Fun:  &ast.SelectorExpr{X: ast.NewIdent("zzfmt"), Sel: ast.NewIdent("Errorf")},
				Args: []ast.Expr{&ast.BasicLit{Kind: token.STRING, Value: "\"ctx: %w\""}, ast.NewIdent("err")},
			}
			sites++
		}
	case "unelse":
		var out []ast.Stmt
		for _, s := range b.List {
			is, ok := s.(*ast.IfStmt)
			if ok && is.Else != nil && terminates(is.Body) {
				if eb, ok := is.Else.(*ast.BlockStmt); ok {
					is.Else = nil
					out = append(out, is)
					if declares(eb.List) {
						out = append(out, eb)
					} else {
						out = append(out, eb.List...)
					}
					sites++
					continue
				}
			}
			out = append(out, s)
		}
		b.List = out
	}
}

func containsFuncLit(n ast.Node) bool {
	f := false
	ast.Inspect(n, func(m ast.Node) bool {
		if _, ok := m.(*ast.FuncLit); ok {
			f = true
		}
		return !f
	})
	return f
}

func stripParen(e ast.Expr) ast.Expr {
	for {
		p, ok := e.(*ast.ParenExpr)
		if !ok {
			return e
		}
		e = p.X
	}
}

func invertChain(is *ast.IfStmt) {
	if eb, ok := is.Else.(*ast.BlockStmt); ok {
		is.Cond = negate(is.Cond)
		is.Body, is.Else = eb, is.Body
		sites++
	}
}

func mutStmtChildren(s ast.Stmt, op string) {
	switch x := s.(type) {
	case *ast.BlockStmt:
		mutBlock(x, op)
	case *ast.IfStmt:
		mutBlock(x.Body, op)
		if x.Else != nil {
			mutStmtChildren(x.Else, op)
			if ei, ok := x.Else.(*ast.IfStmt); ok && op == "invert" {
				invertChain(ei)
			}
		}
		mutExprFuncLits(x.Cond, op)
		if x.Init != nil {
			mutStmtChildren(x.Init, op)
		}
	case *ast.ForStmt:
		mutBlock(x.Body, op)
	case *ast.RangeStmt:
		mutBlock(x.Body, op)
		mutExprFuncLits(x.X, op)
	case *ast.SwitchStmt:
		for _, c := range x.Body.List {
			cc := c.(*ast.CaseClause)
			tmp := &ast.BlockStmt{List: cc.Body}
			mutBlock(tmp, op)
			cc.Body = tmp.List
		}
	case *ast.TypeSwitchStmt:
		for _, c := range x.Body.List {
			cc := c.(*ast.CaseClause)
			tmp := &ast.BlockStmt{List: cc.Body}
			mutBlock(tmp, op)
			cc.Body = tmp.List
		}
	case *ast.SelectStmt:
		for _, c := range x.Body.List {
			cc := c.(*ast.CommClause)
			tmp := &ast.BlockStmt{List: cc.Body}
			mutBlock(tmp, op)
			cc.Body = tmp.List
		}
	case *ast.ExprStmt:
		mutExprFuncLits(x.X, op)
	case *ast.AssignStmt:
		for _, r := range x.Rhs {
			mutExprFuncLits(r, op)
		}
	case *ast.ReturnStmt:
		for _, r := range x.Results {
			mutExprFuncLits(r, op)
		}
	case *ast.DeferStmt:
		mutExprFuncLits(x.Call, op)
	case *ast.GoStmt:
		mutExprFuncLits(x.Call, op)
	case *ast.DeclStmt:
		if gd, ok := x.Decl.(*ast.GenDecl); ok {
			for _, sp := range gd.Specs {
				if vs, ok := sp.(*ast.ValueSpec); ok {
					for _, v := range vs.Values {
						mutExprFuncLits(v, op)
					}
				}
			}
		}
	}
}

func mutExprFuncLits(e ast.Expr, op string) {
	if e == nil {
		return
	}
	ast.Inspect(e, func(n ast.Node) bool {
		if fl, ok := n.(*ast.FuncLit); ok {
			if !hasLabels(fl.Body) {
				mutBlock(fl.Body, op)
			}
			return false
		}
		return true
	})
}
