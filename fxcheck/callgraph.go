package main

import (
	"go/types"
	"sort"
	"strings"

	"golang.org/x/tools/go/ssa"
)

type Edge struct {
	Caller, Callee *ssa.Function
	Call           ssa.CallInstruction // nil for closure/funcval references
	Kind           string              // static | invoke | closure | funcval
}

type CallGraph struct {
	Out map[*ssa.Function][]*Edge
	In  map[*ssa.Function][]*Edge
}

func (e *Engine) CallGraph() *CallGraph {
	if e.cg != nil {
		return e.cg
	}
	cg := &CallGraph{Out: map[*ssa.Function][]*Edge{}, In: map[*ssa.Function][]*Edge{}}
	e.cg = cg
	add := func(ed *Edge) {
		cg.Out[ed.Caller] = append(cg.Out[ed.Caller], ed)
		cg.In[ed.Callee] = append(cg.In[ed.Callee], ed)
	}
	var through func(f *ssa.Function, depth int) []*ssa.Function
	through = func(f *ssa.Function, depth int) []*ssa.Function {
		// look through synthetic wrappers (bound methods, thunks, promoted-method wrappers)
		if f == nil {
			return nil
		}
		if f.Synthetic == "" || f.Parent() != nil || f.Blocks == nil || depth > 3 {
			return []*ssa.Function{f}
		}
		var out []*ssa.Function
		allCalls(f, func(c ssa.CallInstruction) {
			if cal := c.Common().StaticCallee(); cal != nil {
				out = append(out, through(cal, depth+1)...)
			} else if c.Common().IsInvoke() {
				out = append(out, e.Implementers(c.Common().Value.Type(), c.Common().Method.Name())...)
			}
		})
		if len(out) == 0 {
			return []*ssa.Function{f}
		}
		return out
	}
	funcs := append(append([]*ssa.Function{}, e.Funcs...), e.DepFuncs...)
	for _, fn := range funcs {
		fn := fn
		allInstrs(fn, func(i ssa.Instruction) {
			if c, ok := i.(ssa.CallInstruction); ok {
				cc := c.Common()
				if cc.IsInvoke() {
					for _, impl := range e.Implementers(cc.Value.Type(), cc.Method.Name()) {
						add(&Edge{fn, impl, c, "invoke"})
					}
				} else if cal := cc.StaticCallee(); cal != nil {
					for _, t := range through(cal, 0) {
						add(&Edge{fn, t, c, "static"})
					}
				}
			}
			// function values referenced as operands
			var ops []*ssa.Value
			for _, op := range i.Operands(ops) {
				if op == nil || *op == nil {
					continue
				}
				switch v := (*op).(type) {
				case *ssa.MakeClosure:
					// handled when we visit the MakeClosure instr itself
					_ = v
				case *ssa.Function:
					if c, ok := i.(ssa.CallInstruction); ok && c.Common().Value == v {
						continue // direct call target
					}
					for _, t := range through(v, 0) {
						add(&Edge{fn, t, nil, "funcval"})
					}
				}
			}
			if mc, ok := i.(*ssa.MakeClosure); ok {
				if f, ok := mc.Fn.(*ssa.Function); ok {
					for _, t := range through(f, 0) {
						add(&Edge{fn, t, nil, "closure"})
					}
				}
			}
		})
	}
	return cg
}

// Implementers returns fx-core (non-aux) concrete methods implementing iface.method.
func (e *Engine) Implementers(recv types.Type, method string) []*ssa.Function {
	iface, ok := recv.Underlying().(*types.Interface)
	if !ok {
		return nil
	}
	key := types.TypeString(recv, nil) + "." + method
	if r, ok := e.implCache[key]; ok {
		return r
	}
	var out []*ssa.Function
	seen := map[*ssa.Function]bool{}
	for _, p := range e.Pkgs {
		if !strings.HasPrefix(p.PkgPath, ModPath) || isAuxPkg(p.PkgPath) {
			continue
		}
		sc := p.Types.Scope()
		for _, n := range sc.Names() {
			tn, ok := sc.Lookup(n).(*types.TypeName)
			if !ok || tn.IsAlias() {
				continue
			}
			T := tn.Type()
			if _, isI := T.Underlying().(*types.Interface); isI {
				continue
			}
			if nt, ok := T.(*types.Named); ok && nt.TypeParams().Len() > 0 {
				continue
			}
			for _, TT := range []types.Type{T, types.NewPointer(T)} {
				if !types.Implements(TT, iface) {
					continue
				}
				sel := e.Prog.MethodSets.MethodSet(TT).Lookup(nil, method)
				if sel == nil {
					// unexported methods need pkg
					sel = e.Prog.MethodSets.MethodSet(TT).Lookup(tn.Pkg(), method)
				}
				if sel == nil {
					continue
				}
				f := e.Prog.MethodValue(sel)
				if f == nil {
					continue
				}
				// look through promoted-method wrappers to the declared method
				if f.Synthetic != "" {
					if fo, ok := sel.Obj().(*types.Func); ok {
						if real := e.Prog.FuncValue(fo); real != nil {
							f = real
						}
					}
				}
				if f.Blocks == nil || seen[f] {
					continue
				}
				seen[f] = true
				out = append(out, f)
				break
			}
		}
	}
	sort.Slice(out, func(i, j int) bool { return out[i].String() < out[j].String() })
	e.implCache[key] = out
	return out
}

// Reach returns all functions reachable from roots (including roots) following edges; stop(fn) prunes.
func (e *Engine) Reach(roots []*ssa.Function, stop func(*ssa.Function) bool) map[*ssa.Function]bool {
	cg := e.CallGraph()
	seen := map[*ssa.Function]bool{}
	var st []*ssa.Function
	for _, r := range roots {
		if r != nil && !seen[r] {
			seen[r] = true
			st = append(st, r)
		}
	}
	for len(st) > 0 {
		f := st[len(st)-1]
		st = st[:len(st)-1]
		if stop != nil && stop(f) {
			continue
		}
		for _, ed := range cg.Out[f] {
			if !seen[ed.Callee] {
				seen[ed.Callee] = true
				st = append(st, ed.Callee)
			}
		}
	}
	return seen
}

// PathTo finds one call path from any root to a function satisfying goal (BFS); returns keys.
func (e *Engine) PathTo(roots []*ssa.Function, goal func(*ssa.Function) bool, stop func(*ssa.Function) bool) []string {
	cg := e.CallGraph()
	prev := map[*ssa.Function]*ssa.Function{}
	seen := map[*ssa.Function]bool{}
	var q []*ssa.Function
	for _, r := range roots {
		if r != nil && !seen[r] {
			seen[r] = true
			q = append(q, r)
		}
	}
	for len(q) > 0 {
		f := q[0]
		q = q[1:]
		if goal(f) {
			var path []string
			for x := f; x != nil; x = prev[x] {
				path = append([]string{e.FnKey(x)}, path...)
			}
			return path
		}
		if stop != nil && stop(f) {
			continue
		}
		for _, ed := range cg.Out[f] {
			if !seen[ed.Callee] {
				seen[ed.Callee] = true
				prev[ed.Callee] = f
				q = append(q, ed.Callee)
			}
		}
	}
	return nil
}

// Callers returns distinct caller functions of fn.
func (e *Engine) Callers(fn *ssa.Function) []*ssa.Function {
	seen := map[*ssa.Function]bool{}
	var out []*ssa.Function
	for _, ed := range e.CallGraph().In[fn] {
		if !seen[ed.Caller] {
			seen[ed.Caller] = true
			out = append(out, ed.Caller)
		}
	}
	sort.Slice(out, func(i, j int) bool { return out[i].String() < out[j].String() })
	return out
}

// CallSites returns the call instructions (with callers) that may call fn.
func (e *Engine) CallSites(fn *ssa.Function) []*Edge {
	var out []*Edge
	for _, ed := range e.CallGraph().In[fn] {
		if ed.Call != nil {
			out = append(out, ed)
		}
	}
	return out
}

// onlyFromGenesisOrUpgrade: every call chain into fn starts in genesis import/export or upgrade/migration code (fn itself
// included). A function nobody calls that is not such code is an entry point of its own.
func (e *Engine) onlyFromGenesisOrUpgrade(fn *ssa.Function) bool {
	seen := map[*ssa.Function]bool{}
	var walk func(f *ssa.Function) bool
	walk = func(f *ssa.Function) bool {
		f = rootFn(f)
		if isGenesisOrUpgrade(f) {
			return true
		}
		if seen[f] {
			return true
		}
		seen[f] = true
		n := 0
		for _, c := range e.Callers(f) {
			if isAuxPkg(fnPkgPath(c)) {
				continue
			}
			n++
			if !walk(c) {
				return false
			}
		}
		return n > 0
	}
	return walk(fn)
}
