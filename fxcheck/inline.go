package main

// Helper-inlined normal form ("view 2").
//
// Most rules reason inside one function (dominance, must-pass-through, provenance of locals). An ordinary refactor that
// moves part of an anchored function into a new helper of the same package leaves the program's behaviour unchanged but
// can move a guard and the effect it guards into different functions. Instead of teaching every rule about every possible
// split, the checker normalises: when a check reports something, the helpers that are NEW with respect to the reference
// tree (baseline_funcs.txt, the function names of the tree the rules were confirmed on) are folded back into their callers
// at the source level, the program is type-checked again and the check is repeated on that equivalent program. A report
// is kept only if it is present in both forms. The transformation is semantics-preserving by construction (arguments are
// bound in order to fresh block-scoped variables, returns become assignments to result variables plus a break out of a
// labelled one-clause switch); call sites it cannot handle are left as calls.

import (
	"bytes"
	"fmt"
	"go/ast"
	"go/format"
	"go/parser"
	"go/token"
	"go/types"
	"os"
	"path/filepath"
	"sort"
	"strings"

	"golang.org/x/tools/go/ast/astutil"
	"golang.org/x/tools/go/packages"
)

func funcObjKey(f *types.Func) string {
	sig := f.Type().(*types.Signature)
	recv := ""
	if r := sig.Recv(); r != nil {
		t := r.Type()
		if p, ok := t.(*types.Pointer); ok {
			t = p.Elem()
		}
		if n, ok := t.(*types.Named); ok {
			recv = n.Obj().Name()
		}
	}
	pkg := ""
	if f.Pkg() != nil {
		pkg = f.Pkg().Path()
	}
	return pkg + " " + recv + " " + f.Name()
}

// baselineFuncs: nil when there is no baseline file (then nothing is "new" and nothing is inlined).
func baselineFuncs() map[string]bool {
	b, err := os.ReadFile(filepath.Join(verifDirGlobal, "baseline_funcs.txt"))
	if err != nil {
		b, err = os.ReadFile("/verif/baseline_funcs.txt")
		if err != nil {
			return nil
		}
	}
	out := map[string]bool{}
	for _, l := range strings.Split(string(b), "\n") {
		l = strings.TrimSpace(l)
		if l != "" && !strings.HasPrefix(l, "#") {
			out[l] = true
		}
	}
	return out
}

func dumpBaselineFuncs(e *Engine) {
	var keys []string
	for _, p := range e.Pkgs {
		if !strings.HasPrefix(p.PkgPath, ModPath) {
			continue
		}
		for _, f := range p.Syntax {
			for _, d := range f.Decls {
				if fd, ok := d.(*ast.FuncDecl); ok {
					if o, ok := p.TypesInfo.Defs[fd.Name].(*types.Func); ok {
						keys = append(keys, funcObjKey(o))
					}
				}
			}
		}
	}
	sort.Strings(keys)
	fmt.Println("# function names of the reference tree (pkg recv name); helpers not listed here are folded into their callers in the inlined normal form")
	for _, k := range keys {
		fmt.Println(k)
	}
}

type inlCallee struct {
	obj  *types.Func
	decl *ast.FuncDecl
	pkg  *packages.Package
	file *ast.File
}

// InlineOverlay returns replacement contents for the files in which at least one call of a new helper was folded in.
func InlineOverlay(e *Engine, base map[string][]byte) (map[string][]byte, int) {
	known := baselineFuncs()
	if known == nil {
		return nil, 0
	}
	out := map[string][]byte{}
	total := 0
	for _, p := range e.Pkgs {
		if !strings.HasPrefix(p.PkgPath, ModPath) || isAuxPkg(p.PkgPath) {
			continue
		}
		callees := map[*types.Func]*inlCallee{}
		for _, f := range p.Syntax {
			for _, d := range f.Decls {
				fd, ok := d.(*ast.FuncDecl)
				if !ok || fd.Body == nil {
					continue
				}
				o, ok := p.TypesInfo.Defs[fd.Name].(*types.Func)
				if !ok || known[funcObjKey(o)] {
					continue
				}
				if !inlinableDecl(p, fd, o) {
					continue
				}
				callees[o] = &inlCallee{obj: o, decl: fd, pkg: p, file: f}
			}
		}
		if len(callees) == 0 {
			continue
		}
		usesBefore := map[*types.Func]int{}
		for _, o := range p.TypesInfo.Uses {
			if fo, ok := o.(*types.Func); ok && callees[fo] != nil {
				usesBefore[fo]++
			}
		}
		foldedOf = map[*types.Func]int{}
		modified := map[*ast.File]bool{}
		for _, f := range p.Syntax {
			fname := e.Fset.Position(f.Pos()).Filename
			if strings.HasSuffix(fname, "_test.go") {
				continue
			}
			src, ok := base[fname]
			if !ok {
				var err error
				src, err = os.ReadFile(fname)
				if err != nil {
					continue
				}
			}
			if bytes.Contains(src, []byte("//go:embed")) || bytes.Contains(src, []byte("//go:build")) {
				continue
			}
			if n := inlineInFile(e, p, f, callees); n > 0 {
				modified[f] = true
				total += n
			}
		}
		// a helper all of whose uses were folded in no longer takes part in the program: drop its declaration, so that
		// role-based anchors ("the function that rewrites delegations") find the caller again and not the leftover
		for o, cal := range callees {
			if o.Exported() || foldedOf[o] == 0 || foldedOf[o] != usesBefore[o] {
				continue
			}
			var decls []ast.Decl
			for _, d := range cal.file.Decls {
				if d != ast.Decl(cal.decl) {
					decls = append(decls, d)
				}
			}
			cal.file.Decls = decls
			modified[cal.file] = true
		}
		for _, f := range p.Syntax {
			if !modified[f] {
				continue
			}
			fname := e.Fset.Position(f.Pos()).Filename
			f.Comments = nil
			var sb bytes.Buffer
			if err := format.Node(&sb, token.NewFileSet(), stripAllPos(f)); err != nil {
				continue
			}
			out[fname] = sb.Bytes()
		}
	}
	return out, total
}

func inlinableDecl(p *packages.Package, fd *ast.FuncDecl, o *types.Func) bool {
	sig := o.Type().(*types.Signature)
	if sig.Variadic() || sig.TypeParams() != nil || sig.RecvTypeParams() != nil {
		return false
	}
	if fd.Type.Results != nil {
		for _, r := range fd.Type.Results.List {
			if len(r.Names) > 0 {
				return false // named results: bare returns and deferred writes, not handled
			}
		}
	}
	ok := true
	ast.Inspect(fd.Body, func(n ast.Node) bool {
		switch x := n.(type) {
		case *ast.DeferStmt:
			// `defer it.Close()` may move to the caller's exit: the iterator is merely closed later
			if se, isSel := x.Call.Fun.(*ast.SelectorExpr); !isSel || se.Sel.Name != "Close" || len(x.Call.Args) != 0 {
				ok = false
			}
		case *ast.GoStmt, *ast.LabeledStmt:
			ok = false
		case *ast.BranchStmt:
			if x.Tok == token.GOTO || x.Label != nil {
				ok = false
			}
		case *ast.CallExpr:
			if id, isId := x.Fun.(*ast.Ident); isId {
				if id.Name == "recover" {
					ok = false
				}
				if p.TypesInfo.Uses[id] == o {
					ok = false // recursive
				}
			}
			if se, isSel := x.Fun.(*ast.SelectorExpr); isSel && p.TypesInfo.Uses[se.Sel] == o {
				ok = false
			}
		}
		return ok
	})
	return ok
}

var inlCounter int
var foldedOf map[*types.Func]int

// inlineInFile rewrites, in every function body of f, the supported statement forms that call a callee.
func inlineInFile(e *Engine, p *packages.Package, f *ast.File, callees map[*types.Func]*inlCallee) int {
	n := 0
	for _, d := range f.Decls {
		fd, ok := d.(*ast.FuncDecl)
		if !ok || fd.Body == nil {
			continue
		}
		if o, ok := p.TypesInfo.Defs[fd.Name].(*types.Func); ok && callees[o] != nil {
			continue // a helper's own body is inlined where it is called; nested helpers are folded in the next round
		}
		n += substPureCalls(e, p, f, fd.Body, callees)
		n += inlineInBlock(e, p, f, fd.Body, callees)
	}
	return n
}

func pureArg(x ast.Expr) bool {
	switch v := x.(type) {
	case *ast.Ident, *ast.BasicLit:
		return true
	case *ast.SelectorExpr:
		return pureArg(v.X)
	case *ast.ParenExpr:
		return pureArg(v.X)
	case *ast.StarExpr:
		return pureArg(v.X)
	case *ast.UnaryExpr:
		return v.Op == token.AND && pureArg(v.X)
	case *ast.CallExpr:
		if id, ok := v.Fun.(*ast.Ident); ok && (id.Name == "len" || id.Name == "cap") && len(v.Args) == 1 {
			return pureArg(v.Args[0])
		}
		// a getter without arguments on a pure receiver (claim.GetEventNonce(), msg.GetSigner())
		if se, ok := v.Fun.(*ast.SelectorExpr); ok && len(v.Args) == 0 && pureArg(se.X) {
			n := se.Sel.Name
			return strings.HasPrefix(n, "Get") || strings.HasPrefix(n, "Is") || strings.HasPrefix(n, "Has") || n == "String" || n == "Bytes"
		}
	}
	return false
}

// substPureCalls replaces, anywhere in an expression, a call of a new helper whose body is a single `return <expr>` by that
// expression with the (side-effect free) arguments substituted for the parameters — predicates and small getters.
func substPureCalls(e *Engine, p *packages.Package, f *ast.File, body *ast.BlockStmt, callees map[*types.Func]*inlCallee) int {
	n := 0
	astutil.Apply(body, nil, func(cur *astutil.Cursor) bool {
		c, ok := cur.Node().(*ast.CallExpr)
		if !ok {
			return true
		}
		cal := calleeOfCall(p, c, callees)
		if cal == nil || len(cal.decl.Body.List) != 1 {
			return true
		}
		rs, ok := cal.decl.Body.List[0].(*ast.ReturnStmt)
		if !ok || len(rs.Results) != 1 {
			return true
		}
		sig := cal.obj.Type().(*types.Signature)
		if sig.Results().Len() != 1 {
			return true
		}
		hasLit := false
		ast.Inspect(rs.Results[0], func(m ast.Node) bool {
			if _, ok := m.(*ast.FuncLit); ok {
				hasLit = true
			}
			return !hasLit
		})
		if hasLit {
			return true
		}
		for _, a := range c.Args {
			if !pureArg(a) {
				return true
			}
		}
		callScope := p.Types.Scope().Innermost(c.Pos())
		if callScope == nil {
			return true
		}
		okFree := true
		needImports := map[string]string{}
		ast.Inspect(rs.Results[0], func(m ast.Node) bool {
			id, ok := m.(*ast.Ident)
			if !ok {
				return true
			}
			obj := p.TypesInfo.Uses[id]
			if obj == nil {
				return true
			}
			switch o := obj.(type) {
			case *types.PkgName:
				_, at := callScope.LookupParent(id.Name, c.Pos())
				if at == nil {
					needImports[id.Name] = o.Imported().Path()
				} else if pn, ok := at.(*types.PkgName); !ok || pn.Imported().Path() != o.Imported().Path() {
					okFree = false
				}
			default:
				if obj.Parent() == p.Types.Scope() || obj.Parent() == types.Universe {
					if _, at := callScope.LookupParent(id.Name, c.Pos()); at != obj {
						okFree = false
					}
				}
			}
			return okFree
		})
		if !okFree {
			return true
		}
		cp := reparseDecl(e, cal)
		if cp == nil || len(cp.Body.List) != 1 {
			return true
		}
		expr := cp.Body.List[0].(*ast.ReturnStmt).Results[0]
		subst := map[string]ast.Expr{}
		if sig.Recv() != nil {
			se, ok := c.Fun.(*ast.SelectorExpr)
			if !ok {
				return true
			}
			if sel := p.TypesInfo.Selections[se]; sel != nil && len(sel.Index()) > 1 {
				return true
			}
			if !pureArg(se.X) {
				return true
			}
			if cp.Recv != nil && len(cp.Recv.List) == 1 && len(cp.Recv.List[0].Names) == 1 {
				subst[cp.Recv.List[0].Names[0].Name] = se.X
			}
		}
		ai := 0
		for _, fl := range cp.Type.Params.List {
			if len(fl.Names) == 0 {
				ai++
				continue
			}
			for _, nm := range fl.Names {
				if ai >= len(c.Args) {
					return true
				}
				if nm.Name != "_" {
					subst[nm.Name] = c.Args[ai]
				}
				ai++
			}
		}
		if ai != len(c.Args) {
			return true
		}
		// a parameter used as the operand of & or assigned cannot be substituted by a value expression: none in a pure
		// return expression except &param, which we refuse
		bad := false
		ast.Inspect(expr, func(m ast.Node) bool {
			if u, ok := m.(*ast.UnaryExpr); ok && u.Op == token.AND {
				if id, ok := u.X.(*ast.Ident); ok && subst[id.Name] != nil {
					bad = true
				}
			}
			return !bad
		})
		uses := map[string]int{}
		ast.Inspect(expr, func(m ast.Node) bool {
			if id, ok := m.(*ast.Ident); ok {
				uses[id.Name]++
			}
			return true
		})
		for nm, a := range subst {
			if _, isCall := a.(*ast.CallExpr); isCall && uses[nm] > 1 {
				bad = true
			}
		}
		if bad {
			return true
		}
		newExpr := astutil.Apply(expr, nil, func(cc *astutil.Cursor) bool {
			if id, ok := cc.Node().(*ast.Ident); ok {
				// only identifiers in value position: a selector's Sel and a key of a composite literal are not uses
				if se, ok := cc.Parent().(*ast.SelectorExpr); ok && se.Sel == id {
					return true
				}
				if kv, ok := cc.Parent().(*ast.KeyValueExpr); ok && kv.Key == ast.Expr(id) {
					return true
				}
				if r, ok := subst[id.Name]; ok {
					cc.Replace(&ast.ParenExpr{X: r})
				}
			}
			return true
		})
		for name, path := range needImports {
			astutil.AddNamedImport(e.Fset, f, name, path)
		}
		cur.Replace(&ast.ParenExpr{X: newExpr.(ast.Expr)})
		if foldedOf != nil {
			foldedOf[cal.obj]++
		}
		n++
		return true
	})
	return n
}

func calleeOfCall(p *packages.Package, c *ast.CallExpr, callees map[*types.Func]*inlCallee) *inlCallee {
	switch fun := c.Fun.(type) {
	case *ast.Ident:
		if o, ok := p.TypesInfo.Uses[fun].(*types.Func); ok {
			return callees[o]
		}
	case *ast.SelectorExpr:
		if o, ok := p.TypesInfo.Uses[fun.Sel].(*types.Func); ok {
			if cal := callees[o]; cal != nil {
				if sel := p.TypesInfo.Selections[fun]; sel != nil {
					if sel.Kind() != types.MethodVal {
						return nil // a method expression
					}
				}
				return cal
			}
		}
	}
	return nil
}

func inlineInBlock(e *Engine, p *packages.Package, f *ast.File, b *ast.BlockStmt, callees map[*types.Func]*inlCallee) int {
	n := 0
	var out []ast.Stmt
	for i := 0; i < len(b.List); i++ {
		s := b.List[i]
		// nested blocks first
		n += inlineInChildren(e, p, f, s, callees)
		// `v, err := h(..)` followed by `if err != nil { RET }`: the callee's failing returns go straight to RET
		if i+1 < len(b.List) {
			n += inlineInChildren(e, p, f, b.List[i+1], callees)
			if repl := inlineWithErrCheck(e, p, f, s, b.List[i+1], callees); repl != nil {
				out = append(out, repl...)
				n++
				i++
				continue
			}
		}
		// `if err := h(..); err != nil { RET }`: the same idiom in one statement
		if is, ok := s.(*ast.IfStmt); ok && is.Init != nil {
			init := is.Init
			is.Init = nil
			if repl := inlineWithErrCheck(e, p, f, init, is, callees); repl != nil {
				out = append(out, &ast.BlockStmt{List: repl})
				n++
				continue
			}
			is.Init = init
		}
		repl := inlineStmt(e, p, f, s, callees)
		if repl != nil {
			out = append(out, repl...)
			n++
		} else {
			out = append(out, s)
		}
	}
	b.List = out
	return n
}

// errCheckOf: `if X != nil { ...terminating... }` without init and else; returns X's name and the body.
func errCheckOf(s ast.Stmt) (string, *ast.BlockStmt) {
	is, ok := s.(*ast.IfStmt)
	if !ok || is.Init != nil || is.Else != nil || len(is.Body.List) == 0 {
		return "", nil
	}
	be, ok := is.Cond.(*ast.BinaryExpr)
	if !ok || be.Op != token.NEQ {
		return "", nil
	}
	x, ok1 := be.X.(*ast.Ident)
	y, ok2 := be.Y.(*ast.Ident)
	if !ok1 || !ok2 || y.Name != "nil" {
		return "", nil
	}
	switch t := is.Body.List[len(is.Body.List)-1].(type) {
	case *ast.ReturnStmt:
	case *ast.BranchStmt:
		if t.Label != nil {
			return "", nil
		}
	case *ast.ExprStmt:
		c, ok := t.X.(*ast.CallExpr)
		if !ok {
			return "", nil
		}
		if id, ok := c.Fun.(*ast.Ident); !ok || id.Name != "panic" {
			return "", nil
		}
	default:
		return "", nil
	}
	return x.Name, is.Body
}

// inlineWithErrCheck handles `lhs.., err (:= | =) h(..)` + `if err != nil { RET }` and `if err (:= | =) h(..); err != nil { RET }`.
func inlineWithErrCheck(e *Engine, p *packages.Package, f *ast.File, s, next ast.Stmt, callees map[*types.Func]*inlCallee) []ast.Stmt {
	as, ok := s.(*ast.AssignStmt)
	if !ok || len(as.Rhs) != 1 || len(as.Lhs) == 0 {
		return nil
	}
	c, ok := as.Rhs[0].(*ast.CallExpr)
	if !ok {
		return nil
	}
	cal := calleeOfCall(p, c, callees)
	if cal == nil {
		return nil
	}
	errName, ret := errCheckOf(next)
	last, ok := as.Lhs[len(as.Lhs)-1].(*ast.Ident)
	if ret == nil || !ok || last.Name != errName || errName == "_" {
		return nil
	}
	sig := cal.obj.Type().(*types.Signature)
	if sig.Results().Len() != len(as.Lhs) || !isErrorType(sig.Results().At(sig.Results().Len()-1).Type()) {
		return nil
	}
	pre, res := expandCallOpt(e, p, f, c, cal, &errCont{errName: errName, ret: ret})
	if pre == nil {
		return nil
	}
	as.Rhs = res
	return append(append(pre, as), next)
}

type errCont struct {
	errName string
	ret     *ast.BlockStmt
	tail    bool // `return h(..)`: the callee's returns are the caller's returns
}

func inlineInChildren(e *Engine, p *packages.Package, f *ast.File, s ast.Stmt, callees map[*types.Func]*inlCallee) int {
	n := 0
	doList := func(l []ast.Stmt) []ast.Stmt {
		tmp := &ast.BlockStmt{List: l}
		n += inlineInBlock(e, p, f, tmp, callees)
		return tmp.List
	}
	var lits func(x ast.Node)
	lits = func(x ast.Node) {
		if x == nil {
			return
		}
		ast.Inspect(x, func(m ast.Node) bool {
			if fl, ok := m.(*ast.FuncLit); ok {
				n += inlineInBlock(e, p, f, fl.Body, callees)
				return false
			}
			return true
		})
	}
	switch x := s.(type) {
	case *ast.BlockStmt:
		n += inlineInBlock(e, p, f, x, callees)
	case *ast.IfStmt:
		n += inlineInBlock(e, p, f, x.Body, callees)
		if x.Else != nil {
			if eb, ok := x.Else.(*ast.BlockStmt); ok {
				n += inlineInBlock(e, p, f, eb, callees)
			} else {
				wrap := &ast.BlockStmt{List: []ast.Stmt{x.Else}}
				n += inlineInBlock(e, p, f, wrap, callees)
				if len(wrap.List) == 1 {
					x.Else = wrap.List[0]
				} else {
					x.Else = wrap
				}
			}
		}
		lits(x.Cond)
	case *ast.ForStmt:
		n += inlineInBlock(e, p, f, x.Body, callees)
	case *ast.RangeStmt:
		n += inlineInBlock(e, p, f, x.Body, callees)
		lits(x.X)
	case *ast.SwitchStmt:
		for _, c := range x.Body.List {
			cc := c.(*ast.CaseClause)
			cc.Body = doList(cc.Body)
		}
	case *ast.TypeSwitchStmt:
		for _, c := range x.Body.List {
			cc := c.(*ast.CaseClause)
			cc.Body = doList(cc.Body)
		}
	case *ast.SelectStmt:
		for _, c := range x.Body.List {
			cc := c.(*ast.CommClause)
			cc.Body = doList(cc.Body)
		}
	case *ast.ExprStmt:
		lits(x.X)
	case *ast.AssignStmt:
		for _, r := range x.Rhs {
			lits(r)
		}
	case *ast.ReturnStmt:
		for _, r := range x.Results {
			lits(r)
		}
	case *ast.DeferStmt:
		lits(x.Call)
	case *ast.GoStmt:
		lits(x.Call)
	}
	return n
}

// inlineStmt returns the replacement of statement s when s is one of the supported forms around a call of a callee.
func inlineStmt(e *Engine, p *packages.Package, f *ast.File, s ast.Stmt, callees map[*types.Func]*inlCallee) []ast.Stmt {
	switch x := s.(type) {
	case *ast.ExprStmt:
		if c, ok := x.X.(*ast.CallExpr); ok {
			if cal := calleeOfCall(p, c, callees); cal != nil {
				pre, _ := expandCall(e, p, f, c, cal)
				return pre
			}
		}
	case *ast.AssignStmt:
		if len(x.Rhs) == 1 {
			if c, ok := x.Rhs[0].(*ast.CallExpr); ok {
				if cal := calleeOfCall(p, c, callees); cal != nil {
					pre, res := expandCall(e, p, f, c, cal)
					if pre == nil || len(res) != len(x.Lhs) {
						return nil
					}
					x.Rhs = res
					return append(pre, x)
				}
			}
		}
	case *ast.ReturnStmt:
		if len(x.Results) == 1 {
			if c, ok := x.Results[0].(*ast.CallExpr); ok {
				if cal := calleeOfCall(p, c, callees); cal != nil {
					if cal.obj.Type().(*types.Signature).Results().Len() >= 1 {
						// tail call: the callee's returns become the caller's
						if pre, _ := expandCallOpt(e, p, f, c, cal, &errCont{tail: true}); pre != nil {
							return pre
						}
					}
					pre, res := expandCall(e, p, f, c, cal)
					if pre == nil || len(res) == 0 {
						return nil
					}
					x.Results = res
					return append(pre, x)
				}
			}
		}
	case *ast.IfStmt:
		// if v, err := h(..); cond {..}   ->   { <inlined>; v, err := r0, r1; if cond {..} }
		if as, ok := x.Init.(*ast.AssignStmt); ok && len(as.Rhs) == 1 {
			if c, ok := as.Rhs[0].(*ast.CallExpr); ok {
				if cal := calleeOfCall(p, c, callees); cal != nil {
					pre, res := expandCall(e, p, f, c, cal)
					if pre == nil || len(res) != len(as.Lhs) {
						return nil
					}
					as.Rhs = res
					x.Init = nil
					blk := &ast.BlockStmt{List: append(append(pre, as), x)}
					return []ast.Stmt{blk}
				}
			}
		}
		// if h(..) {..}  /  if !h(..) {..}
		if x.Init == nil {
			cond := x.Cond
			neg := false
			if u, ok := cond.(*ast.UnaryExpr); ok && u.Op == token.NOT {
				cond = u.X
				neg = true
			}
			if c, ok := cond.(*ast.CallExpr); ok {
				if cal := calleeOfCall(p, c, callees); cal != nil {
					pre, res := expandCall(e, p, f, c, cal)
					if pre == nil || len(res) != 1 {
						return nil
					}
					if neg {
						x.Cond = &ast.UnaryExpr{Op: token.NOT, X: res[0]}
					} else {
						x.Cond = res[0]
					}
					return []ast.Stmt{&ast.BlockStmt{List: append(pre, x)}}
				}
			}
		}
	}
	return nil
}

// expandCall builds the statements that run the callee's body in place, and the expressions holding its results.
func expandCall(e *Engine, p *packages.Package, f *ast.File, c *ast.CallExpr, cal *inlCallee) ([]ast.Stmt, []ast.Expr) {
	return expandCallOpt(e, p, f, c, cal, nil)
}

func expandCallOpt(e *Engine, p *packages.Package, f *ast.File, c *ast.CallExpr, cal *inlCallee, ec *errCont) ([]ast.Stmt, []ast.Expr) {
	sig := cal.obj.Type().(*types.Signature)
	// free identifiers of the callee must mean the same thing at the call site
	callScope := p.Types.Scope().Innermost(c.Pos())
	if callScope == nil {
		return nil, nil
	}
	okFree := true
	needImports := map[string]string{} // name -> path
	ast.Inspect(cal.decl.Body, func(n ast.Node) bool {
		id, ok := n.(*ast.Ident)
		if !ok {
			return true
		}
		obj := p.TypesInfo.Uses[id]
		if obj == nil {
			return true
		}
		switch o := obj.(type) {
		case *types.PkgName:
			_, at := callScope.LookupParent(id.Name, c.Pos())
			if at == nil {
				needImports[id.Name] = o.Imported().Path()
			} else if pn, ok := at.(*types.PkgName); !ok || pn.Imported().Path() != o.Imported().Path() {
				okFree = false
			}
		default:
			if obj.Parent() == p.Types.Scope() || obj.Parent() == types.Universe {
				_, at := callScope.LookupParent(id.Name, c.Pos())
				if at != obj {
					okFree = false
				}
			}
		}
		return okFree
	})
	if !okFree {
		return nil, nil
	}
	// a fresh copy of the callee's declaration, parsed from its own source text
	copyDecl := reparseDecl(e, cal)
	if copyDecl == nil {
		return nil, nil
	}
	inlCounter++
	id := inlCounter
	label := fmt.Sprintf("zzinl%d", id)
	var pre []ast.Stmt
	var resExprs []ast.Expr
	var resNames []string
	qual := func(pk *types.Package) string {
		if pk == p.Types {
			return ""
		}
		// the name under which the caller's file imports the package; else add an import
		for _, im := range f.Imports {
			path := strings.Trim(im.Path.Value, "\"")
			if path == pk.Path() {
				nm := pk.Name()
				if im.Name != nil {
					if im.Name.Name == "_" || im.Name.Name == "." {
						break
					}
					nm = im.Name.Name
				}
				if _, at := callScope.LookupParent(nm, c.Pos()); at != nil {
					if pn, ok := at.(*types.PkgName); ok && pn.Imported().Path() == pk.Path() {
						return nm
					}
				}
				// the import's name is shadowed where the call stands (a parameter called like the package)
			}
		}
		alias := fmt.Sprintf("zzimp%d%s", id, pk.Name())
		needImports[alias] = pk.Path()
		return alias
	}
	tail := ec != nil && ec.tail
	if tail {
		ec = nil
	}
	for i := 0; i < sig.Results().Len() && !tail; i++ {
		name := fmt.Sprintf("zzinl%dr%d", id, i)
		resNames = append(resNames, name)
		ts := types.TypeString(sig.Results().At(i).Type(), qual)
		texpr, err := parser.ParseExpr(ts)
		if err != nil {
			return nil, nil
		}
		pre = append(pre, &ast.DeclStmt{Decl: &ast.GenDecl{Tok: token.VAR, Specs: []ast.Spec{&ast.ValueSpec{Names: []*ast.Ident{ast.NewIdent(name)}, Type: texpr}}}})
		resExprs = append(resExprs, ast.NewIdent(name))
	}
	// bind receiver and parameters, in evaluation order
	var lhs []ast.Expr
	var rhs []ast.Expr
	var keep []ast.Stmt
	bind := func(name string, val ast.Expr) {
		if name == "" || name == "_" {
			lhs = append(lhs, ast.NewIdent("_"))
		} else {
			lhs = append(lhs, ast.NewIdent(name))
			keep = append(keep, &ast.AssignStmt{Lhs: []ast.Expr{ast.NewIdent("_")}, Tok: token.ASSIGN, Rhs: []ast.Expr{ast.NewIdent(name)}})
		}
		rhs = append(rhs, val)
	}
	if sig.Recv() != nil {
		se, ok := c.Fun.(*ast.SelectorExpr)
		if !ok {
			return nil, nil
		}
		rname := ""
		if copyDecl.Recv != nil && len(copyDecl.Recv.List) == 1 && len(copyDecl.Recv.List[0].Names) == 1 {
			rname = copyDecl.Recv.List[0].Names[0].Name
		}
		xt := p.TypesInfo.TypeOf(se.X)
		var recvX ast.Expr = se.X
		if sel := p.TypesInfo.Selections[se]; sel != nil && len(sel.Index()) > 1 {
			// promoted through embedded fields: spell the path out
			t := xt
			for _, ix := range sel.Index()[:len(sel.Index())-1] {
				if pt, ok := t.Underlying().(*types.Pointer); ok {
					t = pt.Elem()
				}
				st, ok := t.Underlying().(*types.Struct)
				if !ok || ix >= st.NumFields() {
					return nil, nil
				}
				fld := st.Field(ix)
				recvX = &ast.SelectorExpr{X: recvX, Sel: ast.NewIdent(fld.Name())}
				t = fld.Type()
			}
			xt = t
		}
		_, recvPtr := sig.Recv().Type().(*types.Pointer)
		_, argPtr := xt.Underlying().(*types.Pointer)
		var val ast.Expr = recvX
		switch {
		case recvPtr && !argPtr:
			val = &ast.UnaryExpr{Op: token.AND, X: recvX}
		case !recvPtr && argPtr:
			val = &ast.StarExpr{X: recvX}
		}
		bind(rname, val)
	}
	ai := 0
	for _, fl := range copyDecl.Type.Params.List {
		if len(fl.Names) == 0 {
			if ai >= len(c.Args) {
				return nil, nil
			}
			bind("_", c.Args[ai])
			ai++
			continue
		}
		for _, nm := range fl.Names {
			if ai >= len(c.Args) {
				return nil, nil
			}
			bind(nm.Name, c.Args[ai])
			ai++
		}
	}
	if ai != len(c.Args) {
		return nil, nil // f(g()) with a multi-value argument
	}
	var body []ast.Stmt
	if len(lhs) > 0 {
		allBlank := true
		for _, l := range lhs {
			if l.(*ast.Ident).Name != "_" {
				allBlank = false
			}
		}
		tok := token.DEFINE
		if allBlank {
			tok = token.ASSIGN
		}
		// typed binding: parameters have declared types (an untyped constant argument must take the parameter's type)
		if typedOK := bindTyped(&body, copyDecl, sig, lhs, rhs, qual, p); !typedOK {
			body = append(body, &ast.AssignStmt{Lhs: lhs, Tok: tok, Rhs: rhs})
		}
		body = append(body, keep...)
	}
	if ec != nil {
		// free identifiers of RET must not be captured by the callee's own declarations
		declared := map[string]bool{}
		ast.Inspect(copyDecl, func(n ast.Node) bool {
			switch x := n.(type) {
			case *ast.AssignStmt:
				if x.Tok == token.DEFINE {
					for _, l := range x.Lhs {
						if id, ok := l.(*ast.Ident); ok {
							declared[id.Name] = true
						}
					}
				}
			case *ast.ValueSpec:
				for _, nm := range x.Names {
					declared[nm.Name] = true
				}
			case *ast.RangeStmt:
				if x.Tok == token.DEFINE {
					if id, ok := x.Key.(*ast.Ident); ok {
						declared[id.Name] = true
					}
					if id, ok := x.Value.(*ast.Ident); ok {
						declared[id.Name] = true
					}
				}
			case *ast.Field:
				for _, nm := range x.Names {
					declared[nm.Name] = true
				}
			case *ast.TypeSwitchStmt:
				if a, ok := x.Assign.(*ast.AssignStmt); ok {
					if id, ok := a.Lhs[0].(*ast.Ident); ok {
						declared[id.Name] = true
					}
				}
			}
			return true
		})
		clash := false
		ast.Inspect(ec.ret, func(n ast.Node) bool {
			if id, ok := n.(*ast.Ident); ok && id.Name != ec.errName && declared[id.Name] {
				clash = true
			}
			return !clash
		})
		if clash {
			ec = nil
		}
	}
	if ec != nil {
		errVar := fmt.Sprintf("zzinl%derr", id)
		pre = append(pre, &ast.DeclStmt{Decl: &ast.GenDecl{Tok: token.VAR, Specs: []ast.Spec{&ast.ValueSpec{Names: []*ast.Ident{ast.NewIdent(errVar)}, Type: ast.NewIdent("error")}}}})
		pre = append(pre, &ast.AssignStmt{Lhs: []ast.Expr{ast.NewIdent("_")}, Tok: token.ASSIGN, Rhs: []ast.Expr{ast.NewIdent(errVar)}})
		if !rewriteReturnsErr(copyDecl.Body, resNames, label, ec, errVar) {
			return nil, nil
		}
		// the error result lives in errVar
		resExprs[len(resExprs)-1] = ast.NewIdent(errVar)
		pre = append(pre, &ast.AssignStmt{Lhs: []ast.Expr{ast.NewIdent("_")}, Tok: token.ASSIGN, Rhs: []ast.Expr{ast.NewIdent(resNames[len(resNames)-1])}})
	} else if !tail {
		rewriteReturns(copyDecl.Body, resNames, label)
	}
	if tail {
		body = append(body, copyDecl.Body.List...)
		pre = append(pre, &ast.BlockStmt{List: body})
		for name, path := range needImports {
			astutil.AddNamedImport(e.Fset, f, name, path)
		}
		if foldedOf != nil {
			foldedOf[cal.obj]++
		}
		return pre, nil
	}
	body = append(body, copyDecl.Body.List...)
	body = append(body, &ast.BranchStmt{Tok: token.BREAK, Label: ast.NewIdent(label)}) // a label must be used
	sw := &ast.SwitchStmt{Body: &ast.BlockStmt{List: []ast.Stmt{&ast.CaseClause{Body: body}}}}
	pre = append(pre, &ast.LabeledStmt{Label: ast.NewIdent(label), Stmt: sw})
	for name, path := range needImports {
		astutil.AddNamedImport(e.Fset, f, name, path)
	}
	if foldedOf != nil {
		foldedOf[cal.obj]++
	}
	return pre, resExprs
}

// bindTyped emits `var p T = arg` per parameter when every parameter type can be spelled in the caller's file.
func bindTyped(body *[]ast.Stmt, decl *ast.FuncDecl, sig *types.Signature, lhs, rhs []ast.Expr, qual types.Qualifier, p *packages.Package) bool {
	// evaluation order must stay left to right and all arguments must be evaluated before any parameter name is in scope
	// (an argument may mention a variable with a parameter's name): evaluate into temporaries first
	var tys []types.Type
	if sig.Recv() != nil {
		tys = append(tys, sig.Recv().Type())
	}
	for i := 0; i < sig.Params().Len(); i++ {
		tys = append(tys, sig.Params().At(i).Type())
	}
	if len(tys) != len(lhs) {
		return false
	}
	inlCounter++
	var tmpNames []ast.Expr
	var stmts []ast.Stmt
	for i := range lhs {
		texpr, err := parser.ParseExpr(types.TypeString(tys[i], qual))
		if err != nil {
			return false
		}
		tn := fmt.Sprintf("zzarg%d_%d", inlCounter, i)
		tmpNames = append(tmpNames, ast.NewIdent(tn))
		stmts = append(stmts, &ast.DeclStmt{Decl: &ast.GenDecl{Tok: token.VAR, Specs: []ast.Spec{&ast.ValueSpec{Names: []*ast.Ident{ast.NewIdent(tn)}, Type: texpr, Values: []ast.Expr{rhs[i]}}}}})
	}
	*body = append(*body, stmts...)
	for i := range lhs {
		nm := lhs[i].(*ast.Ident).Name
		if nm == "_" {
			*body = append(*body, &ast.AssignStmt{Lhs: []ast.Expr{ast.NewIdent("_")}, Tok: token.ASSIGN, Rhs: []ast.Expr{tmpNames[i]}})
		} else {
			*body = append(*body, &ast.AssignStmt{Lhs: []ast.Expr{ast.NewIdent(nm)}, Tok: token.DEFINE, Rhs: []ast.Expr{tmpNames[i]}})
		}
	}
	return true
}

func rewriteReturns(b *ast.BlockStmt, res []string, label string) {
	var doList func(l []ast.Stmt) []ast.Stmt
	var doStmt func(s ast.Stmt) []ast.Stmt
	brk := func() ast.Stmt { return &ast.BranchStmt{Tok: token.BREAK, Label: ast.NewIdent(label)} }
	doStmt = func(s ast.Stmt) []ast.Stmt {
		switch x := s.(type) {
		case *ast.ReturnStmt:
			if len(res) == 0 || len(x.Results) == 0 {
				return []ast.Stmt{brk()}
			}
			var lhs []ast.Expr
			for _, r := range res {
				lhs = append(lhs, ast.NewIdent(r))
			}
			return []ast.Stmt{&ast.AssignStmt{Lhs: lhs, Tok: token.ASSIGN, Rhs: x.Results}, brk()}
		case *ast.BlockStmt:
			x.List = doList(x.List)
		case *ast.IfStmt:
			x.Body.List = doList(x.Body.List)
			if x.Else != nil {
				r := doStmt(x.Else)
				if len(r) == 1 {
					x.Else = r[0]
				} else {
					x.Else = &ast.BlockStmt{List: r}
				}
			}
		case *ast.ForStmt:
			x.Body.List = doList(x.Body.List)
		case *ast.RangeStmt:
			x.Body.List = doList(x.Body.List)
		case *ast.SwitchStmt:
			for _, c := range x.Body.List {
				cc := c.(*ast.CaseClause)
				cc.Body = doList(cc.Body)
			}
		case *ast.TypeSwitchStmt:
			for _, c := range x.Body.List {
				cc := c.(*ast.CaseClause)
				cc.Body = doList(cc.Body)
			}
		case *ast.SelectStmt:
			for _, c := range x.Body.List {
				cc := c.(*ast.CommClause)
				cc.Body = doList(cc.Body)
			}
		}
		return []ast.Stmt{s}
	}
	doList = func(l []ast.Stmt) []ast.Stmt {
		var out []ast.Stmt
		for _, s := range l {
			out = append(out, doStmt(s)...)
		}
		return out
	}
	b.List = doList(b.List)
}

func reparseDecl(e *Engine, cal *inlCallee) *ast.FuncDecl {
	fname := e.Fset.Position(cal.file.Pos()).Filename
	src, ok := currentOverlay[fname]
	if !ok {
		var err error
		src, err = os.ReadFile(fname)
		if err != nil {
			return nil
		}
	}
	f, err := parser.ParseFile(token.NewFileSet(), fname, src, 0)
	if err != nil {
		return nil
	}
	want := cal.decl
	for _, d := range f.Decls {
		fd, ok := d.(*ast.FuncDecl)
		if !ok || fd.Name.Name != want.Name.Name || (fd.Recv == nil) != (want.Recv == nil) {
			continue
		}
		if fd.Recv != nil && astRecvTypeName(fd) != astRecvTypeName(want) {
			continue
		}
		return fd
	}
	return nil
}

func astRecvTypeName(fd *ast.FuncDecl) string {
	if fd.Recv == nil || len(fd.Recv.List) == 0 {
		return ""
	}
	t := fd.Recv.List[0].Type
	if s, ok := t.(*ast.StarExpr); ok {
		t = s.X
	}
	if id, ok := t.(*ast.Ident); ok {
		return id.Name
	}
	return ""
}

var currentOverlay map[string][]byte

// stripAllPos removes positions so that the printer lays the moved statements out afresh.
func stripAllPos(f *ast.File) *ast.File {
	ast.Inspect(f, func(n ast.Node) bool {
		switch x := n.(type) {
		case *ast.BlockStmt:
			x.Lbrace, x.Rbrace = 0, 0
		case *ast.IfStmt:
			x.If = 0
		case *ast.ReturnStmt:
			x.Return = 0
		case *ast.CompositeLit:
			x.Lbrace, x.Rbrace = 0, 0
		case *ast.CallExpr:
			x.Lparen, x.Rparen = 0, 0
		case *ast.Ident:
			x.NamePos = 0
		case *ast.BasicLit:
			x.ValuePos = 0
		case *ast.BinaryExpr:
			x.OpPos = 0
		case *ast.UnaryExpr:
			x.OpPos = 0
		case *ast.AssignStmt:
			x.TokPos = 0
		case *ast.KeyValueExpr:
			x.Colon = 0
		case *ast.ParenExpr:
			x.Lparen, x.Rparen = 0, 0
		case *ast.StarExpr:
			x.Star = 0
		case *ast.SwitchStmt:
			x.Switch = 0
		case *ast.CaseClause:
			x.Case, x.Colon = 0, 0
		case *ast.ForStmt:
			x.For = 0
		case *ast.RangeStmt:
			x.For, x.TokPos = 0, 0
		case *ast.BranchStmt:
			x.TokPos = 0
		case *ast.IncDecStmt:
			x.TokPos = 0
		case *ast.DeferStmt:
			x.Defer = 0
		case *ast.GoStmt:
			x.Go = 0
		case *ast.IndexExpr:
			x.Lbrack, x.Rbrack = 0, 0
		case *ast.SliceExpr:
			x.Lbrack, x.Rbrack = 0, 0
		case *ast.TypeAssertExpr:
			x.Lparen, x.Rparen = 0, 0
		case *ast.FuncType:
			x.Func = 0
		case *ast.FieldList:
			x.Opening, x.Closing = 0, 0
		case *ast.GenDecl:
			if x.Tok != token.IMPORT {
				x.TokPos, x.Lparen, x.Rparen = 0, 0, 0
			}
		case *ast.TypeSwitchStmt:
			x.Switch = 0
		case *ast.SelectStmt:
			x.Select = 0
		case *ast.Ellipsis:
			x.Ellipsis = 0
		case *ast.ArrayType:
			x.Lbrack = 0
		case *ast.MapType:
			x.Map = 0
		case *ast.StructType:
			x.Struct = 0
		case *ast.InterfaceType:
			x.Interface = 0
		case *ast.ChanType:
			x.Begin, x.Arrow = 0, 0
		case *ast.LabeledStmt:
			x.Colon = 0
		case *ast.SendStmt:
			x.Arrow = 0
		case *ast.EmptyStmt:
			x.Semicolon = 0
		}
		return true
	})
	return f
}

// copyRet: a fresh copy of the caller's failure block with its error variable renamed.
func copyRet(ec *errCont, errVar string) []ast.Stmt {
	var sb bytes.Buffer
	sb.WriteString("package p\nfunc _() ")
	if err := format.Node(&sb, token.NewFileSet(), ec.ret); err != nil {
		return nil
	}
	f, err := parser.ParseFile(token.NewFileSet(), "ret.go", sb.String(), 0)
	if err != nil {
		return nil
	}
	body := f.Decls[0].(*ast.FuncDecl).Body
	ast.Inspect(body, func(n ast.Node) bool {
		if id, ok := n.(*ast.Ident); ok && id.Name == ec.errName {
			id.Name = errVar
		}
		return true
	})
	return body.List
}

// provablyNonNilErrExpr: the returned expression cannot be nil (syntactic, conservative).
func provablyNonNilErrExpr(x ast.Expr, stack []ast.Node) bool {
	switch v := x.(type) {
	case *ast.Ident:
		// `if v != nil { ... return v }` with no assignment to v in between is the idiom; require the innermost if
		for i := len(stack) - 1; i >= 0; i-- {
			is, ok := stack[i].(*ast.IfStmt)
			if !ok {
				continue
			}
			if be, ok := is.Cond.(*ast.BinaryExpr); ok && be.Op == token.NEQ {
				if a, ok := be.X.(*ast.Ident); ok && a.Name == v.Name {
					if b, ok := be.Y.(*ast.Ident); ok && b.Name == "nil" {
						// the return must sit in the body, not in the else part, and v must not be assigned in the body
						inBody := false
						for j := i + 1; j < len(stack); j++ {
							if stack[j] == ast.Node(is.Body) {
								inBody = true
							}
						}
						assigned := false
						ast.Inspect(is.Body, func(n ast.Node) bool {
							if as, ok := n.(*ast.AssignStmt); ok {
								for _, l := range as.Lhs {
									if id, ok := l.(*ast.Ident); ok && id.Name == v.Name {
										assigned = true
									}
								}
							}
							return !assigned
						})
						return inBody && !assigned
					}
				}
			}
			return false
		}
	case *ast.CallExpr:
		if se, ok := v.Fun.(*ast.SelectorExpr); ok {
			if pk, ok := se.X.(*ast.Ident); ok {
				switch pk.Name + "." + se.Sel.Name {
				case "errors.New", "fmt.Errorf":
					return true
				}
			}
			// ErrSomething.Wrap(..) / pkg.ErrSomething.Wrapf(..): methods of a registered error never return nil
			if se.Sel.Name == "Wrap" || se.Sel.Name == "Wrapf" {
				switch r := se.X.(type) {
				case *ast.Ident:
					if strings.HasPrefix(r.Name, "Err") {
						return true
					}
				case *ast.SelectorExpr:
					if strings.HasPrefix(r.Sel.Name, "Err") {
						return true
					}
				}
			}
		}
	}
	return false
}

// rewriteReturnsErr: like rewriteReturns, but a return whose error is provably non-nil runs the caller's failure block
// directly, `return .., nil` breaks out, and anything else is tested on the spot.
func rewriteReturnsErr(b *ast.BlockStmt, res []string, label string, ec *errCont, errVar string) bool {
	ok := true
	brk := func() ast.Stmt { return &ast.BranchStmt{Tok: token.BREAK, Label: ast.NewIdent(label)} }
	var stack []ast.Node
	var doList func(l []ast.Stmt) []ast.Stmt
	var doStmt func(s ast.Stmt) []ast.Stmt
	doStmt = func(s ast.Stmt) []ast.Stmt {
		stack = append(stack, s)
		defer func() { stack = stack[:len(stack)-1] }()
		switch x := s.(type) {
		case *ast.ReturnStmt:
			nres := len(res)
			var lhs []ast.Expr
			for i, r := range res {
				if i == nres-1 {
					lhs = append(lhs, ast.NewIdent(errVar))
				} else {
					lhs = append(lhs, ast.NewIdent(r))
				}
			}
			if len(x.Results) == 1 && nres > 1 {
				// return f() with several results
				ret := copyRet(ec, errVar)
				if ret == nil {
					ok = false
					return []ast.Stmt{s}
				}
				asg := &ast.AssignStmt{Lhs: lhs, Tok: token.ASSIGN, Rhs: x.Results}
				chk := &ast.IfStmt{Cond: &ast.BinaryExpr{X: ast.NewIdent(errVar), Op: token.NEQ, Y: ast.NewIdent("nil")}, Body: &ast.BlockStmt{List: ret}}
				return []ast.Stmt{asg, chk, brk()}
			}
			if len(x.Results) != nres {
				ok = false
				return []ast.Stmt{s}
			}
			errExpr := x.Results[nres-1]
			var out []ast.Stmt
			if nres > 1 {
				out = append(out, &ast.AssignStmt{Lhs: lhs[:nres-1], Tok: token.ASSIGN, Rhs: x.Results[:nres-1]})
			}
			if id, isId := errExpr.(*ast.Ident); isId && id.Name == "nil" {
				return append(out, brk())
			}
			ret := copyRet(ec, errVar)
			if ret == nil {
				ok = false
				return []ast.Stmt{s}
			}
			asg := &ast.AssignStmt{Lhs: []ast.Expr{ast.NewIdent(errVar)}, Tok: token.ASSIGN, Rhs: []ast.Expr{errExpr}}
			if provablyNonNilErrExpr(errExpr, stack) {
				out = append(out, asg)
				return append(out, ret...)
			}
			chk := &ast.IfStmt{Cond: &ast.BinaryExpr{X: ast.NewIdent(errVar), Op: token.NEQ, Y: ast.NewIdent("nil")}, Body: &ast.BlockStmt{List: ret}}
			return append(out, asg, chk, brk())
		case *ast.BlockStmt:
			stack = append(stack, x)
			x.List = doList(x.List)
			stack = stack[:len(stack)-1]
		case *ast.IfStmt:
			stack = append(stack, x.Body)
			x.Body.List = doList(x.Body.List)
			stack = stack[:len(stack)-1]
			if x.Else != nil {
				r := doStmt(x.Else)
				if len(r) == 1 {
					x.Else = r[0]
				} else {
					x.Else = &ast.BlockStmt{List: r}
				}
			}
		case *ast.ForStmt:
			x.Body.List = doList(x.Body.List)
		case *ast.RangeStmt:
			x.Body.List = doList(x.Body.List)
		case *ast.SwitchStmt:
			for _, c := range x.Body.List {
				cc := c.(*ast.CaseClause)
				cc.Body = doList(cc.Body)
			}
		case *ast.TypeSwitchStmt:
			for _, c := range x.Body.List {
				cc := c.(*ast.CaseClause)
				cc.Body = doList(cc.Body)
			}
		case *ast.SelectStmt:
			for _, c := range x.Body.List {
				cc := c.(*ast.CommClause)
				cc.Body = doList(cc.Body)
			}
		}
		return []ast.Stmt{s}
	}
	doList = func(l []ast.Stmt) []ast.Stmt {
		var out []ast.Stmt
		for _, s := range l {
			out = append(out, doStmt(s)...)
		}
		return out
	}
	b.List = doList(b.List)
	return ok
}
