package main

import (
	"go/token"
	"fmt"
	"go/types"
	"sort"
	"strings"

	"golang.org/x/tools/go/ssa"
)

func init() { register("C14", "other", runC14) }

// loopOf: innermost natural loop (header, blocks) containing block b; nil if none.
func loopOf(b *ssa.BasicBlock) (*ssa.BasicBlock, map[*ssa.BasicBlock]bool) {
	fn := b.Parent()
	var best *ssa.BasicBlock
	var bestSet map[*ssa.BasicBlock]bool
	for _, h := range fn.Blocks {
		if !(h == b || h.Dominates(b)) {
			continue
		}
		// back edges into h
		set := map[*ssa.BasicBlock]bool{h: true}
		var st []*ssa.BasicBlock
		for _, p := range h.Preds {
			if h.Dominates(p) || p == h {
				if !set[p] {
					set[p] = true
					st = append(st, p)
				}
			}
		}
		if len(st) == 0 && !(len(set) == 1 && false) {
			hasSelf := false
			for _, p := range h.Preds {
				if p == h {
					hasSelf = true
				}
			}
			if !hasSelf {
				continue
			}
		}
		for len(st) > 0 {
			x := st[len(st)-1]
			st = st[:len(st)-1]
			for _, p := range x.Preds {
				if !set[p] && h.Dominates(p) {
					set[p] = true
					st = append(st, p)
				}
			}
		}
		if !set[b] {
			continue
		}
		if best == nil || best.Dominates(h) {
			best, bestSet = h, set
		}
	}
	return best, bestSet
}

// iterationCanSkip: within the loop of c's block, an iteration can go from the header back to the header without executing c.
func iterationCanSkip(c ssa.Instruction) (bool, bool) {
	h, set := loopOf(c.Block())
	if h == nil {
		return false, false
	}
	seen := map[*ssa.BasicBlock]bool{}
	var st []*ssa.BasicBlock
	for _, s := range h.Succs {
		if set[s] && s != c.Block() {
			st = append(st, s)
		}
	}
	for len(st) > 0 {
		x := st[len(st)-1]
		st = st[:len(st)-1]
		if x == h {
			return true, true
		}
		if seen[x] {
			continue
		}
		seen[x] = true
		for _, s := range x.Succs {
			if set[s] && s != c.Block() {
				st = append(st, s)
			}
		}
	}
	return false, true
}

func runC14(e *Engine, r *Report, tier string) {
	r.Explanation = "C14, structural clauses. Decided: R1 key-family coverage — every staking/distribution key family of the SDK fork being built that has a key constructor taking the delegator address is both deleted (source key) and set (target key) by the staking/distribution migrator (exemption: distribution 0x03 withdraw-address preference), the maturation queues 0x41/0x42 are rewritten, and the queue rewrite is executed for every entry (no iteration of the entries loop can skip the queue lookup); R2 the bank migrator sends GetAllBalances(from) from `from` to `to`; R3 stateless validation requires the recovered signer of hash(from,to) to equal `to` and from != to, and the handler refuses addresses with a migration record before anything else; R4 every Validate runs before every Execute and the record is written after the last Execute on the success path; R5 the governance scan of open proposals is not bounded by the current block time, its per-proposal callbacks return stop=false whenever they return no error (every open proposal is examined), and it checks proposer, depositor and voter for both addresses. Not decided: later activity of the target, arithmetic inside SDK modules."
	r.Rule("R1", "staking/distribution key families with a delegator key are deleted+set; queues rewritten for every entry", 9, "key constructors with a delegator parameter in cosmos-sdk x/staking/types and x/distribution/types (fork in go.mod)")
	r.Rule("R2", "bank: SendCoins(from, to, GetAllBalances(from))", 1, "")
	r.Rule("R3", "signature by target over (from,to); from != to; migration-record lookups first", 4, "")
	r.Rule("R4", "all Validate before all Execute; record after", 3, "")
	r.Rule("R8", "records to migrate are enumerated without a retrieval cap (a capped getter silently leaves the rest with the source)", 0, "")
	r.Rule("R7", "a party with a validator record is refused unconditionally (source and target)", 2, "validator lookups in the staking migrator's Validate")
	r.Rule("R6", "staking key constructors receive the record's source / destination validator in the matching parameter", 6, "calls from the migrator to key constructors with valSrc / valDst parameters")
	r.Rule("R5", "open-proposal scan covers the whole queues (unbounded range, callbacks never stop the walk without an error); proposer/deposit/vote checked for source and target", 7, "2 queue scans + 3 participation kinds")

	e.c14UncappedEnumeration(r)

	// locate migrator implementers (interface MigrateI)
	impls := e.TypesImplementing(ModPath+"/x/migrate/keeper", "MigrateI")
	if len(impls) < 3 {
		r.Fail("R4", "MigrateI implementers", "", fmt.Sprintf("UNRESOLVED-ANCHOR: %d implementers of MigrateI", len(impls)))
	}
	var stakingExec, bankExec, govValidate *ssa.Function
	for _, T := range impls {
		ex := e.MethodOf(T, "Execute")
		va := e.MethodOf(T, "Validate")
		if ex != nil {
			for _, so := range e.Effects(ex) {
				for id := range so.Fams {
					if strings.HasPrefix(id, "dep-staking:") {
						stakingExec = ex
					}
				}
			}
			allCalls(ex, func(c ssa.CallInstruction) {
				if callName(c) == "SendCoins" {
					bankExec = ex
				}
			})
		}
		if va != nil {
			allCalls(va, func(c ssa.CallInstruction) {
				if strings.Contains(callName(c), "Proposal") {
					govValidate = va
				}
			})
		}
	}

	// ---------- R1 ----------
	if stakingExec == nil {
		r.Fail("R1", "staking migrator", "", "UNRESOLVED-ANCHOR: no MigrateI.Execute touches the staking store")
	} else {
		// K: families with a delegator-keyed constructor in the SDK packages
		K := map[string]string{}
		for _, f := range e.DepFuncs {
			if f.Pkg == nil || f.Parent() != nil {
				continue
			}
			pp := f.Pkg.Pkg.Path()
			if !strings.HasSuffix(pp, "cosmos-sdk/x/staking/types") && !strings.HasSuffix(pp, "cosmos-sdk/x/distribution/types") {
				continue
			}
			if f.Signature.Recv() != nil || f.Signature.Results().Len() != 1 {
				continue
			}
			if sl, ok := f.Signature.Results().At(0).Type().Underlying().(*types.Slice); !ok || !isByte(sl.Elem()) {
				continue
			}
			hasDel := false
			for i := 0; i < f.Signature.Params().Len(); i++ {
				if strings.HasSuffix(f.Signature.Params().At(i).Type().String(), "types.AccAddress") {
					hasDel = true
				}
			}
			if !hasDel {
				continue
			}
			fams := map[string]bool{}
			for _, b := range f.Blocks {
				if ret, ok := b.Instrs[len(b.Instrs)-1].(*ssa.Return); ok {
					for k := range e.KeyFamilies(ret.Results[0]) {
						fams[k] = true
					}
				}
			}
			for k := range fams {
				if _, ok := K[k]; !ok {
					K[k] = f.Name()
				}
			}
		}
		exempt := map[string]string{
			"dep-distribution:03": "delegator withdraw-address preference: a setting, not an asset; the target keeps its own",
		}
		del, set := map[string]bool{}, map[string]bool{}
		for _, so := range e.Effects(stakingExec) {
			for id := range so.Fams {
				if so.Op == "delete" {
					del[id] = true
				}
				if so.Op == "set" {
					set[id] = true
				}
			}
		}
		var ks []string
		for k := range K {
			ks = append(ks, k)
		}
		sort.Strings(ks)
		for _, k := range ks {
			ck := k
			if why, ok := exempt[k]; ok {
				r.Ok("R1", ck, "", "exempt: "+why)
				continue
			}
			switch {
			case !del[k] && !set[k]:
				r.Fail("R1", ck, e.Pos(stakingExec.Pos()), "records of this delegator-keyed family ("+K[k]+") are not migrated at all: they stay under the source address")
			case !del[k]:
				r.Fail("R1", ck, e.Pos(stakingExec.Pos()), "family ("+K[k]+") is written for the target but the source key is not deleted")
			case !set[k]:
				r.Fail("R1", ck, e.Pos(stakingExec.Pos()), "family ("+K[k]+") source key is deleted but no key is written for the target")
			default:
				r.Ok("R1", ck, e.Pos(stakingExec.Pos()), "delete(source key) and set(target key) via "+K[k])
			}
		}
		// queues
		for _, q := range []string{"dep-staking:41", "dep-staking:42"} {
			if !set[q] {
				r.Fail("R1", q+" queue", e.Pos(stakingExec.Pos()), "maturation queue entries naming the delegator are not rewritten")
			} else {
				r.Ok("R1", q+" queue", e.Pos(stakingExec.Pos()), "time-slice rewritten")
			}
		}
		// queue lookup on every entry
		nq := 0
		allCalls(stakingExec, func(c ssa.CallInstruction) {
			if !strings.HasSuffix(callName(c), "QueueTimeSlice") {
				return
			}
			nq++
			ck := callName(c) + " every-entry"
			skip, inLoop := iterationCanSkip(c)
			switch {
			case !inLoop:
				r.Fail("R1", ck, e.InstrPos(c), "queue lookup is not inside the loop over the record's entries")
			case skip:
				r.Fail("R1", ck, e.InstrPos(c), "some entries are skipped: an iteration of the entries loop can continue without looking up (and rewriting) the entry's queue slice")
			default:
				r.Ok("R1", ck, e.InstrPos(c), "executed on every iteration of the entries loop")
			}
			// the rewritten pair must be assigned the target and the set must be control dependent only on a match flag: the
			// set(0x41/0x42) belongs to the same loop
		})
		if nq < 2 {
			r.Fail("R1", "queue lookups", e.Pos(stakingExec.Pos()), fmt.Sprintf("UNRESOLVED-ANCHOR: %d queue time-slice lookups (expected unbonding and redelegation)", nq))
		}
		// embedded DelegatorAddress re-assigned before re-marshal: count stores to field DelegatorAddress
		nst := 0
		allInstrs(stakingExec, func(i ssa.Instruction) {
			if st, ok := i.(*ssa.Store); ok {
				if fa, ok := st.Addr.(*ssa.FieldAddr); ok {
					if n, _, _ := fieldName(fa); n == "DelegatorAddress" {
						nst++
					}
				}
			}
		})
		r.Check(nst >= 5, "R1", "embedded DelegatorAddress", e.Pos(stakingExec.Pos()), fmt.Sprintf("%d assignments of the embedded delegator address (delegation, UBD, RED, DVPair, DVVTriplet)", nst), fmt.Sprintf("only %d assignments of an embedded DelegatorAddress: a re-keyed record would still name the source", nst))
	}

	// ---------- R2 ----------
	if bankExec == nil {
		r.Fail("R2", "bank migrator", "", "UNRESOLVED-ANCHOR")
	} else {
		ok := false
		allCalls(bankExec, func(c ssa.CallInstruction) {
			if callName(c) != "SendCoins" {
				return
			}
			args := nonCtxArgs(c)
			if len(args) != 3 {
				return
			}
			// amount from GetAllBalances(same from)
			if gc, ok2 := args[2].(*ssa.Call); ok2 && callName(gc) == "GetAllBalances" {
				ga := nonCtxArgs(gc)
				if len(ga) == 1 && SameExpr(ga[0], args[0], 4) {
					if _, isPar := stripConv(args[0]).(*ssa.Parameter); isPar {
						// to derives from the `to` param
						res := e.Slice(args[1], SliceOpts{MaxDepth: 4}, func(x ssa.Value) Verdict {
							if p, ok := x.(*ssa.Parameter); ok && p != stripConv(args[0]) {
								return Accept
							}
							return Continue
						})
						ok = res.AllAccepted()
					}
				}
			}
		})
		r.Check(ok, "R2", e.FnKey(bankExec), e.Pos(bankExec.Pos()), "SendCoins(from, to, GetAllBalances(from))", "bank migration does not move exactly the source's whole balance to the target")
	}

	// ---------- R3 ----------
	vb := e.Method("x/migrate/types", "MsgMigrateAccount", "ValidateBasic")
	if vb == nil {
		r.Fail("R3", "ValidateBasic", "", "UNRESOLVED-ANCHOR")
	} else {
		// success return must be dominated by: Equal(recovered, to) true; Equal(from,to) false
		var sigOK, neqOK bool
		for _, ret := range SuccessReturns(vb) {
			s1, s2 := false, false
			for _, g := range GuardsOf(ret) {
				ci, ok := NormCond(g)
				if !ok || (ci.Op != "==" && ci.Op != "!=") || ci.X == nil || ci.Y == nil {
					continue
				}
				// operands (any spelling of the equality: bytes.Equal, Equals, ==, string compare)
				isRecovered := func(v ssa.Value) bool {
					res := e.Slice(v, SliceOpts{MaxDepth: 8}, func(x ssa.Value) Verdict {
						if c, ok := x.(*ssa.Call); ok && callName(c) == "PubkeyToAddress" {
							// pubkey from SigToPub(hash(from,to), sig)
							in := e.Slice(c.Common().Args[0], SliceOpts{MaxDepth: 8}, func(y ssa.Value) Verdict {
								if sc, ok := y.(*ssa.Call); ok && callName(sc) == "SigToPub" {
									return Accept
								}
								return Continue
							})
							if in.AnyAccepted() {
								return Accept
							}
							return Reject
						}
						return Continue
					})
					return res.AllAccepted()
				}
				rootsField := func(v ssa.Value, f string) bool {
					res := e.Slice(v, SliceOpts{MaxDepth: 8}, func(x ssa.Value) Verdict {
						if n, _, ok := fieldName(x); ok && n == f {
							return Accept
						}
						return Continue
					})
					return res.AllAccepted()
				}
				if ci.Op == "==" && ((isRecovered(ci.X) && rootsField(ci.Y, "To")) || (isRecovered(ci.Y) && rootsField(ci.X, "To"))) {
					s1 = true
				}
				if ci.Op == "!=" && ((rootsField(ci.X, "From") && rootsField(ci.Y, "To")) || (rootsField(ci.X, "To") && rootsField(ci.Y, "From"))) {
					s2 = true
				}
			}
			sigOK, neqOK = s1, s2
			if !s1 || !s2 {
				break
			}
		}
		r.Check(sigOK, "R3", "signature", e.Pos(vb.Pos()), "success requires address(SigToPub(hash, sig)) == To", "a MsgMigrateAccount can validate without the target key's signature matching `To`")
		r.Check(neqOK, "R3", "from!=to", e.Pos(vb.Pos()), "success requires From != To", "From == To is not rejected")
		// hash covers both from and to
		hf := e.PkgFunc("x/migrate/types", "MigrateAccountSignatureHash")
		if hf == nil {
			// renamed: the two-parameter digest function of the package
			hf = e.findFn(func(f *ssa.Function) bool {
				return strings.HasSuffix(fnPkgPath(f), "x/migrate/types") && f.Signature.Recv() == nil && len(f.Params) == 2 && callsNamed(f, "Keccak256")
			})
		}
		okHash := false
		if hf != nil && len(hf.Params) == 2 {
			allCalls(hf, func(c ssa.CallInstruction) {
				if callName(c) == "Keccak256" {
					used := map[*ssa.Parameter]bool{}
					for _, a := range c.Common().Args {
						e.Slice(a, SliceOpts{MaxDepth: 6}, func(x ssa.Value) Verdict {
							if sl, ok := x.(*ssa.Slice); ok && (sl.Low != nil || sl.High != nil) {
								if _, isArr := sl.X.Type().Underlying().(*types.Pointer); !isArr {
									return Reject // a sub-slice of an address is not the address
								}
							}
							if p, ok := x.(*ssa.Parameter); ok {
								used[p] = true
								return Accept
							}
							return Continue
						})
					}
					okHash = used[hf.Params[0]] && used[hf.Params[1]]
				}
			})
		}
		r.Check(okHash, "R3", "hash(from,to)", "", "signed digest covers both addresses", "the signed digest does not cover both the source and the target address")
	}
	var handler *Handler
	for _, h := range e.MsgHandlers() {
		if h.Req.Obj().Name() == "MsgMigrateAccount" && strings.Contains(fnPkgPath(h.Fn), "/keeper") {
			handler = h
		}
	}
	if handler == nil {
		r.Fail("R4", "handler", "", "UNRESOLVED-ANCHOR: MsgMigrateAccount handler")
	} else {
		H := handler.Fn
		var validates, executes []ssa.CallInstruction
		var record ssa.CallInstruction
		var hasRec []ssa.CallInstruction
		allCalls(H, func(c ssa.CallInstruction) {
			switch {
			case c.Common().IsInvoke() && c.Common().Method.Name() == "Validate":
				validates = append(validates, c)
			case c.Common().IsInvoke() && c.Common().Method.Name() == "Execute":
				executes = append(executes, c)
			case e.callDirectOp(c, "migrate", "01", "set"):
				record = c
			case e.callDirectOp(c, "migrate", "01", "has,get"):
				hasRec = append(hasRec, c)
			}
		})
		ck := e.FnKey(H)
		if len(validates) == 0 || len(executes) == 0 || record == nil {
			r.Fail("R4", ck, e.Pos(H.Pos()), "UNRESOLVED-ANCHOR: validate/execute/record calls")
		} else {
			// the Execute loop is entered only after the Validate loop has finished: the execute call's loop header is
			// reachable from the validate loop only through its exit; structurally: validate block does not reach... use dominance:
			vh, vset := loopOf(validates[0].Block())
			eh, eset := loopOf(executes[0].Block())
			okOrder := vh != nil && eh != nil && vh != eh && vh.Dominates(eh) && !vset[executes[0].Block()] && !eset[validates[0].Block()]
			r.Check(okOrder, "R4", ck+" validate-all-then-execute", e.InstrPos(executes[0]), "the Validate loop completes before the Execute loop starts", "Execute can run before every Validate has passed (an earlier Execute's writes would precede a later refusal)")
			okErr := true
			for _, c := range append(append([]ssa.CallInstruction{}, validates...), executes...) {
				if ok, _ := errorHandled(c); !ok {
					okErr = false
				}
			}
			r.Check(okErr, "R4", ck+" errors", e.InstrPos(validates[0]), "Validate/Execute errors abort the migration", "an error of Validate/Execute is ignored")
			okRec := eh != nil && !eset[record.Block()] && eh.Dominates(record.Block())
			r.Check(okRec, "R4", ck+" record-after", e.InstrPos(record), "migration record written after the Execute loop", "migration record is not written after all handlers executed")
			// R3: record lookups for from and to dominate first Validate, with error
			n := 0
			for _, hc := range hasRec {
				if Dominates(hc, validates[0]) {
					n++
					continue
				}
				// the lookups written as one loop over a literal list of the addresses: the looked-up value is the loop
				// element, the loop comes before the first Validate, and each element of the list counts
				if h, _ := loopOf(hc.Block()); h != nil && h.Dominates(validates[0].Block()) {
					for _, a := range nonCtxArgs(hc) {
						ld, ok := stripConv(a).(*ssa.UnOp)
						if !ok {
							continue
						}
						ia, ok := ld.X.(*ssa.IndexAddr)
						if !ok {
							continue
						}
						var arr *ssa.Alloc
						switch x := ia.X.(type) {
						case *ssa.Slice:
							arr, _ = x.X.(*ssa.Alloc)
						case *ssa.Alloc:
							arr = x
						}
						if arr == nil || arr.Referrers() == nil {
							continue
						}
						for _, ref := range *arr.Referrers() {
							if ia2, ok := ref.(*ssa.IndexAddr); ok && ia2 != ia && ia2.Referrers() != nil {
								for _, r2 := range *ia2.Referrers() {
									if st, ok := r2.(*ssa.Store); ok && st.Addr == ssa.Value(ia2) {
										n++
									}
								}
							}
						}
					}
				}
			}
			r.Check(n >= 2, "R3", ck+" record-lookups", e.InstrPos(validates[0]), "both addresses checked against migration records before any handler", fmt.Sprintf("only %d migration-record lookup(s) dominate the first Validate: an address could be migrated twice", n))
		}
	}

	// ---------- R5 ----------
	if govValidate == nil {
		r.Fail("R5", "gov migrator", "", "UNRESOLVED-ANCHOR")
	} else {
		n := 0
		allCalls(govValidate, func(c ssa.CallInstruction) {
			if !strings.Contains(callName(c), "Proposal") {
				return
			}
			n++
			ck := e.FnKey(govValidate) + " " + callName(c)
			bad := ""
			for _, a := range c.Common().Args {
				if !strings.HasSuffix(a.Type().String(), "time.Time") {
					continue
				}
				e.Slice(a, SliceOpts{MaxDepth: 8, ThroughCalls: true}, func(x ssa.Value) Verdict {
					if cc0, ok := x.(*ssa.Call); ok && (callName(cc0) == "BlockTime" || callName(cc0) == "Now" || callName(cc0) == "BlockHeader" || callName(cc0) == "HeaderInfo") {
						bad = callName(cc0)
						return Reject
					}
					return Continue
				})
			}
			if bad != "" {
				r.Fail("R5", ck, e.InstrPos(c), "the scan of this proposal queue is bounded by the current block time ("+bad+"): queues are keyed by end time, so only proposals that have already ended are looked at and every open proposal is missed")
				return
			}
			if ok, _ := errorHandled(c); !ok {
				r.Fail("R5", ck, e.InstrPos(c), "result of the proposal scan is ignored")
				return
			}
			r.Ok("R5", ck, e.InstrPos(c), "scan bound is not derived from the current block time")
			// the fx gov keeper iterator: zero time -> nil range
			for _, f := range e.calleesOf(c) {
				allCalls(f, func(w ssa.CallInstruction) {
					if callName(w) != "Walk" {
						return
					}
					// range argument must not be derived from BlockTime either
					r.Ok("R5", e.FnKey(f)+" Walk", e.InstrPos(w), "walks the queue with the caller-supplied range")
				})
			}
		})
		if n < 2 {
			r.Fail("R5", e.FnKey(govValidate)+" scans", e.Pos(govValidate.Pos()), fmt.Sprintf("%d proposal-queue scans (deposit-period and voting-period queues expected)", n))
		}
		// callbacks check proposer, deposit, vote for both from and to
		root := rootFn(govValidate)
		var fns []*ssa.Function
		for _, f := range e.Funcs {
			if rootFn(f).Signature.Recv() != nil && namedTypeName(rootFn(f).Signature.Recv().Type()) == namedTypeName(root.Signature.Recv().Type()) {
				fns = append(fns, f)
			}
		}
		count := map[string]int{}
		for _, f := range fns {
			allCalls(f, func(c ssa.CallInstruction) {
				switch callName(c) {
				case "HasDeposit", "HasVote":
					if ok, _ := errorHandled(c); ok {
						// result must guard an error return: the bool extract feeds an If whose true branch fails
						okB := false
						if v, isV := c.(ssa.Value); isV {
							for _, ref := range *v.Referrers() {
								if ex, ok := ref.(*ssa.Extract); ok && ex.Index == 0 {
									for _, r2 := range *ex.Referrers() {
										if iff, ok := r2.(*ssa.If); ok && BranchFailsClean(iff, true, nil) {
											okB = true
										}
									}
								}
							}
						}
						if okB {
							count[callName(c)]++
						}
					}
				}
			})
			// proposer: an equality (in any spelling) between a party and the proposal's proposer whose true branch fails
			allInstrs(f, func(i ssa.Instruction) {
				iff, ok := i.(*ssa.If)
				if !ok {
					return
				}
				ci, ok := NormCond(Guard{iff.Cond, true, iff})
				if !ok || ci.Op != "==" || ci.X == nil || ci.Y == nil {
					return
				}
				isProposer := func(v ssa.Value) bool {
					hit := false
					e.Slice(v, SliceOpts{MaxDepth: 8, ThroughCalls: true, ConstLeafOK: true}, func(x ssa.Value) Verdict {
						if n, _, ok := fieldName(x); ok && n == "Proposer" {
							hit = true
							return Accept
						}
						if c, ok := x.(*ssa.Call); ok && callName(c) == "GetProposer" {
							hit = true
							return Accept
						}
						return Continue
					})
					return hit
				}
				if (isProposer(ci.X) || isProposer(ci.Y)) && BranchFailsClean(iff, true, nil) {
					count["proposer"]++
				}
			})
		}
		// the per-proposal callbacks never ask the walk to stop on an uninvolved proposal: a (stop, error) callback
		// returns stop == false whenever its error is nil, so every open proposal of the queue is examined
		ncb := 0
		for _, f := range fns {
			res := f.Signature.Results()
			if f.Parent() == nil || res.Len() != 2 || !isErrorType(res.At(1).Type()) {
				continue
			}
			if b, ok := res.At(0).Type().Underlying().(*types.Basic); !ok || b.Kind() != types.Bool {
				continue
			}
			ncb++
			var bad *ssa.Return
			for _, ret := range SuccessReturns(f) {
				if len(ret.Results) != 2 {
					continue
				}
				if bv, ok := constBool(ret.Results[0]); ok && !bv {
					continue
				}
				bad = ret
			}
			ck := e.FnKey(f) + " scan-continues"
			if bad != nil {
				r.Fail("R5", ck, e.InstrPos(bad), "the per-proposal callback can return stop=true (or a non-constant) with a nil error: the walk over the proposal queue ends at the first proposal that does not involve the accounts and later open proposals are never checked")
			} else {
				r.Ok("R5", ck, e.Pos(f.Pos()), "returns stop=false whenever it returns no error")
			}
		}
		if ncb < 2 {
			r.Fail("R5", "scan-callbacks", e.Pos(govValidate.Pos()), fmt.Sprintf("UNRESOLVED-ANCHOR: %d (stop, error) callbacks found in the gov migrator", ncb))
		}
		for _, k := range []string{"proposer", "HasDeposit", "HasVote"} {
			r.Check(count[k] >= 2, "R5", "participation "+k, e.Pos(govValidate.Pos()), fmt.Sprintf("%d refusing checks (source and target)", count[k]), fmt.Sprintf("only %d refusing `%s` check(s): source and target must both be refused", count[k], k))
		}
	}

	// ---------- R6: a staking key constructor gets the record's source validator where it expects the source, the
	// destination where it expects the destination ----------
	// All three redelegation keys take (delegator, valSrc, valDst) but lay the bytes out differently; the two validator
	// arguments have the same type, so swapping them compiles and re-keys the entry under a key nobody reads.
	n6 := 0
	for _, fn := range e.Funcs {
		if isAuxPkg(fnPkgPath(fn)) || !strings.Contains(fnPkgPath(fn), "x/migrate/keeper") {
			continue
		}
		allCalls(fn, func(c ssa.CallInstruction) {
			callee := c.Common().StaticCallee()
			if callee == nil || !strings.Contains(fnPkgPath(callee), "x/staking/types") && !strings.Contains(fnPkgPath(callee), "x/distribution/types") {
				return
			}
			sig := callee.Signature
			args := c.Common().Args
			for i := 0; i < sig.Params().Len() && i < len(args); i++ {
				pn := sig.Params().At(i).Name()
				role := ""
				switch {
				case strings.Contains(pn, "Src"):
					role = "Src"
				case strings.Contains(pn, "Dst"):
					role = "Dst"
				default:
					continue
				}
				n6++
				ck := fmt.Sprintf("%s -> %s(%s)", e.CanonFnKey(fn), callee.Name(), pn)
				got := ""
				e.Slice(args[i], SliceOpts{MaxDepth: 8}, func(x ssa.Value) Verdict {
					if n, _, ok := fieldName(x); ok && strings.HasPrefix(n, "Validator") {
						got = n
						return Accept
					}
					return Continue
				})
				switch {
				case got == "":
					r.Undecided("R6", ck, e.InstrPos(c), "the argument is not rooted in a Validator*Address field of the migrated record")
				case strings.Contains(got, role):
					r.Ok("R6", ck, e.InstrPos(c), "argument is the record's "+got)
				default:
					r.Fail("R6", ck, e.InstrPos(c), "the key constructor's `"+pn+"` parameter is given the record's "+got+": the entry is deleted / written under a key with source and destination validator swapped, so the real index entry stays with the source account and the target gets one nobody reads")
				}
			}
		})
	}
	if n6 == 0 {
		r.Fail("R6", "key-constructor roles", "", "UNRESOLVED-ANCHOR: no staking key constructor with a source/destination validator parameter is called by the migrator")
	}

	// ---------- R7: neither party is a validator operator — whatever state the validator is in ----------
	// the refusal is "a validator record exists under this address" (lookup error == nil -> error), with no further condition:
	// a jailed or fully unbonded validator still exists, can be unjailed by its operator, and holds its self-delegation
	n7 := 0
	for _, fn := range e.Funcs {
		if isAuxPkg(fnPkgPath(fn)) || !strings.Contains(fnPkgPath(fn), "x/migrate/keeper") || fn.Name() != "Validate" {
			continue
		}
		allCalls(fn, func(c ssa.CallInstruction) {
			if callName(c) != "GetValidator" {
				return
			}
			cv, ok := c.(ssa.Value)
			if !ok {
				return
			}
			n7++
			who := "source"
			for _, a := range c.Common().Args {
				if strings.Contains(vkey(a, 0), "P:to") {
					who = "target"
				}
			}
			ck := e.CanonFnKey(fn) + " operator-refusal " + who
			okRef := false
			for _, ref := range *cv.Referrers() {
				ex, ok := ref.(*ssa.Extract)
				if !ok || !isErrorType(ex.Type()) {
					continue
				}
				for _, r2 := range *ex.Referrers() {
					bo, ok := r2.(*ssa.BinOp)
					if !ok || !(isNilConst(bo.X) || isNilConst(bo.Y)) {
						continue
					}
					for _, r3 := range *bo.Referrers() {
						if iff, ok := r3.(*ssa.If); ok {
							// the branch on which the lookup succeeded must fail, on every path through it
							if BranchFailsClean(iff, bo.Op == token.EQL, nil) {
								okRef = true
							}
						}
					}
				}
			}
			r.Check(okRef, "R7", ck, e.InstrPos(c), "an existing validator record under the address refuses the migration, unconditionally", "the migration of a validator operator is refused only under a further condition on the validator (e.g. its status): an operator whose validator is unbonded or freshly created can be migrated, its self-delegation moves and it can no longer unjail or edit the validator")
		})
	}
	if n7 < 2 {
		r.Fail("R7", "operator lookups", "", fmt.Sprintf("UNRESOLVED-ANCHOR: %d validator lookups in the staking migrator's Validate (source and target expected)", n7))
	}
}


// c14UncappedEnumeration (R8): the SDK's list getters take a `maxRetrieve uint16` and stop silently when it is reached. A
// migrator function that rewrites the store (Execute) must not obtain the records it moves through such a getter unless the
// cap is the type's maximum; Validate's existence probes (cap 1, result only measured) are not enumerations.
func (e *Engine) c14UncappedEnumeration(r *Report) {
	n := 0
	for _, fn := range e.Funcs {
		if !strings.Contains(fnPkgPath(fn), "/x/migrate/keeper") || !e.directWrite(rootFn(fn)) {
			continue
		}
		allCalls(fn, func(c ssa.CallInstruction) {
			sig := c.Common().Signature()
			if sig == nil {
				return
			}
			ps := sig.Params()
			for i := 0; i < ps.Len(); i++ {
				p := ps.At(i)
				b, ok := p.Type().Underlying().(*types.Basic)
				if !ok || b.Kind() != types.Uint16 || !strings.Contains(strings.ToLower(p.Name()), "max") {
					continue
				}
				args := c.Common().Args
				if i >= len(args) {
					continue
				}
				n++
				ck := e.FnKey(fn) + " " + callName(c) + " " + p.Name()
				k, isK := constInt(args[i])
				r.Check(isK && k == 65535, "R8", ck, e.InstrPos(c), "retrieval cap is the maximum of its type", "the records to migrate are read through "+callName(c)+" with a retrieval cap that is not the type's maximum: the getter stops silently at the cap, the remaining records stay with the source although the migration is recorded as done")
			}
		})
	}
	if n == 0 {
		r.Ok("R8", "capped getters in store-rewriting migrator code", "", "none: records are enumerated by prefix iteration")
	}
}
