package main

import (
	"fmt"
	"go/token"
	"go/types"
	"strings"

	"golang.org/x/tools/go/ssa"
)

// Verdict of a visitor on a node of the backward slice.
type Verdict int

const (
	Continue Verdict = iota // expand operands
	Accept                  // branch is fine, stop here
	Reject                  // branch is bad, stop here (recorded)
)

// SliceResult of a backward slice.
type SliceResult struct {
	Accepted []ssa.Value // nodes accepted
	Rejected []ssa.Value // nodes rejected
	Leaves   []ssa.Value // unexpandable nodes neither accepted nor rejected (params, consts, unknown calls, globals)
}

func (r *SliceResult) AllAccepted() bool {
	return len(r.Rejected) == 0 && len(r.Leaves) == 0 && len(r.Accepted) > 0
}
func (r *SliceResult) AnyAccepted() bool { return len(r.Accepted) > 0 }

type SliceOpts struct {
	MaxDepth      int
	IntoCallees   bool // follow returns of fx-core source callees
	IntoCallers   bool // follow parameters to all static callers (context-free) when no context
	ThroughBinOps bool // treat arithmetic as transparent (both operands)
	ThroughCalls  bool // treat every unknown call as transparent in receiver+args
	ConstLeafOK   bool // constants are silently accepted (not leaves)
	At            ssa.Instruction // if set: stores into local variables that happen strictly after At (dominated by it) are ignored
	NoWrapperArgs bool // for wrappers only follow receiver/first arg
}

// value-preserving wrappers: result carries the same information as receiver/arg0 (or all args)
var wrapperNames = map[string]bool{
	"Bytes": true, "String": true, "Hex": true, "BigInt": true, "Uint64": true, "Int64": true,
	"BytesToAddress": true, "HexToAddress": true, "AccAddress": true, "NewCoin": true, "NewCoins": true,
	"NewIntFromBigInt": true, "NewInt": true, "NewIntFromUint64": true, "MustAccAddressFromBech32": true, "AccAddressFromBech32": true,
	"ValAddressFromBech32": true, "NewERC20Token": true, "ExternalAddrToStr": true, "EncodeToString": true,
	"ExternalAddressToAccAddress": true, "ExternalAddrToAccAddr": true, "ExternalAddrToHexAddr": true,
	"Add": false, "Sub": false,
	"GetAmount": true, "GetEventNonce": true, "GetBlockHeight": true, "GetClaimer": true, "Sort": true,
	"Uint64ToBigEndian": true, "BigEndianToUint64": true, "ToLower": true, "TrimSpace": true,
	"NewUint": true, "NewUintFromBigInt": true, "Abs": true, "SetBytes": true, "Set": true,
	"CopyBytes": true, "Clone": true, "ParseAddress": true, "AddressToString": true, "MustUnwrapSDKContext": false,
}

func (e *Engine) Slice(v ssa.Value, opts SliceOpts, visit func(ssa.Value) Verdict) *SliceResult {
	res := &SliceResult{}
	if opts.MaxDepth == 0 {
		opts.MaxDepth = 24
	}
	seen := map[ssa.Value]bool{}
	var walk func(v ssa.Value, depth int, ctx *callCtx)
	leaf := func(v ssa.Value) {
		if _, ok := v.(*ssa.Const); ok && opts.ConstLeafOK {
			return
		}
		res.Leaves = append(res.Leaves, v)
	}
	walk = func(v ssa.Value, depth int, ctx *callCtx) {
		if v == nil {
			return
		}
		if seen[v] {
			return
		}
		seen[v] = true
		switch visit(v) {
		case Accept:
			res.Accepted = append(res.Accepted, v)
			return
		case Reject:
			res.Rejected = append(res.Rejected, v)
			return
		}
		if depth > opts.MaxDepth {
			leaf(v)
			return
		}
		switch x := v.(type) {
		case *ssa.Phi:
			for _, ed := range x.Edges {
				walk(ed, depth+1, ctx)
			}
		case *ssa.UnOp:
			if x.Op == token.MUL {
				switch a := x.X.(type) {
				case *ssa.Alloc:
					n := 0
					for _, r := range *a.Referrers() {
						if st, ok := r.(*ssa.Store); ok && st.Addr == a && !after(opts.At, st) {
							walk(st.Val, depth+1, ctx)
							n++
						}
					}
					// struct allocs filled field by field: follow field stores too
					n += e.walkFieldStoresAt(a, opts.At, func(val ssa.Value) { walk(val, depth+1, ctx) })
					if n == 0 {
						leaf(v)
					}
				case *ssa.FieldAddr, *ssa.IndexAddr:
					walk(a.(ssa.Value), depth+1, ctx)
				case *ssa.Global:
					leaf(v)
				default:
					walk(x.X, depth+1, ctx)
				}
			} else {
				walk(x.X, depth+1, ctx)
			}
		case *ssa.FieldAddr:
			// a field of a locally built struct: follow the stores into that field
			if base, ok := x.X.(*ssa.Alloc); ok {
				n := 0
				for _, r := range *base.Referrers() {
					if fa, ok := r.(*ssa.FieldAddr); ok && fa.Field == x.Field {
						for _, rr := range *fa.Referrers() {
							if st, ok := rr.(*ssa.Store); ok && st.Addr == fa && !after(opts.At, st) {
								walk(st.Val, depth+1, ctx)
								n++
							}
						}
					}
				}
				if n > 0 {
					return
				}
				// no field store: the local was assigned as a whole (`req := <struct value>`): the field of what was assigned
				okAll, any := true, false
				for _, r := range *base.Referrers() {
					if st, ok := r.(*ssa.Store); ok && st.Addr == ssa.Value(base) && !after(opts.At, st) {
						any = true
						if c, isC := st.Val.(*ssa.Const); isC && c.Value == nil {
							continue
						}
						if !walkStructValueField(st.Val, x.Field, 0, func(val ssa.Value) { walk(val, depth+1, ctx) }) {
							okAll = false
						}
					}
				}
				if any && okAll {
					return
				}
			}
			walk(x.X, depth+1, ctx)
		case *ssa.Field:
			// a field of a struct VALUE: when the value is a locally built struct (possibly copied through other locals),
			// follow only what was stored into that field
			if !walkStructValueField(x.X, x.Field, 0, func(val ssa.Value) { walk(val, depth+1, ctx) }) {
				walk(x.X, depth+1, ctx)
			}
		case *ssa.IndexAddr:
			walk(x.X, depth+1, ctx)
		case *ssa.Index:
			walk(x.X, depth+1, ctx)
		case *ssa.Lookup:
			walk(x.X, depth+1, ctx)
		case *ssa.Extract:
			walk(x.Tuple, depth+1, ctx)
		case *ssa.Convert:
			walk(x.X, depth+1, ctx)
		case *ssa.ChangeType:
			walk(x.X, depth+1, ctx)
		case *ssa.ChangeInterface:
			walk(x.X, depth+1, ctx)
		case *ssa.MakeInterface:
			walk(x.X, depth+1, ctx)
		case *ssa.TypeAssert:
			walk(x.X, depth+1, ctx)
		case *ssa.Slice:
			walk(x.X, depth+1, ctx)
		case *ssa.SliceToArrayPointer:
			walk(x.X, depth+1, ctx)
		case *ssa.Range, *ssa.Next:
			var ops []*ssa.Value
			for _, op := range x.(ssa.Instruction).Operands(ops) {
				if *op != nil {
					walk(*op, depth+1, ctx)
				}
			}
		case *ssa.BinOp:
			if opts.ThroughBinOps {
				walk(x.X, depth+1, ctx)
				walk(x.Y, depth+1, ctx)
			} else {
				leaf(v)
			}
		case *ssa.MakeSlice:
			// slices filled element by element: s[i] = v
			n := 0
			for _, r := range *x.Referrers() {
				if ia, ok := r.(*ssa.IndexAddr); ok {
					for _, rr := range *ia.Referrers() {
						if st, ok := rr.(*ssa.Store); ok && st.Addr == ia && !after(opts.At, st) {
							walk(st.Val, depth+1, ctx)
							n++
						}
					}
				}
			}
			if n == 0 {
				leaf(v)
			}
		case *ssa.Alloc:
			n := 0
			for _, r := range *x.Referrers() {
				if st, ok := r.(*ssa.Store); ok && st.Addr == x && !after(opts.At, st) {
					walk(st.Val, depth+1, ctx)
					n++
				}
			}
			n += e.walkFieldStoresAt(x, opts.At, func(val ssa.Value) { walk(val, depth+1, ctx) })
			if n == 0 {
				leaf(v)
			}
		case *ssa.Call:
			cc := x.Common()
			name := callName(x)
			if b, ok := cc.Value.(*ssa.Builtin); ok {
				switch b.Name() {
				case "append":
					for _, a := range cc.Args {
						walk(a, depth+1, ctx)
					}
				case "len", "cap":
					walk(cc.Args[0], depth+1, ctx)
				default:
					leaf(v)
				}
				return
			}
			callee := cc.StaticCallee()
			if opts.IntoCallees && callee != nil && callee.Blocks != nil && isFx(callee) && !wrapperNames[name] {
				nctx := &callCtx{call: x, up: ctx}
				n := 0
				for _, b := range callee.Blocks {
					if len(b.Instrs) == 0 {
						continue
					}
					if r, ok := b.Instrs[len(b.Instrs)-1].(*ssa.Return); ok && len(r.Results) > 0 {
						// single result or first non-error result
						for ri, rv := range r.Results {
							if isErrorType(rv.Type()) && len(r.Results) > 1 {
								continue
							}
							_ = ri
							walk(rv, depth+1, nctx)
							n++
						}
					}
				}
				if n > 0 {
					return
				}
			}
			if wrapperNames[name] || opts.ThroughCalls {
				args := callArgs(x)
				if len(args) == 0 {
					leaf(v)
					return
				}
				if opts.NoWrapperArgs {
					walk(args[0], depth+1, ctx)
					return
				}
				for _, a := range args {
					if isCtxType(a.Type()) {
						continue
					}
					walk(a, depth+1, ctx)
				}
				return
			}
			leaf(v)
		case *ssa.Parameter:
			fn := x.Parent()
			idx := paramIndex(x)
			if ctx != nil && ctx.call.Common().StaticCallee() == fn && idx >= 0 {
				args := ctx.call.Common().Args
				if idx < len(args) {
					walk(args[idx], depth+1, ctx.up)
					return
				}
			}
			if opts.IntoCallers && idx >= 0 {
				n := 0
				for _, site := range e.CallGraph().In[fn] {
					if site.Call == nil {
						continue
					}
					args := site.Call.Common().Args
					k := idx
					if site.Call.Common().IsInvoke() {
						k = idx - 1
					}
					if k >= 0 && k < len(args) {
						walk(args[k], depth+1, nil)
						n++
					}
				}
				if n > 0 {
					return
				}
			}
			leaf(v)
		case *ssa.FreeVar:
			fn := x.Parent()
			idx := -1
			for i, fv := range fn.FreeVars {
				if fv == x {
					idx = i
				}
			}
			found := false
			if par := fn.Parent(); par != nil && idx >= 0 {
				allInstrs(par, func(i ssa.Instruction) {
					if mc, ok := i.(*ssa.MakeClosure); ok && mc.Fn == fn && idx < len(mc.Bindings) {
						found = true
						walk(mc.Bindings[idx], depth+1, nil)
					}
				})
			}
			if !found {
				leaf(v)
			}
		default:
			leaf(v)
		}
	}
	walk(v, 0, nil)
	return res
}

// walkFieldStores: for an Alloc of struct type, visit all values stored into any of its fields.
// after: instruction st happens strictly after `at` on every path (at dominates st); nil at = never.
func after(at ssa.Instruction, st ssa.Instruction) bool {
	return at != nil && at.Parent() == st.Parent() && at != st && Dominates(at, st)
}

func (e *Engine) walkFieldStores(a *ssa.Alloc, f func(ssa.Value)) int {
	return e.walkFieldStoresAt(a, nil, f)
}

func (e *Engine) walkFieldStoresAt(a *ssa.Alloc, at ssa.Instruction, f func(ssa.Value)) int {
	n := 0
	for _, r := range *a.Referrers() {
		if fa, ok := r.(*ssa.FieldAddr); ok {
			for _, rr := range *fa.Referrers() {
				if st, ok := rr.(*ssa.Store); ok && st.Addr == fa && !after(at, st) {
					f(st.Val)
					n++
				}
			}
		}
		// arrays backing variadic slices: new [n]T; &t[i]; *addr = v
		if ia, ok := r.(*ssa.IndexAddr); ok {
			for _, rr := range *ia.Referrers() {
				if st, ok := rr.(*ssa.Store); ok && st.Addr == ia && !after(at, st) {
					f(st.Val)
					n++
				}
				// &t[i].F = v for struct elements
				if fa, ok := rr.(*ssa.FieldAddr); ok {
					for _, r3 := range *fa.Referrers() {
						if st, ok := r3.(*ssa.Store); ok && st.Addr == fa && !after(at, st) {
							f(st.Val)
							n++
						}
					}
				}
			}
		}
	}
	return n
}

func paramIndex(p *ssa.Parameter) int {
	for i, q := range p.Parent().Params {
		if q == p {
			return i
		}
	}
	return -1
}

// fieldName returns the selected field name of a Field/FieldAddr.
func fieldName(v ssa.Value) (string, types.Type, bool) {
	switch x := v.(type) {
	case *ssa.FieldAddr:
		st := x.X.Type().Underlying().(*types.Pointer).Elem()
		if s, ok := st.Underlying().(*types.Struct); ok {
			return s.Field(x.Field).Name(), st, true
		}
	case *ssa.Field:
		st := x.X.Type()
		if s, ok := st.Underlying().(*types.Struct); ok {
			return s.Field(x.Field).Name(), st, true
		}
	}
	return "", nil, false
}

// Describe renders an SSA value compactly for reports.
func (e *Engine) Describe(v ssa.Value) string {
	if v == nil {
		return "<nil>"
	}
	switch x := v.(type) {
	case *ssa.Parameter:
		return fmt.Sprintf("param %s of %s", x.Name(), e.FnKey(x.Parent()))
	case *ssa.Const:
		return "const " + x.String()
	case *ssa.Call:
		return "call " + strings.ReplaceAll(calleeName(x), ModPath+"/", "")
	case *ssa.FieldAddr, *ssa.Field:
		n, st, _ := fieldName(v)
		return "field " + shortTypeName(st) + "." + n
	case *ssa.UnOp:
		if x.Op == token.MUL {
			return "load(" + e.Describe(x.X) + ")"
		}
	case *ssa.Global:
		return "global " + x.Name()
	}
	return fmt.Sprintf("%T %s", v, v.Name())
}

// IsCallTo: v is a call whose callee name (method or func) equals one of names.
func IsCallNamed(v ssa.Value, names ...string) (*ssa.Call, bool) {
	c, ok := v.(*ssa.Call)
	if !ok {
		return nil, false
	}
	n := callName(c)
	for _, m := range names {
		if n == m {
			return c, true
		}
	}
	return nil, false
}

// SameExpr: structural equality of two SSA values for pure expressions (SSA has no CSE:
// `claim.GetEventNonce()` evaluated twice yields two Call values).
func SameExpr(a, b ssa.Value, depth int) bool {
	if a == b {
		return true
	}
	if a == nil || b == nil || depth <= 0 {
		return false
	}
	switch x := a.(type) {
	case *ssa.Const:
		y, ok := b.(*ssa.Const)
		if !ok {
			return false
		}
		if x.Value == nil || y.Value == nil {
			return x.Value == nil && y.Value == nil && types.Identical(x.Type(), y.Type())
		}
		return x.Value.ExactString() == y.Value.ExactString()
	case *ssa.Call:
		y, ok := b.(*ssa.Call)
		if !ok {
			return false
		}
		cx, cy := x.Common(), y.Common()
		if cx.IsInvoke() != cy.IsInvoke() {
			return false
		}
		if cx.IsInvoke() {
			if cx.Method != cy.Method || !SameExpr(cx.Value, cy.Value, depth-1) {
				return false
			}
		} else {
			fx, fy := cx.StaticCallee(), cy.StaticCallee()
			if fx == nil || fx != fy {
				bx, ok1 := cx.Value.(*ssa.Builtin)
				by, ok2 := cy.Value.(*ssa.Builtin)
				if !(ok1 && ok2 && bx.Name() == by.Name()) {
					return false
				}
			}
		}
		if len(cx.Args) != len(cy.Args) {
			return false
		}
		for i := range cx.Args {
			if isCtxType(cx.Args[i].Type()) {
				continue
			}
			if !SameExpr(cx.Args[i], cy.Args[i], depth-1) {
				return false
			}
		}
		return true
	case *ssa.BinOp:
		y, ok := b.(*ssa.BinOp)
		return ok && x.Op == y.Op && SameExpr(x.X, y.X, depth-1) && SameExpr(x.Y, y.Y, depth-1)
	case *ssa.UnOp:
		y, ok := b.(*ssa.UnOp)
		return ok && x.Op == y.Op && SameExpr(x.X, y.X, depth-1)
	case *ssa.FieldAddr:
		y, ok := b.(*ssa.FieldAddr)
		return ok && x.Field == y.Field && SameExpr(x.X, y.X, depth-1)
	case *ssa.Field:
		y, ok := b.(*ssa.Field)
		return ok && x.Field == y.Field && SameExpr(x.X, y.X, depth-1)
	case *ssa.Convert:
		y, ok := b.(*ssa.Convert)
		return ok && types.Identical(x.Type(), y.Type()) && SameExpr(x.X, y.X, depth-1)
	case *ssa.ChangeType:
		y, ok := b.(*ssa.ChangeType)
		return ok && SameExpr(x.X, y.X, depth-1)
	case *ssa.ChangeInterface:
		y, ok := b.(*ssa.ChangeInterface)
		return ok && SameExpr(x.X, y.X, depth-1)
	case *ssa.MakeInterface:
		y, ok := b.(*ssa.MakeInterface)
		return ok && SameExpr(x.X, y.X, depth-1)
	case *ssa.Extract:
		y, ok := b.(*ssa.Extract)
		return ok && x.Index == y.Index && SameExpr(x.Tuple, y.Tuple, depth-1)
	case *ssa.Slice:
		y, ok := b.(*ssa.Slice)
		return ok && SameExpr(x.X, y.X, depth-1) && SameExpr(x.Low, y.Low, depth-1) && SameExpr(x.High, y.High, depth-1)
	case *ssa.IndexAddr:
		y, ok := b.(*ssa.IndexAddr)
		return ok && SameExpr(x.X, y.X, depth-1) && SameExpr(x.Index, y.Index, depth-1)
	}
	return false
}

// stripConv removes conversions / interface changes.
func stripConv(v ssa.Value) ssa.Value {
	for {
		switch x := v.(type) {
		case *ssa.Convert:
			v = x.X
		case *ssa.ChangeType:
			v = x.X
		case *ssa.ChangeInterface:
			v = x.X
		case *ssa.MakeInterface:
			v = x.X
		default:
			return v
		}
	}
}

// plusConst: v == base + c  (c constant int); returns base, c.
func plusConst(v ssa.Value) (ssa.Value, int64, bool) {
	b, ok := stripConv(v).(*ssa.BinOp)
	if !ok || b.Op != token.ADD {
		return nil, 0, false
	}
	if c, ok := constInt(b.Y); ok {
		return b.X, c, true
	}
	if c, ok := constInt(b.X); ok {
		return b.Y, c, true
	}
	return nil, 0, false
}

// invokeOn: v is `recv.<method>()` (interface invoke or static method call); returns recv.
func methodCallOn(v ssa.Value, method string) (ssa.Value, bool) {
	c, ok := stripConv(v).(*ssa.Call)
	if !ok || callName(c) != method {
		return nil, false
	}
	a := callArgs(c)
	if len(a) == 0 {
		return nil, false
	}
	return a[0], true
}


// walkStructValueField: v is a struct value; if it is the content of a local (a load of an Alloc) calls f on every value
// stored into field i of that local — directly, or through whole-struct copies from other locals / composite literals —
// and reports true (a local that is never written is the zero value and contributes nothing). Anything else (parameters,
// call results, phis) is left to the caller.
func walkStructValueField(v ssa.Value, field int, depth int, f func(ssa.Value)) bool {
	if depth > 6 {
		return false
	}
	u, ok := v.(*ssa.UnOp)
	if !ok || u.Op != token.MUL {
		return false
	}
	a, ok := u.X.(*ssa.Alloc)
	if !ok || a.Referrers() == nil {
		return false
	}
	writes := 0
	for _, r := range *a.Referrers() {
		switch x := r.(type) {
		case *ssa.FieldAddr:
			for _, rr := range *x.Referrers() {
				if st, ok := rr.(*ssa.Store); ok && st.Addr == ssa.Value(x) {
					writes++
					if x.Field == field {
						f(st.Val)
					}
				}
			}
		case *ssa.Store:
			if x.Addr != ssa.Value(a) {
				return false // the address escapes
			}
			writes++
			if c, isC := x.Val.(*ssa.Const); isC && c.Value == nil {
				continue // zero value
			}
			if !walkStructValueField(x.Val, field, depth+1, f) {
				return false
			}
		case *ssa.UnOp, *ssa.DebugRef:
		default:
			return false // passed to a call, method receiver, …: may be written elsewhere
		}
	}
	_ = writes
	return true
}
