package main

import (
	"fmt"
	"go/constant"
	"go/token"
	"go/types"
	"sort"
	"strings"

	"golang.org/x/tools/go/ssa"
)

func init() { register("C20", "other", runC20) }

func constBool(v ssa.Value) (bool, bool) {
	c, ok := v.(*ssa.Const)
	if !ok || c.Value == nil || c.Value.Kind() != constant.Bool {
		return false, false
	}
	return constant.BoolVal(c.Value), true
}

func runC20(e *Engine, r *Report, tier string) {
	r.Explanation = "C20, structural clauses. Decided: R1 fee bypass — in the fee checker the only nil-error return that precedes the minimum-gas-price comparison is dominated by IsCheckTx and by a predicate over the transaction's own message list and gas that is the conjunction of (i) a function returning constant false as soon as one message's type URL is missing from the exempt set (comma-ok lookup, early `return false`) and false for the empty list, and (ii) len(msgs) * allowance >= gas with gas = feeTx.GetGas(); the insufficient-fee error is produced when fee < required; R2 (necessary condition) ledger of panic-capable sites in the closure of stateless validation (ValidateBasic / Validate of precompile argument structs / GetSigners / ParseMethodArgs / precompile dispatchers and RequiredGas / target and address parsing): explicit panics and Must* parsers must be discharged by the field having been validated with the non-panicking twin earlier in the same ValidateBasic, methods on math.Int fields need a dominating IsNil test, slicing of call data needs a dominating length test; R3 every precompile Run obtains its arguments through ParseMethodArgs, which calls Validate() on every success path, and slices call data only behind the dispatcher's length test; R4 the outer ante handler installs a deferred recover before dispatch. Not decided: decoders inside dependencies (protobuf, ABI, RLP)."
	r.Rule("R1", "min-fee bypass only if every message is exempt and gas within n*allowance", 5, "")
	r.Rule("R2", "panic-capable sites in stateless validation are discharged", 10, "sites in the validation closure")
	r.Rule("R3", "precompile arguments only through ParseMethodArgs -> Validate()", 20, "implementers of contract.PrecompileMethod")
	r.Rule("R4", "ante handler recovers panics", 1, "")
	r.Rule("R7", "an amount taken from precompile call data is bounded by on-chain state before it is multiplied (C11.R2 bounded-before-priced): overflow panics of the decimal type are unreachable", 1, "C11 obligations")
	{
		sub11 := NewReport("C11", "other")
		runC11(e, sub11, tier)
		for _, o := range sub11.Obls {
			if o.Rule == "R2" && strings.HasSuffix(o.Construct, " bounded") {
				r.add("R7", "C11.R2 "+o.Construct, o.Status, o.Pos, o.Detail)
			}
		}
	}
	r.Rule("R6", "a search result (-1 on a miss) is never used as a slice bound or index without a test", 0, "")
	r.Rule("R5", "parallel arrays of a decoded message / argument struct are indexed together only if its validator establishes equal lengths unconditionally", 1, "index sites bounded by another field's length")
	e.c20ParallelArrays(r)
	// R6: decoding helpers (types, contract, precompile and ante packages — the code that sees call data and message
	// fields before any state is read)
	nR6 := 0
	e.sentinelIndexSites(func(p string) bool {
		return strings.HasSuffix(p, "/types") || strings.Contains(p, "/contract") || strings.Contains(p, "/precompile") || strings.Contains(p, "/ante")
	}, func(fn *ssa.Function, at ssa.Instruction, c *ssa.Call, ok bool) {
		nR6++
		ck := e.FnKey(fn) + " " + callName(c) + " as bound"
		if ok {
			r.Ok("R6", ck, e.InstrPos(at), "the search result is compared before it is used as a bound")
		} else {
			r.Fail("R6", ck, e.InstrPos(at), "the result of "+callName(c)+" is used as a slice bound / index without any test: it is -1 when nothing is found (e.g. a 32-byte target without a zero byte), and the slice expression panics")
		}
	})
	if nR6 == 0 {
		r.Ok("R6", "search results used as bounds", "", "none in the decoding layer")
	}

	// ---------- R1 ----------
	var checker *ssa.Function
	for _, fn := range e.Funcs {
		if !strings.HasSuffix(fnPkgPath(fn), "/ante") || fn.Parent() != nil {
			continue
		}
		hasMin, hasCheck := false, false
		allCalls(fn, func(c ssa.CallInstruction) {
			if callName(c) == "MinGasPrices" {
				hasMin = true
			}
			if callName(c) == "IsCheckTx" {
				hasCheck = true
			}
		})
		if hasMin && hasCheck {
			checker = fn
		}
	}
	if checker == nil {
		r.Fail("R1", "fee checker", "", "UNRESOLVED-ANCHOR: no ante function reads MinGasPrices under IsCheckTx")
	} else {
		k := e.FnKey(checker)
		var minCall ssa.CallInstruction
		allCalls(checker, func(c ssa.CallInstruction) {
			if callName(c) == "MinGasPrices" {
				minCall = c
			}
		})
		// success returns that do not pass through the MinGasPrices call while in CheckTx: those dominated by IsCheckTx true and not reachable from minCall
		var bypassCall *ssa.Call
		nBypassRet := 0
		for _, ret := range SuccessReturns(checker) {
			inCheck := false
			for _, g := range GuardsOf(ret) {
				if c, ok := g.Cond.(*ssa.Call); ok && callName(c) == "IsCheckTx" && g.Pol {
					inCheck = true
				}
			}
			if !inCheck || canReach(minCall, ret) {
				continue
			}
			nBypassRet++
			// must be guarded by a bool call over (GetMsgs(), GetGas())
			okG := false
			for _, g := range GuardsOf(ret) {
				c, ok := g.Cond.(*ssa.Call)
				if !ok || !g.Pol || callName(c) == "IsCheckTx" {
					continue
				}
				msgsOK, gasOK := false, false
				for _, a := range callArgs(c) {
					if _, ok := methodCallOn(a, "GetMsgs"); ok {
						msgsOK = true
					}
					if _, ok := methodCallOn(a, "GetGas"); ok {
						gasOK = true
					}
				}
				if msgsOK && gasOK {
					okG = true
					bypassCall = c
				}
			}
			r.Check(okG, "R1", k+" bypass-return", e.InstrPos(ret), "the fee-free return is guarded by the bypass predicate over the tx's own messages and gas limit", "a CheckTx path returns success without the minimum-gas-price comparison and without the bypass predicate over (tx.GetMsgs(), tx.GetGas())")
		}
		if nBypassRet == 0 {
			r.Ok("R1", k+" bypass-return", e.Pos(checker.Pos()), "no fee-free return in CheckTx")
		}
		// insufficient fee -> error
		okErr := false
		allInstrs(checker, func(i ssa.Instruction) {
			iff, ok := i.(*ssa.If)
			if !ok {
				return
			}
			ci, ok := NormCond(Guard{Cond: iff.Cond, Pol: true, If: iff})
			if ok && ci.Call != nil && callName(ci.Call) == "IsAnyGTE" {
				// false branch fails
				if BranchFailsClean(iff, !strings.HasPrefix(ci.Op, "!"), nil) == false && BranchFailsClean(iff, false, nil) {
					okErr = true
				}
				if BranchFailsClean(iff, false, nil) {
					okErr = true
				}
			}
		})
		r.Check(okErr, "R1", k+" insufficient-fee", e.Pos(checker.Pos()), "fee below required -> error", "a fee below the required minimum no longer produces an error")
		// the predicate
		if bypassCall != nil {
			for _, P := range e.calleesOf(bypassCall) {
				e.checkBypassPredicate(r, P)
			}
		} else if nBypassRet > 0 {
			r.Fail("R1", "bypass predicate", "", "UNRESOLVED-ANCHOR: bypass predicate not found")
		}
	}

	// ---------- R3 ----------
	var pm *ssa.Function
	for _, fn := range e.Funcs {
		if canonName(fn.Name()) == "ParseMethodArgs" && fn.Parent() == nil && !isAuxPkg(fnPkgPath(fn)) {
			pm = fn
		}
	}
	if pm == nil {
		r.Fail("R3", "ParseMethodArgs", "", "UNRESOLVED-ANCHOR")
	} else {
		off := MustPassThrough(pm, nil, func(i ssa.Instruction) bool {
			c, ok := i.(ssa.CallInstruction)
			return ok && callName(c) == "Validate" && c.Common().IsInvoke()
		})
		okv := off == nil
		// and Validate's error is the result
		r.Check(okv, "R3", e.FnKey(pm), e.Pos(pm.Pos()), "every success path calls Validate() on the decoded arguments", "decoded precompile arguments can be returned without Validate()")
		for _, m := range e.precompileMethods() {
			if m.Run == nil {
				continue
			}
			// Run reaches ParseMethodArgs before using args; find the unpack call
			reaches := false
			for f := range e.Reach([]*ssa.Function{m.Run}, func(x *ssa.Function) bool { return !isFx(x) }) {
				if f == pm {
					reaches = true
				}
			}
			// direct use of contract.Input other than passing to Unpack: slices with constant bounds are checked in dispatcher rule
			r.Check(reaches, "R3", m.Name+" args", e.Pos(m.Run.Pos()), "arguments decoded through ParseMethodArgs", "Run does not decode its arguments through ParseMethodArgs (Validate() skipped)")
		}
	}
	// slicing of call data: every Slice of `Input`/data with constant low/high must be dominated by a length test in the dispatcher
	for _, d := range e.precompileDispatchers() {
		for _, fn := range []*ssa.Function{d.Fn, e.MethodOf(d.Fn.Signature.Recv().Type(), "RequiredGas")} {
			if fn == nil {
				continue
			}
			allInstrs(fn, func(i ssa.Instruction) {
				sl, ok := i.(*ssa.Slice)
				if !ok {
					return
				}
				hi, okh := constInt(sl.High)
				lo, okl := constInt(sl.Low)
				if !okh && !okl {
					return
				}
				need := hi
				if okl && lo > need {
					need = lo
				}
				k := e.FnKey(fn) + fmt.Sprintf(" slice[:%d]", need)
				okLen := false
				for _, g := range GuardsOf(sl) {
					ci, ok := NormCond(g)
					if !ok || ci.X == nil || ci.Y == nil {
						continue
					}
					if c, ok := ci.X.(*ssa.Call); ok {
						if b, ok := c.Common().Value.(*ssa.Builtin); ok && b.Name() == "len" {
							if z, ok := constInt(ci.Y); ok && ((ci.Op == ">" && z >= need-1) || (ci.Op == ">=" && z >= need)) {
								okLen = true
							}
						}
					}
				}
				r.Check(okLen, "R3", k, e.InstrPos(sl), "call data sliced behind a length test", "call data is sliced with a constant bound without a dominating length test: short input panics inside the EVM")
			})
		}
	}

	// ---------- R4 ----------
	okRec := false
	for _, fn := range e.Funcs {
		if !strings.HasSuffix(fnPkgPath(fn), "/ante") {
			continue
		}
		// a closure/func returning (sdk.Context, error) with a defer of Recover before any other call to a handler
		var def *ssa.Defer
		allInstrs(fn, func(i ssa.Instruction) {
			if d, ok := i.(*ssa.Defer); ok && def == nil {
				if strings.Contains(strings.ToLower(callName(d)), "recover") {
					def = d
				}
				if mc, ok := d.Common().Value.(*ssa.MakeClosure); ok {
					if f, ok := mc.Fn.(*ssa.Function); ok {
						allCalls(f, func(c ssa.CallInstruction) {
							if b, ok := c.Common().Value.(*ssa.Builtin); ok && b.Name() == "recover" {
								def = d
							}
						})
					}
				}
			}
		})
		if def == nil {
			continue
		}
		// dispatch calls (dynamic calls of handlers) dominated by the defer
		all := true
		n := 0
		allCalls(fn, func(c ssa.CallInstruction) {
			if c == ssa.CallInstruction(def) {
				return
			}
			if c.Common().StaticCallee() == nil && !c.Common().IsInvoke() {
				if _, isB := c.Common().Value.(*ssa.Builtin); !isB {
					n++
					if !Dominates(def, c) {
						all = false
					}
				}
			}
		})
		if all && n > 0 {
			okRec = true
		}
	}
	r.Check(okRec, "R4", "ante recover", "", "deferred recover dominates every handler dispatch", "the outer ante handler no longer recovers panics before dispatching")

	// ---------- R2 ----------
	e.checkValidationLedger(r)
}

func (e *Engine) checkBypassPredicate(r *Report, P *ssa.Function) {
	k := e.FnKey(P)
	// conjunction of two calls: SSA for `a() && b()`: if a() {t = b()} ; return phi(false, t)
	var calls []*ssa.Call
	allCalls(P, func(c ssa.CallInstruction) {
		if cv, ok := c.(*ssa.Call); ok && len(e.calleesOf(c)) > 0 {
			calls = append(calls, cv)
		}
	})
	okConj := false
	if len(calls) == 2 {
		// semantic form of `a() && b()`, whatever the spelling (&&, two guarded `return false`, nested ifs): every way of
		// returning something that can be true has both calls true — proven by a dominating guard on the call's value, or
		// because the returned value is that call's value itself
		okConj = true
		nTrue := 0
		provenAt := func(blk *ssa.BasicBlock, v ssa.Value) map[*ssa.Call]bool {
			out := map[*ssa.Call]bool{}
			for _, g := range GuardsOfBlock(blk) {
				cv, pol := g.Cond, g.Pol
				for {
					if u, ok := cv.(*ssa.UnOp); ok && u.Op == token.NOT {
						cv, pol = u.X, !pol
						continue
					}
					break
				}
				for _, c := range calls {
					if cv == ssa.Value(c) && pol {
						out[c] = true
					}
				}
			}
			for _, c := range calls {
				if v == ssa.Value(c) {
					out[c] = true
				}
			}
			return out
		}
		var consider func(blk *ssa.BasicBlock, v ssa.Value, depth int)
		consider = func(blk *ssa.BasicBlock, v ssa.Value, depth int) {
			if bv, ok := constBool(v); ok && !bv {
				return
			}
			if ph, ok := v.(*ssa.Phi); ok && depth < 4 {
				for idx, ed := range ph.Edges {
					consider(ph.Block().Preds[idx], ed, depth+1)
				}
				return
			}
			nTrue++
			pr := provenAt(blk, v)
			if !(pr[calls[0]] && pr[calls[1]]) {
				okConj = false
			}
		}
		for _, b := range P.Blocks {
			ret, ok := b.Instrs[len(b.Instrs)-1].(*ssa.Return)
			if !ok || len(ret.Results) != 1 {
				continue
			}
			consider(b, ret.Results[0], 0)
		}
		if nTrue == 0 {
			okConj = false
		}
	}
	r.Check(okConj, "R1", k+" conjunction", e.Pos(P.Pos()), "bypass = allExempt(msgs) && gasWithinAllowance(msgs, gas)", "the bypass predicate is no longer the conjunction of the message-type test and the gas-allowance test")
	for _, c := range calls {
		for _, f := range e.calleesOf(c) {
			if len(f.Params) >= 3 {
				// gas allowance: len(msgs) * allowance >= gas
				// every return of the predicate is the constant false or `len(msgs) * allowance >= gas` in one of its equivalent
				// spellings (operands swapped, negated strict comparison)
				isProd := func(v ssa.Value) bool {
					m, ok := stripConv(v).(*ssa.BinOp)
					if !ok || m.Op != token.MUL {
						return false
					}
					hasLen, hasField := false, false
					for _, o := range []ssa.Value{m.X, m.Y} {
						o = stripConv(o)
						if cc0, ok := o.(*ssa.Call); ok {
							if b, ok := cc0.Common().Value.(*ssa.Builtin); ok && b.Name() == "len" {
								hasLen = true
							}
						}
						if _, _, ok := fieldNameOfLoad(o); ok {
							hasField = true
						}
					}
					return hasLen && hasField
				}
				isGas := func(v ssa.Value) bool {
					_, isPar := stripConv(v).(*ssa.Parameter)
					return isPar
				}
				okG, nret := true, 0
				for _, b := range f.Blocks {
					ret, ok := b.Instrs[len(b.Instrs)-1].(*ssa.Return)
					if !ok || len(ret.Results) != 1 {
						continue
					}
					nret++
					v, pol := ret.Results[0], true
					for {
						u, isU := v.(*ssa.UnOp)
						if !isU || u.Op != token.NOT {
							break
						}
						v, pol = u.X, !pol
					}
					if bv, isC := constBool(v); isC && bv != pol {
						continue // constant false
					}
					bo, isB := v.(*ssa.BinOp)
					if !isB {
						okG = false
						continue
					}
					op := bo.Op
					if !pol {
						op = negateOp(op)
					}
					if !((op == token.GEQ && isProd(bo.X) && isGas(bo.Y)) || (op == token.LEQ && isGas(bo.X) && isProd(bo.Y))) {
						okG = false
					}
				}
				okG = okG && nret > 0
				r.Check(okG, "R1", e.FnKey(f)+" allowance", e.Pos(f.Pos()), "len(msgs) * per-message allowance >= gas", "the gas-allowance test is no longer len(msgs) * allowance >= gas limit")
			} else {
				// all-exempt: comma-ok lookup on the type URL, !ok -> return false; empty list -> false
				okLookup, okEmpty := false, false
				allInstrs(f, func(i ssa.Instruction) {
					lk, ok := i.(*ssa.Lookup)
					if !ok || !lk.CommaOk {
						return
					}
					if cc0, ok := lk.Index.(*ssa.Call); !ok || !isMsgTypeURLCall(cc0) {
						return
					}
					for _, ref := range *lk.Referrers() {
						ex, ok := ref.(*ssa.Extract)
						if !ok || ex.Index != 1 {
							continue
						}
						for _, r2 := range *ex.Referrers() {
							iff, ok := r2.(*ssa.If)
							if !ok {
								continue
							}
							nb := iff.Block().Succs[1]
							if len(nb.Instrs) > 0 {
								if ret, ok := nb.Instrs[len(nb.Instrs)-1].(*ssa.Return); ok && len(ret.Results) == 1 {
									if bv, ok := constBool(ret.Results[0]); ok && !bv {
										okLookup = true
									}
								}
							}
						}
					}
				})
				// other returns: value false unless loop ran: a phi with entry edge false
				for _, b := range f.Blocks {
					ret, ok := b.Instrs[len(b.Instrs)-1].(*ssa.Return)
					if !ok || len(ret.Results) != 1 {
						continue
					}
					if ph, ok := ret.Results[0].(*ssa.Phi); ok {
						for _, ed := range ph.Edges {
							if bv, ok := constBool(ed); ok && !bv {
								okEmpty = true
							}
						}
					}
				}
				// or: an explicit `len(msgs) == 0 -> return false` test
				for _, b := range f.Blocks {
					iff, ok := b.Instrs[len(b.Instrs)-1].(*ssa.If)
					if !ok {
						continue
					}
					bo, ok := iff.Cond.(*ssa.BinOp)
					if !ok {
						continue
					}
					isLen := func(v ssa.Value) bool {
						c, ok := v.(*ssa.Call)
						if !ok {
							return false
						}
						bi, ok := c.Call.Value.(*ssa.Builtin)
						return ok && bi.Name() == "len"
					}
					var emptyBranch *ssa.BasicBlock
					if z, ok := constInt(bo.Y); ok && isLen(bo.X) {
						switch {
						case bo.Op == token.EQL && z == 0, bo.Op == token.LSS && z == 1, bo.Op == token.LEQ && z == 0:
							emptyBranch = b.Succs[0]
						case bo.Op == token.NEQ && z == 0, bo.Op == token.GTR && z == 0, bo.Op == token.GEQ && z == 1:
							emptyBranch = b.Succs[1]
						}
					}
					if emptyBranch != nil && len(emptyBranch.Instrs) > 0 {
						if ret, ok := emptyBranch.Instrs[len(emptyBranch.Instrs)-1].(*ssa.Return); ok && len(ret.Results) == 1 {
							if bv, ok := constBool(ret.Results[0]); ok && !bv {
								okEmpty = true
							}
						}
					}
				}
				if !okLookup {
					// the two accumulating spellings: `acc = acc && ok` over every message, or a counter of exempt messages
					// compared with len(msgs)
					if l, em := allExemptAccumulated(f); l {
						okLookup = true
						okEmpty = okEmpty || em
					}
				}
				r.Check(okLookup, "R1", e.FnKey(f)+" every-message", e.Pos(f.Pos()), "a message whose type URL is not in the exempt set makes the predicate false immediately", "the message-type test does not return false for every non-exempt message (e.g. only the last message decides): a transaction mixing exempt and non-exempt messages dodges the minimum fee")
				r.Check(okEmpty, "R1", e.FnKey(f)+" empty-list", e.Pos(f.Pos()), "empty message list -> false", "an empty message list is treated as exempt")
			}
		}
	}
}

// checkValidationLedger: R2
func (e *Engine) checkValidationLedger(r *Report) {
	var roots []*ssa.Function
	for _, fn := range e.Funcs {
		if fn.Parent() != nil || isAuxPkg(fnPkgPath(fn)) {
			continue
		}
		switch fn.Name() {
		case "ValidateBasic", "Validate", "GetSigners", "ParseMethodArgs", "RequiredGas", "ParseFxTarget", "ParseAddress", "ParseTargetIBC", "ValidateEthereumAddress", "ValidateExternalAddr":
			roots = append(roots, fn)
		}
	}
	closure := e.Reach(roots, func(x *ssa.Function) bool { return !isFx(x) })
	var fns []*ssa.Function
	for f := range closure {
		if isFx(f) && !isAuxPkg(fnPkgPath(f)) {
			fns = append(fns, f)
		}
	}
	sort.Slice(fns, func(i, j int) bool { return e.FnKey(fns[i]) < e.FnKey(fns[j]) })
	r.Note("stateless-validation closure: %d functions from %d roots", len(fns), len(roots))
	d4 := map[string]string{}
	n := 0
	for _, fn := range fns {
		fn := fn
		key := e.FnKey(fn)
		// GetSigners (legacy amino path) panics by contract on invalid input after ValidateBasic; listed as a class
		allInstrs(fn, func(i ssa.Instruction) {
			switch x := i.(type) {
			case *ssa.Panic:
				n++
				ck := key + "|panic " + panicContext(x)
				if fn.Name() == "GetSigners" {
					r.Ok("R2", ck, e.InstrPos(i), "D4 class: legacy GetSigners is only called after ValidateBasic succeeded; SDK 0.50 takes signers from the proto annotation")
					return
				}
				if why, ok := d4[ck]; ok {
					r.Ok("R2", ck, e.InstrPos(i), "D4: "+why)
					return
				}
				r.Fail("R2", ck, e.InstrPos(i), "explicit panic reachable from stateless validation of untrusted input")
			case *ssa.IndexAddr, *ssa.Index:
				// a constant index into a slice or string needs a length test on that very value, here or (for a parameter) at
				// every call site inside the closure
				var X, I ssa.Value
				if ia, ok := x.(*ssa.IndexAddr); ok {
					X, I = ia.X, ia.Index
				} else {
					X, I = x.(*ssa.Index).X, x.(*ssa.Index).Index
				}
				k, isK := constInt(I)
				if !isK {
					return
				}
				switch X.Type().Underlying().(type) {
				case *types.Slice, *types.Basic:
				default:
					return // arrays and pointers to arrays have a static length
				}
				n++
				ck := fmt.Sprintf("%s|index %s[%d]", key, vkey(X, 0), k)
				if e.lengthGuarded(X, i, closure, 0) {
					r.Ok("R2", ck, e.InstrPos(i), "a test of len() of the indexed value dominates the access")
				} else {
					r.Fail("R2", ck, e.InstrPos(i), fmt.Sprintf("element %d of a byte slice / string taken from the message is read without a dominating length test (here or at a call site in the validation closure): a shorter input panics with index out of range", k))
				}
			case ssa.CallInstruction:
				nm := callName(x)
				if len(e.calleesOf(x)) > 0 {
					return
				}
				switch nm {
				case "MustAccAddressFromBech32", "MustHexDecode", "MustGetData", "MustData", "MustMemo":
					n++
					ck := key + "|" + nm
					if fn.Name() == "GetSigners" || strings.HasPrefix(fn.Name(), "Get") || strings.HasPrefix(fn.Name(), "Must") {
						r.Ok("R2", ck, e.InstrPos(i), "D4 class: accessor used after ValidateBasic validated the field with the non-panicking twin (pairs checked below)")
						return
					}
					r.Fail("R2", ck, e.InstrPos(i), "panicking parser "+nm+" called on unvalidated input inside stateless validation")
				}
				// sdk.Coins methods that read every coin's amount (Validate, IsValid, IsAllPositive, …) dereference a nil amount:
				// a coin decoded without its amount field has one. On a message field they need a per-coin IsNil test that
				// fails, not placed after the call (K-C20-3: MsgBridgeCall.ValidateBasic -> Coins.Validate panicked)
				if strings.HasSuffix(recvTypeName(x), "cosmos-sdk/types.Coins") && (nm == "Validate" || nm == "IsValid" || nm == "IsAllPositive" || nm == "IsAnyNegative") {
					args := callArgs(x)
					if len(args) == 0 {
						return
					}
					fnm, st, ok := fieldNameOfLoad(args[0])
					if !ok {
						return
					}
					n++
					ck := key + "|" + lastDot(namedTypeName(st)) + "." + fnm + "." + nm
					okNil := false
					allCalls(fn, func(c2 ssa.CallInstruction) {
						if callName(c2) != "IsNil" || Dominates(x, c2) {
							return
						}
						// the tested coin is an element of the same field
						a2 := callArgs(c2)
						if len(a2) == 0 {
							return
						}
						hit := false
						e.Slice(a2[0], SliceOpts{MaxDepth: 8, ConstLeafOK: true}, func(v ssa.Value) Verdict {
							if n2, st2, ok := fieldName(v); ok && n2 == fnm && namedTypeName(st2) == namedTypeName(st) {
								hit = true
								return Accept
							}
							return Continue
						})
						if !hit {
							return
						}
						if v2, ok := c2.(ssa.Value); ok {
							for _, ref := range *v2.Referrers() {
								if iff, ok := ref.(*ssa.If); ok && BranchFailsClean(iff, true, nil) {
									okNil = true
								}
							}
						}
					})
					r.Check(okNil, "R2", ck, e.InstrPos(i), "every coin of the field is tested with IsNil (-> error) before", "sdk.Coins."+nm+" is called on message field "+fnm+" without a per-coin IsNil test: a coin decoded without its amount field has a nil amount and the call dereferences it (panic in stateless validation)")
					return
				}
				// methods on math.Int struct fields need a dominating IsNil
				if isBigNumType(recvTypeName(x)) && (fn.Name() == "ValidateBasic" || fn.Name() == "validateBasic" || fn.Name() == "Validate") {
					args := callArgs(x)
					if len(args) == 0 {
						return
					}
					fnm, st, ok := fieldNameOfLoad(args[0])
					if !ok || nm == "IsNil" || nm == "String" {
						return
					}
					n++
					ck := key + "|" + lastDot(namedTypeName(st)) + "." + fnm + "." + nm
					okNil := false
					allCalls(fn, func(c2 ssa.CallInstruction) {
						if callName(c2) != "IsNil" || !Dominates(c2, x) {
							return
						}
						a2 := callArgs(c2)
						if len(a2) == 1 {
							if f2, _, ok := fieldNameOfLoad(a2[0]); ok && f2 == fnm {
								okNil = true
							}
						}
					})
					r.Check(okNil, "R2", ck, e.InstrPos(i), "IsNil() on the same field is evaluated first", "method "+nm+" is called on the big-integer field "+fnm+" without a preceding IsNil() test: a message with that field unset panics in ValidateBasic")
				}
			}
		})
	}
	// pairs: Must* accessor X of message type T  <->  T.ValidateBasic validates the field with the non-panicking twin
	pairs := []struct{ accessor, field, twin string }{
		{"MustData", "Data", "DecodeString"}, {"MustMemo", "Memo", "DecodeString"}, {"GetClaimer", "BridgerAddress", "AccAddressFromBech32"},
	}
	for _, T := range e.TypesImplementing(ModPath+"/x/crosschain/types", "ExternalClaim") {
		vb := e.MethodOf(T, "ValidateBasic")
		if vb == nil {
			continue
		}
		vk := e.validationKinds(vb)
		for _, p := range pairs {
			acc := e.MethodOf(T, p.accessor)
			if acc == nil {
				continue
			}
			n++
			_, named := structOf(T)
			kind, ok := vk[fieldVal{namedTypeName(named), p.field}]
			want := map[string]string{"DecodeString": langHex, "AccAddressFromBech32": langBech}[p.twin]
			r.Check(ok && kind == want, "R2", shortTypeName(T)+"."+p.accessor+" pair", e.Pos(acc.Pos()), "field "+p.field+" is validated with "+p.twin+" in ValidateBasic", "panicking accessor "+p.accessor+" has no matching validation of "+p.field+" in ValidateBasic: a claim with a malformed "+p.field+" passes validation and panics when executed")
		}
	}
	if n < 10 {
		r.Fail("R2", "ledger", "", fmt.Sprintf("UNRESOLVED-ANCHOR: only %d sites in the validation closure", n))
	}
	_ = types.Typ
}

// isMsgTypeURLCall: sdk.MsgTypeURL is a package-level function *variable*; the call is dynamic through a load of that global.
func isMsgTypeURLCall(c *ssa.Call) bool {
	if callName(c) == "MsgTypeURL" {
		return true
	}
	if u, ok := c.Common().Value.(*ssa.UnOp); ok {
		if g, ok := u.X.(*ssa.Global); ok && g.Name() == "MsgTypeURL" {
			return true
		}
	}
	return false
}

// ---------------------------------------------------------------------------------------------------------------------
// R5: parallel arrays
// ---------------------------------------------------------------------------------------------------------------------

// fieldOfBase: v is a load of base.<field>; returns (base value, field name, struct type).
func fieldOfBase(v ssa.Value) (ssa.Value, string, types.Type, bool) {
	v = stripConv(v)
	switch x := v.(type) {
	case *ssa.UnOp:
		if fa, ok := x.X.(*ssa.FieldAddr); ok && x.Op == token.MUL {
			n, st, _ := fieldName(fa)
			return fa.X, n, st, true
		}
	case *ssa.Field:
		n, st, _ := fieldName(x)
		return x.X, n, st, true
	}
	return nil, "", nil, false
}

func lenOfField(v ssa.Value) (ssa.Value, string, bool) {
	c, ok := stripConv(v).(*ssa.Call)
	if !ok {
		return nil, "", false
	}
	b, ok := c.Call.Value.(*ssa.Builtin)
	if !ok || b.Name() != "len" || len(c.Call.Args) != 1 {
		return nil, "", false
	}
	base, f, _, ok := fieldOfBase(c.Call.Args[0])
	return base, f, ok
}

func (e *Engine) c20ParallelArrays(r *Report) {
	type site struct {
		fn       *ssa.Function
		in       ssa.Instruction
		st       types.Type
		idx, bnd string
	}
	var sites []site
	for _, fn := range e.Funcs {
		if isAuxPkg(fnPkgPath(fn)) || strings.HasSuffix(fn.Pkg.Pkg.Path(), "/mock") {
			continue
		}
		allInstrs(fn, func(in ssa.Instruction) {
			var X, I ssa.Value
			switch t := in.(type) {
			case *ssa.IndexAddr:
				X, I = t.X, t.Index
			case *ssa.Index:
				X, I = t.X, t.Index
			default:
				return
			}
			base, f1, st, ok := fieldOfBase(X)
			if !ok {
				return
			}
			for _, g := range GuardsOf(in) {
				bo, ok := g.Cond.(*ssa.BinOp)
				if !ok || !g.Pol || bo.Op != token.LSS || bo.X != I {
					continue
				}
				b2, f2, ok := lenOfField(bo.Y)
				if !ok || f2 == f1 {
					continue
				}
				if b2 == base || vkey(b2, 0) == vkey(base, 0) {
					sites = append(sites, site{fn, in, st, f1, f2})
				}
			}
		})
	}
	if len(sites) == 0 {
		r.Fail("R5", "parallel-index-sites", "", "UNRESOLVED-ANCHOR: no index site bounded by the length of a sibling field was found")
		return
	}
	seen := map[string]bool{}
	for _, s := range sites {
		tn := namedTypeName(s.st)
		ck := ShortPkg(tn) + " " + s.idx + "[i] for i < len(" + s.bnd + ") in " + e.FnKey(s.fn)
		if seen[ck] {
			continue
		}
		seen[ck] = true
		named, _ := s.st.(*types.Named)
		if named == nil {
			r.Undecided("R5", ck, e.InstrPos(s.in), "indexed struct is not a named type")
			continue
		}
		how := ""
		for _, T := range []types.Type{named, types.NewPointer(named)} {
			for _, mn := range []string{"Validate", "ValidateBasic", "validateBasic"} {
				m := e.MethodOf(T, mn)
				if m == nil || how != "" {
					continue
				}
				for _, b := range m.Blocks {
					iff, ok := b.Instrs[len(b.Instrs)-1].(*ssa.If)
					if !ok {
						continue
					}
					bo, ok := iff.Cond.(*ssa.BinOp)
					if !ok || (bo.Op != token.NEQ && bo.Op != token.EQL) {
						continue
					}
					_, fa, ok1 := lenOfField(bo.X)
					_, fb, ok2 := lenOfField(bo.Y)
					if !ok1 || !ok2 || !((fa == s.idx && fb == s.bnd) || (fa == s.bnd && fb == s.idx)) {
						continue
					}
					eqSucc := b.Succs[0]
					if bo.Op == token.NEQ {
						eqSucc = b.Succs[1]
					}
					if !BranchFailsClean(iff, bo.Op == token.NEQ, nil) {
						continue
					}
					all := true
					for _, ret := range SuccessReturns(m) {
						rb := ret.Block()
						if !((rb == eqSucc || eqSucc.Dominates(rb)) && edgeDominates(b, eqSucc, rb)) {
							all = false
						}
					}
					if all {
						how = mn
					}
				}
			}
		}
		if how != "" {
			r.Ok("R5", ck, e.InstrPos(s.in), how+"() returns an error unless len("+s.idx+") == len("+s.bnd+"), on every path")
		} else {
			r.Fail("R5", ck, e.InstrPos(s.in), "element i of "+s.idx+" is read for every i below len("+s.bnd+"), but the type's validator does not establish len("+s.idx+") == len("+s.bnd+") on every accepting path: a decoded value with a shorter "+s.idx+" passes validation and the index panics")
		}
	}
}

// lengthGuarded: instruction `at` (which indexes X) is dominated by a branch condition that mentions len(X); when X is a
// parameter without such a test, every call site of the function inside `closure` must be guarded for its argument.
func (e *Engine) lengthGuarded(X ssa.Value, at ssa.Instruction, closure map[*ssa.Function]bool, depth int) bool {
	xk := vkey(X, 0)
	for _, g := range GuardsOf(at) {
		found := false
		var scan func(v ssa.Value, d int)
		scan = func(v ssa.Value, d int) {
			if v == nil || d > 4 || found {
				return
			}
			switch t := v.(type) {
			case *ssa.Call:
				if b, ok := t.Call.Value.(*ssa.Builtin); ok && b.Name() == "len" && len(t.Call.Args) == 1 {
					if t.Call.Args[0] == X || vkey(t.Call.Args[0], 0) == xk {
						found = true
					}
				}
			case *ssa.BinOp:
				scan(t.X, d+1)
				scan(t.Y, d+1)
			case *ssa.UnOp:
				scan(t.X, d+1)
			case *ssa.Convert:
				scan(t.X, d+1)
			}
		}
		scan(g.Cond, 0)
		if found {
			return true
		}
	}
	par, ok := stripConv(X).(*ssa.Parameter)
	if !ok || depth > 2 {
		return false
	}
	fn := par.Parent()
	pidx := paramIndex(par)
	n := 0
	for _, cs := range e.CallSites(fn) {
		if !closure[rootFn(cs.Caller)] && !closure[cs.Caller] {
			continue
		}
		n++
		args := cs.Call.Common().Args
		if cs.Call.Common().IsInvoke() || pidx >= len(args) {
			return false
		}
		if !e.lengthGuarded(args[pidx], cs.Call, closure, depth+1) {
			return false
		}
	}
	return n > 0
}

// allExemptAccumulated recognises, in the all-messages-exempt predicate f, the accumulating spellings of "every message's
// type URL is in the exempt set":
//
//	F-and:   acc := <init>; for … { _, ok := set[url(msg)]; acc = acc && ok }; return acc
//	F-count: n := 0; for … { if _, ok := set[url(msg)]; ok { n++ } }; return [n > 0 &&] n == len(msgs)
//
// every = the result is true only if ok held for every message; nonEmpty = it is false for the empty list.
func allExemptAccumulated(f *ssa.Function) (every, nonEmpty bool) {
	isOK := func(v ssa.Value) bool {
		ex, ok := v.(*ssa.Extract)
		if !ok || ex.Index != 1 {
			return false
		}
		lk, ok := ex.Tuple.(*ssa.Lookup)
		if !ok || !lk.CommaOk {
			return false
		}
		cc0, ok := lk.Index.(*ssa.Call)
		return ok && isMsgTypeURLCall(cc0)
	}
	isLenCall := func(v ssa.Value) bool {
		c, ok := stripConv(v).(*ssa.Call)
		if !ok {
			return false
		}
		bi, ok := c.Call.Value.(*ssa.Builtin)
		return ok && bi.Name() == "len"
	}
	guardedBy := func(b *ssa.BasicBlock, cond func(ssa.Value) bool) bool {
		for _, g := range plainGuardsOfBlock(b) {
			if g.Pol && cond(g.Cond) {
				return true
			}
		}
		// the block itself may be the branch target of the condition
		for _, p := range b.Preds {
			if iff, ok := p.Instrs[len(p.Instrs)-1].(*ssa.If); ok && p.Succs[0] == b && len(b.Preds) == 1 && cond(iff.Cond) {
				return true
			}
		}
		return false
	}
	lenPositive := func(v ssa.Value) bool {
		bo, ok := v.(*ssa.BinOp)
		if !ok {
			return false
		}
		if z, isK := constInt(bo.Y); isK && isLenCall(bo.X) {
			return (bo.Op == token.GTR && z == 0) || (bo.Op == token.NEQ && z == 0) || (bo.Op == token.GEQ && z == 1)
		}
		return false
	}
	for _, b := range f.Blocks {
		ret, ok := b.Instrs[len(b.Instrs)-1].(*ssa.Return)
		if !ok || len(ret.Results) != 1 {
			continue
		}
		// ---- F-and: returned value is a loop phi acc with edges {init, upd}; upd = phi{ok under acc, false}
		if acc, ok := ret.Results[0].(*ssa.Phi); ok {
			var init ssa.Value
			okUpd := false
			for _, ed := range acc.Edges {
				if u, ok := ed.(*ssa.Phi); ok && u != acc {
					good, hasOK := true, false
					for i, ue := range u.Edges {
						if bv, isC := constBool(ue); isC {
							if bv {
								good = false
							}
							continue
						}
						if isOK(ue) && guardedBy(u.Block().Preds[i], func(c ssa.Value) bool { return c == ssa.Value(acc) }) {
							hasOK = true
							continue
						}
						good = false
					}
					if good && hasOK {
						okUpd = true
					}
					continue
				}
				init = ed
			}
			if okUpd && init != nil {
				every = true
				if lenPositive(init) {
					nonEmpty = true
				}
				if bv, isC := constBool(init); isC && !bv {
					nonEmpty = true
				}
			}
		}
		// ---- F-count: returned value is (n == len(msgs)), possibly as phi{that under n > 0 / len > 0, false}
		var eq *ssa.BinOp
		guardPos := false
		switch x := ret.Results[0].(type) {
		case *ssa.BinOp:
			eq = x
		case *ssa.Phi:
			for i, ed := range x.Edges {
				if bo, ok := ed.(*ssa.BinOp); ok && bo.Op == token.EQL {
					eq = bo
					pb := x.Block().Preds[i]
					if guardedBy(pb, func(c ssa.Value) bool {
						if lenPositive(c) {
							return true
						}
						g, ok := c.(*ssa.BinOp)
						if !ok {
							return false
						}
						z, isK := constInt(g.Y)
						_, isPhi := g.X.(*ssa.Phi)
						return isK && isPhi && ((g.Op == token.GTR && z == 0) || (g.Op == token.GEQ && z == 1) || (g.Op == token.NEQ && z == 0))
					}) {
						guardPos = true
					}
				} else if bv, isC := constBool(ed); !isC || bv {
					eq = nil
					break
				}
			}
		}
		if eq != nil && eq.Op == token.EQL {
			cnt, other := eq.X, eq.Y
			if isLenCall(cnt) {
				cnt, other = other, cnt
			}
			ph, isPhi := stripConv(cnt).(*ssa.Phi)
			if isPhi && isLenCall(other) {
				// counter: 0 at entry, +1 only under ok
				good, hasInc := true, false
				var visit func(p *ssa.Phi, depth int)
				seen := map[*ssa.Phi]bool{}
				visit = func(p *ssa.Phi, depth int) {
					if seen[p] || depth > 4 {
						return
					}
					seen[p] = true
					for i, ed := range p.Edges {
						switch t := ed.(type) {
						case *ssa.Const:
							if z, isK := constInt(t); !isK || z != 0 {
								good = false
							}
						case *ssa.Phi:
							visit(t, depth+1)
						case *ssa.BinOp:
							one, isK := constInt(t.Y)
							base, isB := t.X.(*ssa.Phi)
							if t.Op == token.ADD && isK && one == 1 && isB && (guardedBy(t.Block(), isOK) || guardedBy(p.Block().Preds[i], isOK)) {
								hasInc = true
								visit(base, depth+1)
							} else {
								good = false
							}
						default:
							good = false
						}
					}
				}
				visit(ph, 0)
				if good && hasInc {
					every = true
					if guardPos {
						nonEmpty = true
					}
				}
			}
		}
	}
	return
}

// isBigNumType: sdk math types whose zero value (an unset proto field) holds a nil *big.Int.
func isBigNumType(t string) bool {
	return strings.HasSuffix(t, "math.Int") || strings.HasSuffix(t, "math.LegacyDec") || strings.HasSuffix(t, "math.Uint")
}
