package main

import (
	"go/types"
	"sort"
	"strings"

	"golang.org/x/tools/go/ssa"
)

// StoreOp is one direct KV-store / collections operation.
type StoreOp struct {
	Fn    *ssa.Function
	Instr ssa.CallInstruction
	Op    string          // get | has | set | delete | iter
	Fams  map[string]bool // empty = unresolved
	Key   ssa.Value       // key or prefix argument (nil for collections w/o key)
}

func (s *StoreOp) IsWrite() bool { return s.Op == "set" || s.Op == "delete" }

func isKVStoreType(t types.Type) bool {
	s := namedTypeName(t)
	return strings.HasSuffix(s, "store/types.KVStore") || strings.HasSuffix(s, "store/types.BasicKVStore") ||
		strings.HasSuffix(s, "store/prefix.Store") || strings.HasSuffix(s, "core/store.KVStore") ||
		strings.HasSuffix(s, "store/types.CacheKVStore")
}

func isCollectionsType(t types.Type) (string, bool) {
	s := namedTypeName(t)
	if i := strings.Index(s, "["); i >= 0 {
		s = s[:i]
	}
	switch s {
	case "cosmossdk.io/collections.Map", "cosmossdk.io/collections.Item", "cosmossdk.io/collections.KeySet",
		"cosmossdk.io/collections.IndexedMap", "cosmossdk.io/collections.Sequence":
		return s[strings.LastIndex(s, ".")+1:], true
	}
	return "", false
}

var kvOps = map[string]string{"Get": "get", "Has": "has", "Set": "set", "Delete": "delete",
	"Iterator": "iter", "ReverseIterator": "iter"}

var collOps = map[string]string{"Get": "get", "Has": "has", "Set": "set", "Remove": "delete", "Clear": "delete",
	"Iterate": "iter", "Walk": "iter", "IterateRaw": "iter", "Next": "set", "Peek": "get"}

// directOps computes the direct store operations of fn.
func (e *Engine) directOps(fn *ssa.Function) []*StoreOp {
	var out []*StoreOp
	allCalls(fn, func(c ssa.CallInstruction) {
		cc := c.Common()
		name := callName(c)
		// KVStore methods
		var recvT types.Type
		var recv ssa.Value
		var args []ssa.Value
		if cc.IsInvoke() {
			recvT, recv, args = cc.Value.Type(), cc.Value, cc.Args
		} else if f := cc.StaticCallee(); f != nil && f.Signature.Recv() != nil && len(cc.Args) > 0 {
			recvT, recv, args = f.Signature.Recv().Type(), cc.Args[0], cc.Args[1:]
		}
		if recvT != nil && isKVStoreType(recvT) {
			if op, ok := kvOps[name]; ok {
				so := &StoreOp{Fn: fn, Instr: c, Op: op, Fams: map[string]bool{}}
				if len(args) > 0 {
					so.Key = args[0]
					for k := range e.KeyFamilies(args[0]) {
						so.Fams[k] = true
					}
				}
				// prefix store receiver
				for k := range e.prefixStoreFam(recv, 0) {
					so.Fams[k] = true
				}
				out = append(out, so)
				return
			}
		}
		if recvT != nil {
			if _, ok := isCollectionsType(recvT); ok {
				if op, ok := collOps[name]; ok {
					so := &StoreOp{Fn: fn, Instr: c, Op: op, Fams: map[string]bool{}}
					if id := e.collFamily(recv); id != "" {
						so.Fams[id] = true
					}
					out = append(out, so)
					return
				}
			}
		}
		// iterator helper functions
		if f := cc.StaticCallee(); f != nil && f.Pkg != nil {
			full := f.String()
			if strings.HasSuffix(full, "store/types.KVStorePrefixIterator") || strings.HasSuffix(full, "store/types.KVStoreReversePrefixIterator") ||
				strings.HasSuffix(full, "KVStorePrefixIteratorPaginated") {
				so := &StoreOp{Fn: fn, Instr: c, Op: "iter", Fams: map[string]bool{}}
				if len(cc.Args) > 1 {
					so.Key = cc.Args[1]
					for k := range e.KeyFamilies(cc.Args[1]) {
						so.Fams[k] = true
					}
				}
				if len(cc.Args) > 0 {
					for k := range e.prefixStoreFam(cc.Args[0], 0) {
						so.Fams[k] = true
					}
				}
				out = append(out, so)
			}
		}
	})
	return out
}

// prefixStoreFam: if store value derives from prefix.NewStore(parent, p), families of p.
func (e *Engine) prefixStoreFam(v ssa.Value, depth int) map[string]bool {
	out := map[string]bool{}
	if v == nil || depth > 6 {
		return out
	}
	switch x := v.(type) {
	case *ssa.Call:
		if f := x.Common().StaticCallee(); f != nil && strings.HasSuffix(f.String(), "store/prefix.NewStore") && len(x.Common().Args) == 2 {
			for k := range e.KeyFamilies(x.Common().Args[1]) {
				out[k] = true
			}
			for k := range e.prefixStoreFam(x.Common().Args[0], depth+1) {
				out[k] = true
			}
		}
	case *ssa.MakeInterface:
		return e.prefixStoreFam(x.X, depth+1)
	case *ssa.ChangeInterface:
		return e.prefixStoreFam(x.X, depth+1)
	case *ssa.Phi:
		for _, ed := range x.Edges {
			for k := range e.prefixStoreFam(ed, depth+1) {
				out[k] = true
			}
		}
	case *ssa.UnOp:
		if a, ok := x.X.(*ssa.Alloc); ok {
			for _, r := range *a.Referrers() {
				if st, ok := r.(*ssa.Store); ok && st.Addr == a {
					for k := range e.prefixStoreFam(st.Val, depth+1) {
						out[k] = true
					}
				}
			}
		}
	}
	return out
}

// collFamily names a collections receiver by the struct field that holds it: "coll:<Struct>.<Field>"
func (e *Engine) collFamily(v ssa.Value) string {
	for d := 0; d < 6 && v != nil; d++ {
		switch x := v.(type) {
		case *ssa.UnOp:
			v = x.X
		case *ssa.FieldAddr:
			st := x.X.Type()
			if p, ok := st.Underlying().(*types.Pointer); ok {
				st = p.Elem()
			}
			fld := ""
			if s, ok := st.Underlying().(*types.Struct); ok {
				fld = s.Field(x.Field).Name()
			}
			// descend if nested embedded keeper
			return "coll:" + shortTypeName(st) + "." + fld
		case *ssa.Field:
			st := x.X.Type()
			fld := ""
			if s, ok := st.Underlying().(*types.Struct); ok {
				fld = s.Field(x.Field).Name()
			}
			return "coll:" + shortTypeName(st) + "." + fld
		default:
			return ""
		}
	}
	return ""
}

func shortTypeName(t types.Type) string {
	s := namedTypeName(t)
	s = strings.TrimPrefix(s, ModPath+"/")
	s = strings.TrimPrefix(s, "github.com/cosmos/cosmos-sdk/")
	return s
}

// Effects returns (memoised) direct ops of fn.
func (e *Engine) Effects(fn *ssa.Function) []*StoreOp {
	if e.effects == nil {
		e.effects = map[*ssa.Function][]*StoreOp{}
	}
	if r, ok := e.effects[fn]; ok {
		return r
	}
	r := e.directOps(fn)
	e.effects[fn] = r
	return r
}

// AllOps lists every direct store op in fx-core (non-aux optional).
func (e *Engine) AllOps(includeAux bool) []*StoreOp {
	var out []*StoreOp
	for _, fn := range e.Funcs {
		if !includeAux && isAuxPkg(fnPkgPath(fn)) {
			continue
		}
		out = append(out, e.Effects(fn)...)
	}
	return out
}

// OpsOn returns direct ops matching module/hex-prefix and op kinds ("set,delete").
func (e *Engine) OpsOn(mod, hx, ops string) []*StoreOp {
	var out []*StoreOp
	for _, so := range e.AllOps(false) {
		if !strings.Contains(ops, so.Op) {
			continue
		}
		for id := range so.Fams {
			if famMatch(id, mod, hx) {
				out = append(out, so)
				break
			}
		}
	}
	sort.Slice(out, func(i, j int) bool {
		a, b := e.FnKey(out[i].Fn), e.FnKey(out[j].Fn)
		if a != b {
			return a < b
		}
		return out[i].Instr.Pos() < out[j].Instr.Pos()
	})
	return out
}

// FuncsWithOp returns the distinct functions directly performing such ops.
func (e *Engine) FuncsWithOp(mod, hx, ops string) []*ssa.Function {
	seen := map[*ssa.Function]bool{}
	var out []*ssa.Function
	for _, so := range e.OpsOn(mod, hx, ops) {
		if !seen[so.Fn] {
			seen[so.Fn] = true
			out = append(out, so.Fn)
		}
	}
	return out
}

// TransEffects: set of "op:family" strings reachable from fn through the scoped call graph.
func (e *Engine) TransEffects(fn *ssa.Function) map[string]bool {
	if e.transEff == nil {
		e.transEff = map[*ssa.Function]map[string]bool{}
	}
	if r, ok := e.transEff[fn]; ok {
		return r
	}
	out := map[string]bool{}
	for f := range e.Reach([]*ssa.Function{fn}, nil) {
		for _, so := range e.Effects(f) {
			if len(so.Fams) == 0 {
				out[so.Op+":?"] = true
			}
			for id := range so.Fams {
				out[so.Op+":"+id] = true
			}
		}
	}
	e.transEff[fn] = out
	return out
}

// HasTransWrite reports whether fn transitively performs set/delete on a matching family.
func (e *Engine) HasTransEffect(fn *ssa.Function, mod, hx, ops string) bool {
	for k := range e.TransEffects(fn) {
		i := strings.Index(k, ":")
		if strings.Contains(ops, k[:i]) && famMatch(k[i+1:], mod, hx) {
			return true
		}
	}
	return false
}

// --- external calls (through keeper interfaces / into dependencies) ---

var readPrefixes = []string{"Get", "Has", "Is", "Iterate", "Query", "Balance", "TotalSupply", "Validate", "Logger",
	"Name", "Symbol", "Decimals", "Allowance", "BlockedAddr", "SpendableCoin", "Bech32", "Validator", "Delegation",
	"Params", "String", "Unpack", "Pack", "Bonded", "CalculateDelegationRewards", "IncrementValidatorPeriod_", "Owner",
	"ModuleAddress", "Estimate", "Len", "Codec", "ChainID", "Denom", "Event", "Address", "Key", "Stateless", "Type",
	"Gas", "Err", "Empty", "Equal", "Marshal", "Unmarshal", "Size", "Proto", "Reset", "Descriptor", "Verify", "Sign",
	"Bytes", "Route", "Caller", "Context", "Block", "Header", "Tx", "Value", "Error", "Wrap", "Cmp", "LT", "GT", "Add", "Sub", "Mul", "Quo"}

var pureCtxFuncs = map[string]bool{"UnwrapSDKContext": true, "WrapSDKContext": true, "MustUnwrapSDKContext": true,
	"NewContext": true, "WithValue": true, "Background": true, "TODO": true}

func isReadName(n string) bool {
	if pureCtxFuncs[n] {
		return true
	}
	for _, p := range readPrefixes {
		if strings.HasPrefix(n, p) {
			return true
		}
	}
	return false
}

func hasCtxParam(sig *types.Signature) bool {
	for i := 0; i < sig.Params().Len(); i++ {
		t := sig.Params().At(i).Type().String()
		if strings.HasSuffix(t, "cosmos-sdk/types.Context") || t == "context.Context" {
			return true
		}
	}
	return false
}

// isCtxType
func isCtxType(t types.Type) bool {
	s := t.String()
	return strings.HasSuffix(s, "cosmos-sdk/types.Context") || s == "context.Context"
}

// ExternalWrite: a call that leaves fx-core source, takes a context and is not a read by name.
func (e *Engine) IsExternalWrite(c ssa.CallInstruction) bool {
	cc := c.Common()
	if cc.IsInvoke() {
		if len(e.Implementers(cc.Value.Type(), cc.Method.Name())) > 0 {
			return false // resolved inside fx-core
		}
		sig := cc.Signature()
		if !hasCtxParam(sig) {
			return false
		}
		return !isReadName(cc.Method.Name())
	}
	f := cc.StaticCallee()
	if f == nil || isFx(f) {
		return false
	}
	if f.Blocks != nil && f.Synthetic != "" {
		return false
	}
	if !hasCtxParam(f.Signature) {
		return false
	}
	return !isReadName(f.Name())
}

// ---- write-effect predicate over instructions ----

func (e *Engine) directWrite(fn *ssa.Function) bool {
	for _, so := range e.Effects(fn) {
		if so.IsWrite() {
			return true
		}
	}
	w := false
	allCalls(fn, func(c ssa.CallInstruction) {
		if !w && e.IsExternalWrite(c) {
			w = true
		}
	})
	return w
}

var transWriteMemo map[*ssa.Function]bool

// TransWrites: fn (or anything it may call inside fx-core) writes state or calls an external writer.
func (e *Engine) TransWrites(fn *ssa.Function) bool {
	if transWriteMemo == nil {
		transWriteMemo = map[*ssa.Function]bool{}
	}
	if v, ok := transWriteMemo[fn]; ok {
		return v
	}
	r := false
	// follow fx-core code only: dependency bodies loaded for other rules (go-ethereum core/vm) are not traversed,
	// calls into them are classified at the call site (IsExternalWrite)
	for f := range e.Reach([]*ssa.Function{fn}, func(x *ssa.Function) bool { return !isFx(x) }) {
		if !isFx(f) {
			continue
		}
		if e.directWrite(f) {
			r = true
			break
		}
	}
	transWriteMemo[fn] = r
	return r
}

// EffectOf returns a non-empty description if instruction i may write state.
func (e *Engine) EffectOf(i ssa.Instruction) string {
	c, ok := i.(ssa.CallInstruction)
	if !ok {
		return ""
	}
	for _, so := range e.Effects(i.Parent()) {
		if so.Instr == c && so.IsWrite() {
			return "store " + so.Op
		}
	}
	if e.IsExternalWrite(c) {
		return "external " + callName(c)
	}
	cc := c.Common()
	if cc.IsInvoke() {
		for _, impl := range e.Implementers(cc.Value.Type(), cc.Method.Name()) {
			if e.TransWrites(impl) {
				return "call " + e.FnKey(impl)
			}
		}
		return ""
	}
	if f := cc.StaticCallee(); f != nil && f.Blocks != nil && (isFx(f)) {
		if e.TransWrites(f) {
			return "call " + e.FnKey(f)
		}
	}
	// closures invoked dynamically: treat MakeClosure separately (not an effect by itself)
	return ""
}

// callDirectOp: the call instruction's (static or resolved) callee directly performs `ops` on family mod:hx.
func (e *Engine) callDirectOp(c ssa.CallInstruction, mod, hx, ops string) bool {
	var cands []*ssa.Function
	cc := c.Common()
	if cc.IsInvoke() {
		cands = e.Implementers(cc.Value.Type(), cc.Method.Name())
	} else if f := cc.StaticCallee(); f != nil {
		cands = []*ssa.Function{f}
	}
	for _, f := range cands {
		for _, so := range e.Effects(f) {
			if !strings.Contains(ops, so.Op) {
				continue
			}
			for id := range so.Fams {
				if famMatch(id, mod, hx) {
					return true
				}
			}
		}
	}
	return false
}

// valueReadsFamily: v is a call to a function that directly reads (get/has) family mod:hx and writes nothing.
func (e *Engine) valueReadsFamily(v ssa.Value, mod, hx string) (*ssa.Call, bool) {
	v = stripConv(v)
	if ex, ok := v.(*ssa.Extract); ok {
		v = ex.Tuple
	}
	if u, ok := v.(*ssa.UnOp); ok {
		v = u.X
	}
	if f, ok := v.(*ssa.FieldAddr); ok {
		v = f.X
	}
	if f, ok := v.(*ssa.Field); ok {
		v = f.X
	}
	c, ok := v.(*ssa.Call)
	if !ok {
		return nil, false
	}
	if !e.callDirectOp(c, mod, hx, "get,has") {
		return nil, false
	}
	return c, true
}

// isGenesisOrUpgrade: functions that run at genesis / store migration / software upgrade, never from a transaction.
func isGenesisOrUpgrade(fn *ssa.Function) bool {
	fn = rootFn(fn)
	n := fn.Name()
	p := fnPkgPath(fn)
	if strings.Contains(n, "Genesis") || strings.Contains(p, "/app/upgrades") || strings.Contains(p, "/migrations") || strings.Contains(p, "/legacy") {
		return true
	}
	// methods of a module's store Migrator type
	if r := fn.Signature.Recv(); r != nil && strings.HasSuffix(namedTypeName(r.Type()), ".Migrator") {
		return true
	}
	return false
}
