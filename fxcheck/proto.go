package main

import (
	"os"
	"path/filepath"
	"regexp"
	"sort"
	"strings"
)

// Minimal scanner for the constructs fx-core's proto files use: message blocks (top-level),
// `option (cosmos.msg.v1.signer) = "..."`, fields, and rpc declarations.

type ProtoField struct {
	Name   string
	Type   string
	Number string
	Opts   string
}

type ProtoMsg struct {
	Name    string
	Signers []string
	Fields  []ProtoField
	File    string
}

type ProtoRPC struct{ Name, Req, Resp string }

type ProtoFile struct {
	Path     string
	Package  string
	Messages map[string]*ProtoMsg
	RPCs     []ProtoRPC
}

var (
	reMsg    = regexp.MustCompile(`^\s*message\s+(\w+)\s*\{`)
	reSigner = regexp.MustCompile(`option\s*\(cosmos\.msg\.v1\.signer\)\s*=\s*"([^"]+)"`)
	reField  = regexp.MustCompile(`^\s*(repeated\s+)?([\w\.]+)\s+(\w+)\s*=\s*(\d+)\s*(\[.*)?;?`)
	reRPC    = regexp.MustCompile(`rpc\s+(\w+)\s*\(\s*([\w\.]+)\s*\)\s*returns\s*\(\s*([\w\.]+)\s*\)`)
	rePkg    = regexp.MustCompile(`^\s*package\s+([\w\.]+)\s*;`)
)

var protoCache []*ProtoFile

func (e *Engine) ProtoFiles() []*ProtoFile {
	if protoCache != nil {
		return protoCache
	}
	var files []string
	filepath.Walk(filepath.Join(e.Repo, "proto"), func(p string, info os.FileInfo, err error) error {
		if err == nil && !info.IsDir() && strings.HasSuffix(p, ".proto") {
			files = append(files, p)
		}
		return nil
	})
	sort.Strings(files)
	for _, p := range files {
		b, err := os.ReadFile(p)
		if err != nil {
			continue
		}
		pf := &ProtoFile{Path: strings.TrimPrefix(p, e.Repo+"/"), Messages: map[string]*ProtoMsg{}}
		// strip comments
		src := regexp.MustCompile(`(?m)//.*$`).ReplaceAllString(string(b), "")
		// join rpc declarations split across lines
		joined := regexp.MustCompile(`\s*\n\s*returns`).ReplaceAllString(src, " returns")
		for _, m := range reRPC.FindAllStringSubmatch(joined, -1) {
			pf.RPCs = append(pf.RPCs, ProtoRPC{m[1], lastDot(m[2]), lastDot(m[3])})
		}
		depth := 0
		var cur *ProtoMsg
		curDepth := 0
		// statements may span lines: accumulate until ';' or '{' or '}'
		var acc string
		for _, line := range strings.Split(src, "\n") {
			if m := rePkg.FindStringSubmatch(line); m != nil {
				pf.Package = m[1]
			}
			acc += " " + strings.TrimSpace(line)
			if !strings.ContainsAny(line, ";{}") {
				continue
			}
			stmt := acc
			acc = ""
			if m := reMsg.FindStringSubmatch(stmt); m != nil && cur == nil {
				cur = &ProtoMsg{Name: m[1], File: pf.Path}
				pf.Messages[m[1]] = cur
				curDepth = depth
			} else if cur != nil && depth == curDepth+1 {
				if m := reSigner.FindStringSubmatch(stmt); m != nil {
					cur.Signers = append(cur.Signers, m[1])
				} else if m := reField.FindStringSubmatch(stmt); m != nil && m[2] != "option" && m[2] != "message" && m[2] != "reserved" {
					cur.Fields = append(cur.Fields, ProtoField{Name: m[3], Type: m[2], Number: m[4], Opts: m[5]})
				}
			}
			depth += strings.Count(stmt, "{") - strings.Count(stmt, "}")
			if cur != nil && depth <= curDepth {
				cur = nil
			}
		}
		protoCache = append(protoCache, pf)
	}
	return protoCache
}

func lastDot(s string) string {
	if i := strings.LastIndex(s, "."); i >= 0 {
		return s[i+1:]
	}
	return s
}

// ProtoMsgByName finds a message by simple name in a file whose path contains pathFrag (may be "").
func (e *Engine) ProtoMsg(name, pathFrag string) *ProtoMsg {
	for _, f := range e.ProtoFiles() {
		if pathFrag != "" && !strings.Contains(f.Path, pathFrag) {
			continue
		}
		if m := f.Messages[name]; m != nil {
			return m
		}
	}
	return nil
}
