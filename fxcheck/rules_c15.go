package main

import (
	"go/token"
	"fmt"
	"strings"

	"golang.org/x/tools/go/ssa"
)

func init() { register("C15", "other", runC15) }

func (e *Engine) rootsAtCall(v ssa.Value, names ...string) bool {
	res := e.Slice(v, SliceOpts{MaxDepth: 10, ConstLeafOK: false}, func(x ssa.Value) Verdict {
		if c, ok := x.(*ssa.Call); ok {
			for _, n := range names {
				if callName(c) == n {
					return Accept
				}
			}
		}
		return Continue
	})
	return res.AllAccepted()
}

func runC15(e *Engine, r *Report, tier string) {
	r.Explanation = "C15, structural clauses. Decided: R1 in the deposit routine the coins moved to the governance module account, the increment of Proposal.TotalDeposit and the amount of the created/updated Deposit record are the same parameter, and both the proposal and the deposit record are written on every success path after the transfer; R2 for an ended proposal in the deposit-period queue every success path of the end-block callback runs exactly one of refund / burn (they lie on exclusive branches); for an ended proposal in the voting queue every success path runs refund, burn or the expedited re-queue; the unsupported-proposal path refunds; R3 voting is activated only under `status == deposit period` and `TotalDeposit.IsAllGTE(m)` with m the result of the per-message-type minimum, which returns the default for a non-community-pool-spend first message and never less than the default; R4 the voting end time uses the per-type period getter and the tally compares against the per-type quorum getter; R5 the same-type check on the proposal's messages precedes proposal creation; R6 passed messages apply all or nothing (decided by C18.R1b at the gov site); R7 a message type URL in x/gov is never computed by applying sdk.MsgTypeURL to the packed *codectypes.Any (which always yields /google.protobuf.Any, so that no per-type parameter would ever be found); R8 MsgDeposit and MsgSubmitProposal are handled by methods fx-core's msg server defines itself, each reaches fx-core's AddDeposit, and nothing in x/gov forwards them to the embedded SDK msg server (Go embedding does not dispatch back to the overriding keeper). Not decided: arithmetic of ratios, histories over several proposals."
	r.Rule("R1", "deposit: transferred amount = TotalDeposit increment = Deposit record amount; both records written", 4, "")
	r.Rule("R2", "each ended proposal's deposits are refunded or burned exactly once (or re-queued when expedited fails)", 3, "gov end-block callbacks")
	r.Rule("R3", "voting activated only at the per-message-type minimum", 3, "")
	r.Rule("R4", "per-type voting period and quorum are the ones used", 2, "")
	r.Rule("R5", "all messages of one type before the proposal is created", 1, "")

	// ---------- R6: all-or-nothing execution of a passed proposal's messages (the C18 cached-context rules at the gov site) ----------
	r.Rule("R6", "passed proposal's messages are committed only if every one succeeded (C18.R1a-d at the gov site)", 3, "cached-context sites in x/gov")
	sub18 := NewReport("C18", "other")
	runC18(e, sub18, tier)
	for _, o := range sub18.Obls {
		if strings.HasPrefix(o.Construct, "x/gov.") && (strings.HasPrefix(o.Rule, "R1") || o.Rule == "R7") {
			r.add("R6", o.Rule+" "+o.Construct, o.Status, o.Pos, o.Detail)
		}
	}

	// ---------- R8: the deposit / submit messages go through fx-core's own deposit routine ----------
	// fx-core's gov keeper embeds the SDK keeper and overrides AddDeposit (per-type minimum, per-type voting period). Go
	// embedding has no virtual dispatch: the embedded SDK msg server calls the SDK's AddDeposit. The two messages that can add
	// a deposit must therefore be handled by fx-core's own methods, reach fx-core's AddDeposit, and never forward to the
	// embedded server's Deposit / SubmitProposal.
	r.Rule("R8", "MsgDeposit / MsgSubmitProposal are handled by fx-core's own handlers, which reach fx-core's AddDeposit and do not forward to the embedded SDK msg server", 3, "deposit-adding gov messages")
	{
		fxAdd := e.depositRoutine("x/gov/keeper")
		if fxAdd == nil {
			r.Fail("R8", "AddDeposit", "", "UNRESOLVED-ANCHOR: fx-core gov keeper has no AddDeposit")
		}
		for _, mname := range []string{"Deposit", "SubmitProposal"} {
			var own *ssa.Function
			for _, fn := range e.Funcs {
				if fn.Name() == mname && fn.Parent() == nil && fn.Synthetic == "" && strings.HasSuffix(fnPkgPath(fn), "x/gov/keeper") && fn.Signature.Recv() != nil && strings.HasSuffix(fn.Signature.Recv().Type().String(), "msgServer") {
					own = fn
				}
			}
			ck := "x/gov/keeper.msgServer." + mname
			if own == nil {
				r.Fail("R8", ck, "", "fx-core's msg server does not define "+mname+" itself: the method promoted from the embedded SDK msg server runs the SDK's deposit routine, without the per-message-type minimum deposit and voting period")
				continue
			}
			if fxAdd != nil {
				reach := e.Reach([]*ssa.Function{own}, nil)
				r.Check(reach[fxAdd], "R8", ck+" reaches AddDeposit", e.Pos(own.Pos()), "reaches fx-core's AddDeposit", mname+" does not reach fx-core's own AddDeposit: the per-message-type minimum deposit and voting period are bypassed")
			}
		}
		// no forwarding to the embedded server for these two methods, anywhere in fx-core's gov code
		nfw := 0
		for _, fn := range e.Funcs {
			if isAuxPkg(fnPkgPath(fn)) || !strings.Contains(fnPkgPath(fn), "x/gov") {
				continue
			}
			allCalls(fn, func(c ssa.CallInstruction) {
				com := c.Common()
				if !com.IsInvoke() || (com.Method.Name() != "Deposit" && com.Method.Name() != "SubmitProposal") {
					return
				}
				if !strings.HasSuffix(com.Value.Type().String(), "MsgServer") {
					return
				}
				nfw++
				r.Fail("R8", e.CanonFnKey(fn)+" forwards "+com.Method.Name(), e.InstrPos(c), "the message is forwarded to the embedded SDK msg server, whose "+com.Method.Name()+" calls the SDK keeper's AddDeposit / ActivateVotingPeriod: fx-core's per-message-type minimum deposit and voting period are bypassed")
			})
		}
		if nfw == 0 {
			r.Ok("R8", "no forwarding", "", "no call of Deposit / SubmitProposal on an embedded gov MsgServer in x/gov")
		}
	}

	// ---------- R7: the message type under which per-type parameters are looked up is the proposal message's own ----------
	r.Rule("R7", "the type URL of a proposal message is never computed from the packed Any itself", 1, "MsgTypeURL call sites in x/gov")
	{
		n7 := 0
		for _, fn := range e.Funcs {
			if isAuxPkg(fnPkgPath(fn)) || !strings.Contains(fnPkgPath(fn), "x/gov") {
				continue
			}
			allCalls(fn, func(c ssa.CallInstruction) {
				cc0, ok := c.(*ssa.Call)
				if !ok || !isMsgTypeURLCall(cc0) || len(cc0.Call.Args) != 1 {
					return
				}
				n7++
				arg := cc0.Call.Args[0]
				if mi, ok := arg.(*ssa.MakeInterface); ok {
					arg = mi.X
				}
				ck := e.FnKey(fn) + " MsgTypeURL(" + regNames.ReplaceAllString(vkey(arg, 0), "") + ")"
				isAny := strings.HasSuffix(namedTypeName(arg.Type()), "codec/types.Any")
				r.Check(!isAny, "R7", ck, e.InstrPos(c), "type URL of a message value", "sdk.MsgTypeURL is applied to the packed *codectypes.Any: the result is always /google.protobuf.Any, so per-message-type parameters (minimum deposit, voting period, quorum) are never found and the defaults apply to every proposal")
			})
		}
		if n7 == 0 {
			r.Fail("R7", "MsgTypeURL sites", "", "UNRESOLVED-ANCHOR: no MsgTypeURL call in x/gov")
		}
	}

	// ---------- R10: per-type parameters are looked up under the proposal message's own type URL ----------
	r.Rule("R10", "the key under which per-message-type parameters are looked up is the TypeUrl of one of the proposal's own (outer) messages — not a URL taken from inside a message", 1, "per-type parameter lookups for a proposal")
	{
		n10 := 0
		for _, fn := range e.Funcs {
			if isAuxPkg(fnPkgPath(fn)) || !strings.Contains(fnPkgPath(fn), "x/gov/keeper") {
				continue
			}
			// lookups on behalf of a proposal: the function (or its caller chain) has a v1.Proposal at hand
			hasProposal := false
			for _, p := range fn.Params {
				if strings.HasSuffix(namedTypeName(p.Type()), "gov/types/v1.Proposal") {
					hasProposal = true
				}
			}
			if !hasProposal {
				continue
			}
			allCalls(fn, func(c ssa.CallInstruction) {
				if callName(c) != "GetCustomParams" {
					return
				}
				args := callArgs(c)
				if len(args) < 3 {
					return
				}
				n10++
				ck := e.FnKey(fn) + " custom-params key"
				bad := ""
				res := e.Slice(args[2], SliceOpts{MaxDepth: 14, IntoCallees: true, ConstLeafOK: true}, func(v ssa.Value) Verdict {
					nm, st, ok := fieldName(v)
					if !ok || nm != "TypeUrl" || !strings.HasSuffix(namedTypeName(st), "codec/types.Any") {
						return Continue
					}
					// where does this Any come from? it must be an element of the proposal's message list
					fa, _ := v.(*ssa.FieldAddr)
					var base ssa.Value
					if fa != nil {
						base = fa.X
					} else if f, ok := v.(*ssa.Field); ok {
						base = f.X
					}
					okSrc := false
					e.Slice(base, SliceOpts{MaxDepth: 10, IntoCallees: false, IntoCallers: true, ConstLeafOK: true}, func(w ssa.Value) Verdict {
						if cc, ok := w.(*ssa.Call); ok {
							switch callName(cc) {
							case "GetMessages":
								okSrc = true
								return Accept
							case "GetContent", "GetCachedValue":
								bad = "the Any whose TypeUrl is used comes from " + callName(cc) + "(): it is an inner value of a message, not the proposal's message"
								return Reject
							}
						}
						if n2, st2, ok := fieldName(w); ok && n2 == "Messages" && strings.HasSuffix(namedTypeName(st2), "v1.Proposal") {
							okSrc = true
							return Accept
						}
						return Continue
					})
					if okSrc && bad == "" {
						return Accept
					}
					if bad == "" {
						bad = "the Any whose TypeUrl is used is not taken from the proposal's message list"
					}
					return Reject
				})
				okKey := bad == "" && res.AnyAccepted() && len(res.Rejected) == 0
				if bad == "" && !okKey {
					bad = "the key does not derive from the TypeUrl of the proposal's messages"
				}
				r.Check(okKey, "R10", ck, e.InstrPos(c), "key = TypeUrl of a proposal message", "per-message-type parameters are looked up under a different key than the type URL of the proposal's message: "+bad+" — the voting period / quorum configured for that message type never apply (or those of another type do)")
			})
		}
		if n10 == 0 {
			r.Fail("R10", "lookups", "", "UNRESOLVED-ANCHOR: no per-type parameter lookup on behalf of a proposal found")
		}
	}

	gk := "x/gov/keeper"
	// ---------- R1 ----------
	add := e.depositRoutine(gk)
	if add == nil {
		r.Fail("R1", "AddDeposit", "", "UNRESOLVED-ANCHOR")
	} else {
		var amtPar *ssa.Parameter
		for _, p := range add.Params {
			if strings.HasSuffix(p.Type().String(), "types.Coins") {
				amtPar = p
			}
		}
		var transfer ssa.CallInstruction
		allCalls(add, func(c ssa.CallInstruction) {
			if callName(c) == "SendCoinsFromAccountToModule" {
				transfer = c
			}
		})
		k := e.FnKey(add)
		if transfer == nil || amtPar == nil {
			r.Fail("R1", k, e.Pos(add.Pos()), "UNRESOLVED-ANCHOR: transfer to the gov module not found")
		} else {
			okT := false
			for _, a := range nonCtxArgs(transfer) {
				if stripConv(a) == ssa.Value(amtPar) {
					okT = true
				}
			}
			r.Check(okT, "R1", k+" transfer", e.InstrPos(transfer), "the deposit parameter is what is moved to the gov module account", "the coins moved to the gov module account are not the deposit amount")
			// TotalDeposit store
			okTD, okDep := false, 0
			allInstrs(add, func(i ssa.Instruction) {
				st, ok := i.(*ssa.Store)
				if !ok {
					return
				}
				fa, ok := st.Addr.(*ssa.FieldAddr)
				if !ok {
					return
				}
				n, _, _ := fieldName(fa)
				if n == "TotalDeposit" || n == "Amount" {
					if c, ok := stripConv(st.Val).(*ssa.Call); ok && callName(c) == "Add" {
						for _, a := range callArgs(c)[1:] {
							if e.rootsAtParam(a, amtPar) {
								if n == "TotalDeposit" {
									okTD = true
								} else {
									okDep++
								}
							}
						}
					}
				}
			})
			allCalls(add, func(c ssa.CallInstruction) {
				if callName(c) == "NewDeposit" {
					for _, a := range c.Common().Args {
						if stripConv(a) == ssa.Value(amtPar) {
							okDep++
						}
					}
				}
			})
			r.Check(okTD, "R1", k+" total", e.Pos(add.Pos()), "TotalDeposit += deposit parameter", "Proposal.TotalDeposit is not increased by exactly the transferred amount")
			r.Check(okDep >= 2, "R1", k+" record", e.Pos(add.Pos()), "existing record += deposit; new record = deposit", "the depositor's record is not credited with exactly the transferred amount (refunds would not match the escrow)")
			for _, w := range []string{"SetDeposit", "SetProposal"} {
				w := w
				off := MustPassThrough(add, transfer, func(i ssa.Instruction) bool {
					c, ok := i.(ssa.CallInstruction)
					return ok && callName(c) == w
				})
				pos := e.InstrPos(transfer)
				if off != nil {
					pos = e.InstrPos(off)
				}
				r.Check(off == nil, "R1", k+" "+w, pos, w+" on every success path after the transfer", "coins can be moved to the gov module account without "+w+": the escrow would exceed the recorded deposits")
			}
		}
	}

	// ---------- R2 ----------
	var eb *ssa.Function
	for _, fn := range e.Funcs {
		if fn.Name() == "EndBlocker" && strings.HasSuffix(fnPkgPath(fn), "x/gov") && fn.Parent() == nil {
			eb = fn
		}
	}
	if eb == nil {
		r.Fail("R2", "gov EndBlocker", "", "UNRESOLVED-ANCHOR")
	} else {
		isNamed := func(names ...string) func(ssa.Instruction) bool {
			return func(i ssa.Instruction) bool {
				c, ok := i.(ssa.CallInstruction)
				if !ok {
					return false
				}
				for _, n := range names {
					if callName(c) == n {
						return true
					}
					for _, f := range e.calleesOf(c) {
						// a helper of the package that itself refunds on every success path
						if n == "RefundAndDeleteDeposits" && f.Parent() == nil && strings.HasSuffix(fnPkgPath(f), "x/gov") && callsNamed(f, "RefundAndDeleteDeposits") &&
							MustPassThrough(f, nil, func(i2 ssa.Instruction) bool {
								c2, ok := i2.(ssa.CallInstruction)
								return ok && callName(c2) == "RefundAndDeleteDeposits"
							}) == nil {
							return true
						}
					}
				}
				return false
			}
		}
		ncb := 0
		for _, cb := range eb.AnonFuncs {
			var refund, burn, requeue ssa.CallInstruction
			allCalls(cb, func(c ssa.CallInstruction) {
				switch callName(c) {
				case "RefundAndDeleteDeposits":
					refund = c
				case "DeleteAndBurnDeposits":
					burn = c
				case "Set":
					if strings.Contains(e.collFamily(callArgs(c)[0]), "ActiveProposalsQueue") {
						requeue = c
					}
				}
			})
			if refund == nil && burn == nil {
				continue
			}
			ncb++
			k := e.FnKey(cb)
			settle := []string{"RefundAndDeleteDeposits", "DeleteAndBurnDeposits"}
			var pred func(ssa.Instruction) bool
			if requeue != nil {
				base := isNamed(settle...)
				pred = func(i ssa.Instruction) bool { return base(i) || i == ssa.Instruction(requeue) }
			} else {
				pred = isNamed(settle...)
			}
			off := MustPassThroughPS(cb, nil, pred)
			pos := e.Pos(cb.Pos())
			if off != nil {
				pos = e.InstrPos(off)
			}
			r.Check(off == nil, "R2", k+" settled", pos, "every success path refunds, burns"+pick(requeue != nil, " or re-queues (expedited failed)", ""), "an ended proposal can be processed without its deposits being refunded or burned: the coins stay in the gov module account with no open proposal")
			if refund != nil && burn != nil {
				r.Check(!canReach(refund, burn) && !canReach(burn, refund), "R2", k+" once", e.InstrPos(refund), "refund and burn lie on exclusive branches", "a path runs both the refund and the burn of the same proposal's deposits")
			}
			// errors propagate
			okE := true
			for _, c := range []ssa.CallInstruction{refund, burn} {
				if c != nil {
					if ok, _ := errorHandled(c); !ok {
						okE = false
					}
				}
			}
			r.Check(okE, "R2", k+" errors", e.Pos(cb.Pos()), "refund/burn errors abort", "a failing refund/burn is ignored")
		}
		if ncb < 2 {
			r.Fail("R2", "callbacks", e.Pos(eb.Pos()), fmt.Sprintf("UNRESOLVED-ANCHOR: %d end-block callbacks settle deposits (deposit-period and voting-period queues expected)", ncb))
		}
		// failUnsupportedProposal refunds
		for _, fn := range e.Funcs {
			if fn.Parent() == nil && fn.Name() != "EndBlocker" && strings.HasSuffix(fnPkgPath(fn), "x/gov") && callsNamed(fn, "RefundAndDeleteDeposits") {
				off := MustPassThrough(fn, nil, func(i ssa.Instruction) bool {
					c, ok := i.(ssa.CallInstruction)
					return ok && callName(c) == "RefundAndDeleteDeposits"
				})
				r.Check(off == nil, "R2", e.FnKey(fn), e.Pos(fn.Pos()), "unsupported proposal: deposits refunded on every success path", "an undecodable proposal is failed without refunding its deposits")
			}
		}
	}

	// ---------- R3 ----------
	if add != nil {
		var act ssa.CallInstruction
		allCalls(add, func(c ssa.CallInstruction) {
			if callName(c) == "ActivateVotingPeriod" {
				act = c
			}
		})
		k := e.FnKey(add)
		if act == nil {
			r.Fail("R3", k+" activation", e.Pos(add.Pos()), "UNRESOLVED-ANCHOR: no activation call in the deposit routine")
		} else {
			okMin, okStatus := false, false
			for _, g := range GuardsOf(act) {
				ci, ok := NormCond(g)
				if !ok {
					continue
				}
				if ci.Call != nil && callName(ci.Call) == "IsAllGTE" && ci.Op == "call:IsAllGTE" {
					a := callArgs(ci.Call)
					if pm := e.perTypeMinimumFn(gk); len(a) == 2 && pm != nil && e.rootsAtCall(a[1], pm.Name()) {
						tot := e.Slice(a[0], SliceOpts{MaxDepth: 8, ThroughCalls: true}, func(x ssa.Value) Verdict {
							if n, _, ok := fieldName(x); ok && n == "TotalDeposit" {
								return Accept
							}
							return Continue
						})
						if tot.AnyAccepted() {
							okMin = true
						}
					}
				}
				if ci.Op == "==" && ci.X != nil {
					if n, _, ok := fieldNameOfLoad(ci.X); ok && n == "Status" {
						okStatus = true
					}
				}
			}
			r.Check(okMin, "R3", k+" minimum", e.InstrPos(act), "activation requires TotalDeposit.IsAllGTE(per-message-type minimum)", "voting can start without the total deposit reaching the minimum applicable to the proposal's message type (e.g. IsAnyGTE, or the default minimum instead of the per-type one)")
			r.Check(okStatus, "R3", k+" status", e.InstrPos(act), "activation only from the deposit period", "voting period can be (re)activated for a proposal that is not in its deposit period")
		}
	}
	// ---------- R9: the default minimum that enters the threshold comes from parameters as stored ----------
	// v1.Params is passed by value but its coin slices alias: validateInitialDeposit scales params.MinDeposit[i].Amount in
	// place (as the SDK does). The deposit routine must take the minimum from parameters read from the store and not handed
	// to such a mutator before — in the routine, or (when they arrive as a parameter) at every call site.
	r.Rule("R9", "the parameters the activation threshold is taken from are read from the store and not mutated before (aliased coin slices)", 1, "source of the default minimum in the deposit routine")
	if add != nil {
		var src ssa.Value
		var at ssa.Instruction
		allCalls(add, func(c ssa.CallInstruction) {
			if callName(c) == "GetMinDepositFromParams" || callName(c) == "GetMinDeposit" {
				for _, a := range c.Common().Args {
					if strings.HasSuffix(a.Type().String(), "v1.Params") {
						src, at = a, c
					}
				}
			}
		})
		ck := e.CanonFnKey(add) + " threshold-params"
		if src == nil {
			r.Fail("R9", ck, e.Pos(add.Pos()), "UNRESOLVED-ANCHOR: the deposit routine does not take the default minimum from a v1.Params value")
		} else if why := e.paramsFresh(src, at, 0); why != "" {
			r.Fail("R9", ck, e.InstrPos(at), "the minimum deposit that gates the voting period is taken from parameters that "+why+": the threshold is not the configured minimum")
		} else {
			r.Ok("R9", ck, e.InstrPos(at), "parameters read from the store, not handed to a function that rewrites their coin slices before")
		}
	}

	md := e.perTypeMinimumFn(gk)
	if md == nil {
		r.Fail("R3", "per-type minimum", "", "UNRESOLVED-ANCHOR")
	} else {
		var defPar *ssa.Parameter
		for _, p := range md.Params {
			if strings.HasSuffix(p.Type().String(), "types.Coins") {
				defPar = p
			}
		}
		// every success return is the default or is guarded by !IsAllLT(default)
		okAll := true
		for _, ret := range SuccessReturns(md) {
			rv := ret.Results[0]
			if stripConv(rv) == ssa.Value(defPar) {
				continue
			}
			okRet := false
			for _, g := range GuardsOf(ret) {
				ci, ok := NormCond(g)
				if ok && ci.Call != nil && callName(ci.Call) == "IsAllLT" && ci.Op == "!call:IsAllLT" {
					a := callArgs(ci.Call)
					if len(a) == 2 && stripConv(a[1]) == ssa.Value(defPar) && a[0] == rv {
						okRet = true
					}
				}
			}
			if !okRet {
				okAll = false
			}
		}
		r.Check(okAll && defPar != nil, "R3", e.FnKey(md), e.Pos(md.Pos()), "returns the default, or a ratio-based minimum that is not below the default", "the per-message-type minimum can be lower than the default minimum deposit")
	}

	// ---------- R4 ----------
	av := e.Method(gk, "Keeper", "ActivateVotingPeriod")
	if av == nil {
		r.Fail("R4", "ActivateVotingPeriod", "", "UNRESOLVED-ANCHOR")
	} else {
		okP := false
		allInstrs(av, func(i ssa.Instruction) {
			st, ok := i.(*ssa.Store)
			if !ok {
				return
			}
			fa, ok := st.Addr.(*ssa.FieldAddr)
			if !ok {
				return
			}
			if n, _, _ := fieldName(fa); n != "VotingEndTime" {
				return
			}
			hit := false
			e.Slice(st.Val, SliceOpts{MaxDepth: 10, ThroughCalls: true, At: i}, func(x ssa.Value) Verdict {
				if c, ok := x.(*ssa.Call); ok && callName(c) == "GetCustomMsgVotingPeriod" {
					hit = true
					return Accept
				}
				return Continue
			})
			if hit {
				okP = true
			}
		})
		r.Check(okP, "R4", e.FnKey(av)+" period", e.Pos(av.Pos()), "voting end time = start + per-type voting period (default only as fallback)", "the voting end time does not use the voting period configured for the proposal's message type")
	}
	tl := e.Method(gk, "Keeper", "Tally")
	if tl == nil {
		r.Fail("R4", "Tally", "", "UNRESOLVED-ANCHOR")
	} else {
		okQ := false
		partial := ""
		allCalls(tl, func(c ssa.CallInstruction) {
			if callName(c) != "LT" {
				return
			}
			a := callArgs(c)
			if len(a) != 2 {
				return
			}
			hit := false
			e.Slice(a[1], SliceOpts{MaxDepth: 8, ThroughCalls: true}, func(x ssa.Value) Verdict {
				if cc0, ok := x.(*ssa.Call); ok && callName(cc0) == "GetCustomMsgQuorum" {
					hit = true
					return Accept
				}
				return Continue
			})
			if hit {
				okQ = true
				// participation = all voting power that was cast / bonded: the dividend is the plain accumulator of the
				// votes, not an expression that takes some option's votes out of it
				if q, ok := stripConv(a[0]).(*ssa.Call); ok && strings.HasPrefix(callName(q), "Quo") {
					if qa := callArgs(q); len(qa) == 2 {
						dk := regNames.ReplaceAllString(vkey(qa[0], 0), "")
						if strings.Contains(dk, "Sub(") || strings.Contains(dk, "-") {
							partial = dk
						}
					}
				}
			}
		})
		if okQ {
			r.Check(partial == "", "R4", e.FnKey(tl)+" participation", e.Pos(tl.Pos()), "the participation compared with the quorum is the whole voting power that was cast", "the participation compared with the quorum is "+partial+": votes of some option (e.g. abstain) no longer count towards the quorum, so a proposal that reached its quorum is ended for lack of it")
		}
		r.Check(okQ, "R4", e.FnKey(tl)+" quorum", e.Pos(tl.Pos()), "participation is compared with the per-type quorum", "the tally does not compare participation with the quorum configured for the proposal's message type")
	}

	// ---------- R5 ----------
	var sub *ssa.Function
	for _, h := range e.MsgHandlers() {
		if h.Req.Obj().Name() == "MsgSubmitProposal" && strings.Contains(fnPkgPath(h.Fn), gk) {
			sub = h.Fn
		}
	}
	if sub == nil {
		r.Fail("R5", "SubmitProposal", "", "UNRESOLVED-ANCHOR")
	} else {
		var chk, create ssa.CallInstruction
		allCalls(sub, func(c ssa.CallInstruction) {
			if callName(c) == "checkProposalMsgs" {
				chk = c
			}
			if callName(c) == "SubmitProposal" {
				create = c
			}
		})
		ok := chk != nil && create != nil && Dominates(chk, create)
		if ok {
			ok, _ = errorHandled(chk)
		}
		r.Check(ok, "R5", e.FnKey(sub), e.Pos(sub.Pos()), "same-type check (error-checked) dominates proposal creation", "a proposal can be created before/without the check that all of its messages are of one type")
		// the check itself compares type URLs of consecutive messages
		if chk != nil {
			for _, f := range e.calleesOf(chk) {
				okC := false
				allInstrs(f, func(i ssa.Instruction) {
					if iff, ok := i.(*ssa.If); ok {
						ci, ok := NormCond(Guard{Cond: iff.Cond, Pol: true, If: iff})
						if ok && ci.Call != nil && callName(ci.Call) == "EqualFold" {
							if BranchFailsClean(iff, false, nil) {
								okC = true
							}
						}
					}
				})
				r.Check(okC, "R5", e.FnKey(f), e.Pos(f.Pos()), "a differing type URL returns an error", "the same-type check no longer fails on differing message types")
				// ... and it looks at every message: the loop runs over the whole list (range, or an index bounded by
				// len(msgs) itself starting at 0 or 1)
				whole, why := loopCoversWholeSlice(f)
				r.Check(whole, "R5", e.FnKey(f)+" all-messages", e.Pos(f.Pos()), "the comparison loop covers the whole message list", "the same-type check does not look at every message ("+why+"): a proposal whose unchecked message has another type is accepted, and deposit minimum, voting period and quorum are taken from the first message's type only")
			}
		}
	}
}

// perTypeMinimumFn: the gov keeper method computing the minimum deposit applicable to a proposal's message type —
// by name, or (renamed) the method of the package taking the default sdk.Coins and the proposal and returning sdk.Coins.
func (e *Engine) perTypeMinimumFn(gk string) *ssa.Function {
	if md := e.Method(gk, "Keeper", "GetMinDepositAmountFromProposalMsgs"); md != nil {
		return md
	}
	return e.findFn(func(f *ssa.Function) bool {
		if !strings.HasSuffix(fnPkgPath(f), gk) || f.Signature.Recv() == nil || f.Signature.Results().Len() != 2 || !isCoinsType(f.Signature.Results().At(0).Type()) {
			return false
		}
		hasCoins, hasProp := false, false
		for _, p := range f.Params {
			if isCoinsType(p.Type()) {
				hasCoins = true
			}
			if strings.HasSuffix(p.Type().String(), "v1.Proposal") {
				hasProp = true
			}
		}
		return hasCoins && hasProp
	})
}

// depositRoutine: the gov keeper function that both moves a deposit into the module account and can activate the voting
// period (found by its operations, so that a wrapper named AddDeposit delegating to it does not hide it).
func (e *Engine) depositRoutine(gk string) *ssa.Function {
	var out *ssa.Function
	for _, fn := range e.Funcs {
		if fn.Parent() != nil || !strings.HasSuffix(fnPkgPath(fn), gk) || isAuxPkg(fnPkgPath(fn)) {
			continue
		}
		send, act := false, false
		allCalls(fn, func(c ssa.CallInstruction) {
			switch callName(c) {
			case "SendCoinsFromAccountToModule":
				send = true
			case "ActivateVotingPeriod":
				act = true
			}
		})
		if send && act {
			out = fn
		}
	}
	return out
}

// mutatesParamsSlices: f stores into an element of a slice that is a field of one of its v1.Params parameters; returns the
// parameter indexes.
func (e *Engine) mutatesParamsSlices(f *ssa.Function) map[int]bool {
	out := map[int]bool{}
	if f.Blocks == nil {
		return out
	}
	allInstrs(f, func(i ssa.Instruction) {
		st, ok := i.(*ssa.Store)
		if !ok {
			return
		}
		// address: (FieldAddr of)* IndexAddr(X, _)
		a := st.Addr
		for {
			if fa, ok := a.(*ssa.FieldAddr); ok {
				a = fa.X
				continue
			}
			break
		}
		ia, ok := a.(*ssa.IndexAddr)
		if !ok {
			return
		}
		for pi, p := range f.Params {
			if !strings.HasSuffix(p.Type().String(), "v1.Params") {
				continue
			}
			res := e.Slice(ia.X, SliceOpts{MaxDepth: 8}, func(x ssa.Value) Verdict {
				if x == ssa.Value(p) {
					return Accept
				}
				return Continue
			})
			if res.AnyAccepted() {
				out[pi] = true
			}
		}
	})
	return out
}

// paramsFresh: "" when the v1.Params value v used at `at` was read from the store (collections Item.Get) and was not handed
// to a function that rewrites its coin slices on a path to `at`; otherwise the reason.
func (e *Engine) paramsFresh(v ssa.Value, at ssa.Instruction, depth int) string {
	fn := at.Parent()
	vk := vkey(v, 0)
	// a mutator call on the same value that can run before `at`
	bad := ""
	allCalls(fn, func(c ssa.CallInstruction) {
		if c == at || bad != "" {
			return
		}
		for _, cal := range e.calleesOf(c) {
			mut := e.mutatesParamsSlices(cal)
			for ai, a := range c.Common().Args {
				if mut[ai] && sameParamsValue(a, v, vk) && (Dominates(c, at) || canReach(c, at)) {
					bad = "were handed to " + e.FnKey(cal) + " before, which rewrites elements of their coin slices in place (the slices are shared with the caller's copy)"
				}
			}
		}
	})
	if bad != "" {
		return bad
	}
	// origin
	fromStore, fromParam := false, (*ssa.Parameter)(nil)
	e.Slice(v, SliceOpts{MaxDepth: 6}, func(x ssa.Value) Verdict {
		if c, ok := x.(*ssa.Call); ok && callName(c) == "Get" && strings.Contains(recvTypeName(c), "collections.Item") {
			fromStore = true
			return Accept
		}
		if p, ok := x.(*ssa.Parameter); ok && strings.HasSuffix(p.Type().String(), "v1.Params") {
			fromParam = p
			return Accept
		}
		return Continue
	})
	if fromStore && fromParam == nil {
		return ""
	}
	if fromParam == nil || depth > 2 {
		return "are not read from the parameter store"
	}
	pidx := paramIndex(fromParam)
	n := 0
	for _, cs := range e.CallSites(fromParam.Parent()) {
		if isAuxPkg(fnPkgPath(cs.Caller)) {
			continue
		}
		n++
		args := cs.Call.Common().Args
		if cs.Call.Common().IsInvoke() || pidx >= len(args) {
			return "reach it through a dynamic call"
		}
		if why := e.paramsFresh(args[pidx], cs.Call, depth+1); why != "" {
			return "at the call in " + e.FnKey(cs.Caller) + " " + why
		}
	}
	if n == 0 {
		return "arrive as a parameter of a function without call sites"
	}
	return ""
}

// sameParamsValue: a and v denote the same v1.Params value — the same SSA value, or two loads of one local variable.
func sameParamsValue(a, v ssa.Value, vk string) bool {
	if a == v {
		return true
	}
	la, ok1 := a.(*ssa.UnOp)
	lv, ok2 := v.(*ssa.UnOp)
	if ok1 && ok2 && la.X == lv.X {
		if _, isAlloc := la.X.(*ssa.Alloc); isAlloc {
			return true
		}
	}
	return false
}

// loopCoversWholeSlice: f has a loop over one of its slice parameters whose header is `i < len(param)` (or the rotated
// range form `i+1 < len(param)` with i starting at -1) with the index starting at 0 or 1 and stepping by 1.
func loopCoversWholeSlice(f *ssa.Function) (bool, string) {
	why := "no loop over the list found"
	for _, b := range f.Blocks {
		iff, ok := b.Instrs[len(b.Instrs)-1].(*ssa.If)
		if !ok {
			continue
		}
		bo, ok := iff.Cond.(*ssa.BinOp)
		if !ok || bo.Op != token.LSS {
			continue
		}
		// a loop header: the block is reachable from its own true successor
		if _, loop := loopOf(b); loop == nil {
			continue
		}
		lc, isLen := bo.Y.(*ssa.Call)
		if !isLen {
			why = "the loop bound is not len(list) itself"
			continue
		}
		bi, isB := lc.Call.Value.(*ssa.Builtin)
		if !isB || bi.Name() != "len" || len(lc.Call.Args) != 1 {
			why = "the loop bound is not len(list) itself"
			continue
		}
		if _, isPar := stripConv(lc.Call.Args[0]).(*ssa.Parameter); !isPar {
			why = "the loop does not run over the list parameter"
			continue
		}
		// index: phi(start, idx+1) or (phi(-1, ·) + 1) in the range form
		idx := bo.X
		start := int64(99)
		if add, ok := idx.(*ssa.BinOp); ok && add.Op == token.ADD {
			if one, ok := constInt(add.Y); ok && one == 1 {
				if ph, ok := add.X.(*ssa.Phi); ok {
					for _, ed := range ph.Edges {
						if k, ok := constInt(ed); ok {
							start = k + 1
						}
					}
				}
			}
		} else if ph, ok := idx.(*ssa.Phi); ok {
			for _, ed := range ph.Edges {
				if k, ok := constInt(ed); ok {
					start = k
				}
			}
		}
		if start == 0 || start == 1 {
			return true, ""
		}
		why = "the loop index does not start at the first or second element"
	}
	return false, why
}
