package main

import (
	"fmt"
	"go/ast"
	"go/token"
	"go/types"
	"os"
	"sort"
	"strings"

	"golang.org/x/tools/go/packages"
	"golang.org/x/tools/go/ssa"
	"golang.org/x/tools/go/ssa/ssautil"
)

const ModPath = "github.com/functionx/fx-core/v8"

// Dependency packages whose *bodies* some rule reads (loaded from source, SSA built).
var depBodyPkgs = []string{
	"github.com/cosmos/cosmos-sdk/x/staking/types",
	"github.com/cosmos/cosmos-sdk/x/distribution/types",
	"github.com/ethereum/go-ethereum/core/vm",
}

// Engine holds the type-checked, SSA-built program for /repo's current tree.
type Engine struct {
	Repo     string
	Fset     *token.FileSet
	Pkgs     []*packages.Package // all loaded roots (fx-core + depBodyPkgs)
	ByPath   map[string]*packages.Package
	Prog     *ssa.Program
	SSA      map[string]*ssa.Package
	Funcs    []*ssa.Function // every fx-core non-test source function incl. closures
	DepFuncs []*ssa.Function // source functions of depBodyPkgs
	fnByKey  map[string]*ssa.Function

	// lazily built parts
	fams      *famTable
	cg        *CallGraph
	effects   map[*ssa.Function][]*StoreOp
	transEff  map[*ssa.Function]map[string]bool
	implCache map[string][]*ssa.Function
	astFn     map[*ssa.Function]ast.Node
}

// excluded from "consensus code": mocks, test utilities, generated legacy
func isAuxPkg(path string) bool {
	for _, s := range []string{"/mock", "/testutil", "/tests", "/simulation", "/client", "/cmd", "/docs", "/develop"} {
		if strings.Contains(path, s) {
			return true
		}
	}
	return false
}

func Load(repo string, overlay map[string][]byte) (*Engine, error) {
	os.Unsetenv("GOWORK")
	cfg := &packages.Config{
		Mode:    packages.LoadSyntax,
		Dir:     repo,
		Overlay: overlay,
		Env: append(os.Environ(), "GOFLAGS=-mod=mod", "GOPROXY=off", "GOSUMDB=off",
			"GOTOOLCHAIN=local", "GOWORK=off"),
	}
	if len(overlay) > 0 || os.Getenv("FXCHECK_SRCDEPS") != "" {
		// with edited sources, type-check the dependencies from source as well: `go list -export` would compile every
		// package downstream of the edit into the build cache (hundreds of MB per edited variant)
		cfg.Mode |= packages.NeedDeps
	}
	patterns := append([]string{"./..."}, depBodyPkgs...)
	pkgs, err := packages.Load(cfg, patterns...)
	if err != nil {
		return nil, fmt.Errorf("packages.Load: %w", err)
	}
	if len(pkgs) == 0 {
		return nil, fmt.Errorf("no packages loaded")
	}
	nerr := 0
	var first string
	for _, p := range pkgs {
		for _, e := range p.Errors {
			nerr++
			if first == "" {
				first = e.Error()
			}
		}
	}
	if nerr > 0 {
		return nil, fmt.Errorf("%d load/type errors, first: %s", nerr, first)
	}
	e := &Engine{Repo: repo, Pkgs: pkgs, ByPath: map[string]*packages.Package{}, SSA: map[string]*ssa.Package{},
		fnByKey: map[string]*ssa.Function{}, implCache: map[string][]*ssa.Function{}}
	e.Fset = pkgs[0].Fset
	flagEngine = e
	prog, spkgs := ssautil.Packages(pkgs, ssa.InstantiateGenerics)
	prog.Build()
	e.Prog = prog
	nfx := 0
	for i, p := range pkgs {
		e.ByPath[p.PkgPath] = p
		if spkgs[i] != nil {
			e.SSA[p.PkgPath] = spkgs[i]
		}
		if strings.HasPrefix(p.PkgPath, ModPath) {
			nfx++
		}
	}
	if nfx < 40 {
		return nil, fmt.Errorf("only %d fx-core packages loaded (expected >= 40)", nfx)
	}
	// enumerate functions
	all := ssautil.AllFunctions(prog)
	for fn := range all {
		if fn.Blocks == nil || fn.Pkg == nil {
			continue
		}
		pp := fn.Pkg.Pkg.Path()
		if fn.Synthetic != "" && fn.Parent() == nil {
			// wrappers/thunks/bound methods: skip; package init kept out
			continue
		}
		if strings.HasPrefix(pp, ModPath) {
			e.Funcs = append(e.Funcs, fn)
		} else if _, ok := e.SSA[pp]; ok {
			e.DepFuncs = append(e.DepFuncs, fn)
		}
	}
	sort.Slice(e.Funcs, func(i, j int) bool { return e.FnKey(e.Funcs[i]) < e.FnKey(e.Funcs[j]) })
	sort.Slice(e.DepFuncs, func(i, j int) bool { return e.FnKey(e.DepFuncs[i]) < e.FnKey(e.DepFuncs[j]) })
	for _, f := range e.Funcs {
		e.fnByKey[e.FnKey(f)] = f
	}
	for _, f := range e.DepFuncs {
		e.fnByKey[e.FnKey(f)] = f
	}
	if len(e.Funcs) < 500 {
		return nil, fmt.Errorf("only %d fx-core functions (expected >= 500)", len(e.Funcs))
	}
	e.buildAliases()
	return e, nil
}

// FnKey is a stable, line-independent name: pkg/path.(Recv).Method or pkg/path.Func[$n for closures]
func (e *Engine) FnKey(fn *ssa.Function) string {
	if fn == nil {
		return "<nil>"
	}
	s := fn.String()
	s = strings.ReplaceAll(s, ModPath+"/", "")
	return s
}

// ShortPkg strips the module prefix.
func ShortPkg(path string) string {
	return strings.TrimPrefix(strings.TrimPrefix(path, ModPath), "/")
}

func (e *Engine) Pos(p token.Pos) string {
	if !p.IsValid() {
		return "-"
	}
	pos := e.Fset.Position(p)
	f := strings.TrimPrefix(pos.Filename, e.Repo+"/")
	return fmt.Sprintf("%s:%d", f, pos.Line)
}

func (e *Engine) InstrPos(i ssa.Instruction) string {
	if i == nil {
		return "-"
	}
	if p := i.Pos(); p.IsValid() {
		return e.Pos(p)
	}
	// fall back to the function
	if fn := i.Parent(); fn != nil {
		return e.Pos(fn.Pos())
	}
	return "-"
}

// Fn looks a function up by key suffix (unique match required).
func (e *Engine) Fn(key string) *ssa.Function {
	if f, ok := e.fnByKey[key]; ok {
		return f
	}
	return nil
}

// Method returns the method `name` on named type pkg.typ (value or pointer receiver).
func (e *Engine) Method(pkgSuffix, typ, name string) *ssa.Function {
	if f := e.method0(pkgSuffix, typ, name); f != nil {
		return f
	}
	for cur, canon := range aliasName {
		if canon == name {
			if f := e.method0(pkgSuffix, typ, cur); f != nil {
				return f
			}
		}
	}
	return nil
}

func (e *Engine) method0(pkgSuffix, typ, name string) *ssa.Function {
	p := e.ByPath[ModPath+"/"+pkgSuffix]
	if p == nil {
		p = e.ByPath[pkgSuffix]
	}
	if p == nil {
		return nil
	}
	obj := p.Types.Scope().Lookup(typ)
	if obj == nil {
		return nil
	}
	for _, T := range []types.Type{obj.Type(), types.NewPointer(obj.Type())} {
		ms := e.Prog.MethodSets.MethodSet(T)
		for i := 0; i < ms.Len(); i++ {
			sel := ms.At(i)
			if sel.Obj().Name() == name {
				if fo, ok := sel.Obj().(*types.Func); ok {
					if f := e.Prog.FuncValue(fo); f != nil && f.Blocks != nil {
						return f
					}
				}
			}
		}
	}
	return nil
}

// PkgFunc returns package-level function.
func (e *Engine) PkgFunc(pkgSuffix, name string) *ssa.Function {
	sp := e.SSA[ModPath+"/"+pkgSuffix]
	if sp == nil {
		sp = e.SSA[pkgSuffix]
	}
	if sp == nil {
		return nil
	}
	if f := sp.Func(name); f != nil {
		return f
	}
	for cur, canon := range aliasName {
		if canon == name {
			if f := sp.Func(cur); f != nil {
				return f
			}
		}
	}
	return nil
}

// isFx reports whether fn is declared in fx-core.
func isFx(fn *ssa.Function) bool {
	return fn != nil && fn.Pkg != nil && strings.HasPrefix(fn.Pkg.Pkg.Path(), ModPath)
}

func fnPkgPath(fn *ssa.Function) string {
	for fn != nil && fn.Pkg == nil && fn.Parent() != nil {
		fn = fn.Parent()
	}
	if fn == nil || fn.Pkg == nil {
		if fn != nil && fn.Object() != nil && fn.Object().Pkg() != nil {
			return fn.Object().Pkg().Path()
		}
		return ""
	}
	return fn.Pkg.Pkg.Path()
}

// rootFn returns the outermost enclosing function of a closure.
func rootFn(fn *ssa.Function) *ssa.Function {
	for fn.Parent() != nil {
		fn = fn.Parent()
	}
	return fn
}

// calleeOf returns the static callee of a call instruction, or nil.
func calleeOf(c ssa.CallInstruction) *ssa.Function {
	return c.Common().StaticCallee()
}

// calleeName returns "pkgpath.(Recv).Name" / "pkgpath.Name" for static callees and
// "iface:pkgpath.Iface.Method" for interface invocations; "" if dynamic.
func calleeName(c ssa.CallInstruction) string {
	cc := c.Common()
	if cc.IsInvoke() {
		recv := cc.Value.Type()
		return "iface:" + types.TypeString(recv, nil) + "." + cc.Method.Name()
	}
	if f := cc.StaticCallee(); f != nil {
		return f.String()
	}
	if b, ok := cc.Value.(*ssa.Builtin); ok {
		return "builtin:" + b.Name()
	}
	return ""
}

// methodName returns just the called method/function name.
func callName(c ssa.CallInstruction) string {
	cc := c.Common()
	if cc.IsInvoke() {
		return canonName(cc.Method.Name())
	}
	if f := cc.StaticCallee(); f != nil {
		n := f.Name()
		// instantiated generics are named "Set[K V]": use the base name
		if i := strings.Index(n, "["); i > 0 {
			n = n[:i]
		}
		return canonName(n)
	}
	if b, ok := cc.Value.(*ssa.Builtin); ok {
		return b.Name()
	}
	return ""
}

// callArgs returns receiver+args uniformly (receiver first for both invoke and static method calls).
func callArgs(c ssa.CallInstruction) []ssa.Value {
	cc := c.Common()
	if cc.IsInvoke() {
		return append([]ssa.Value{cc.Value}, cc.Args...)
	}
	return cc.Args
}

// recvTypeName returns the named type of the receiver of a call (static or invoke), pkgpath.Name
func recvTypeName(c ssa.CallInstruction) string {
	cc := c.Common()
	var t types.Type
	if cc.IsInvoke() {
		t = cc.Value.Type()
	} else if f := cc.StaticCallee(); f != nil && f.Signature.Recv() != nil {
		t = f.Signature.Recv().Type()
	} else {
		return ""
	}
	return namedTypeName(t)
}

func namedTypeName(t types.Type) string {
	if p, ok := t.(*types.Pointer); ok {
		t = p.Elem()
	}
	if n, ok := t.(*types.Named); ok {
		if n.Obj().Pkg() != nil {
			return n.Obj().Pkg().Path() + "." + n.Obj().Name()
		}
		return n.Obj().Name()
	}
	return t.String()
}

func allInstrs(fn *ssa.Function, f func(ssa.Instruction)) {
	for _, b := range fn.Blocks {
		for _, i := range b.Instrs {
			f(i)
		}
	}
}

func allCalls(fn *ssa.Function, f func(ssa.CallInstruction)) {
	allInstrs(fn, func(i ssa.Instruction) {
		if c, ok := i.(ssa.CallInstruction); ok {
			f(c)
		}
	})
}

// findFn returns the unique non-auxiliary, top-level fx-core function satisfying pred (nil if none or ambiguous).
// Rules use it as the structural fallback when a function is no longer found under the name it has today, so that a
// rename does not raise an unresolved-anchor alarm.
func (e *Engine) findFn(pred func(*ssa.Function) bool) *ssa.Function {
	var hit *ssa.Function
	n := 0
	for _, fn := range e.Funcs {
		if fn.Parent() != nil || isAuxPkg(fnPkgPath(fn)) {
			continue
		}
		if pred(fn) {
			hit = fn
			n++
		}
	}
	if n == 1 {
		return hit
	}
	return nil
}

// callsNamed: fn contains a call whose callee (method or function) is named n.
func callsNamed(fn *ssa.Function, names ...string) bool {
	found := false
	allCalls(fn, func(c ssa.CallInstruction) {
		for _, n := range names {
			if callName(c) == n {
				found = true
			}
		}
	})
	return found
}

// refCountDelta: +1 / -1 if fn reads a record, changes its field ReferenceCount by one and writes it back; 0 otherwise.
func refCountDelta(fn *ssa.Function) int {
	d := 0
	allInstrs(fn, func(i ssa.Instruction) {
		st, ok := i.(*ssa.Store)
		if !ok {
			return
		}
		fa, ok := st.Addr.(*ssa.FieldAddr)
		if !ok {
			return
		}
		if n, _, _ := fieldName(fa); n != "ReferenceCount" {
			return
		}
		if bo, ok := st.Val.(*ssa.BinOp); ok {
			switch bo.Op.String() {
			case "+":
				d = 1
			case "-":
				d = -1
			}
		}
	})
	return d
}

// verifDirGlobal is the /verif directory of this run (set by main); rules that import another property's obligations
// use it to read the committed known-findings file.
var verifDirGlobal = "/verif"

func (e *Engine) verifDirForKnown() string { return verifDirGlobal + "/known_findings.jsonl" }

// ---------------------------------------------------------------------------------------------------------------------
// role aliases: rules refer to a number of fx-core functions by the name they have today. When such a name no longer
// exists anywhere in fx-core (the function was renamed), the function is re-identified by its shape and its new name
// is treated as the old one, so that a rename alone never unresolves an anchor.
// ---------------------------------------------------------------------------------------------------------------------

var aliasName = map[string]string{} // current name -> canonical (historic) name

func canonName(n string) string {
	if c, ok := aliasName[n]; ok {
		return c
	}
	return n
}

func resultIs(f *ssa.Function, i int, suffix string) bool {
	r := f.Signature.Results()
	return r.Len() > i && strings.HasSuffix(r.At(i).Type().String(), suffix)
}

func recvIs(f *ssa.Function, suffix string) bool {
	return f.Signature.Recv() != nil && strings.HasSuffix(namedTypeName(f.Signature.Recv().Type()), suffix)
}

func loadsField(f *ssa.Function, field string) bool {
	hit := false
	allInstrs(f, func(i ssa.Instruction) {
		if v, ok := i.(ssa.Value); ok {
			if n, _, ok := fieldName(v); ok && n == field {
				hit = true
			}
		}
	})
	return hit
}

func hasConstStringArg(f *ssa.Function, want string) bool {
	hit := false
	allCalls(f, func(c ssa.CallInstruction) {
		for _, a := range c.Common().Args {
			if s, ok := constString(a); ok && s == want {
				hit = true
			}
		}
	})
	return hit
}

func nonCtxParamTypes(f *ssa.Function) []string {
	var out []string
	ps := f.Params
	if f.Signature.Recv() != nil && len(ps) > 0 {
		ps = ps[1:]
	}
	for _, p := range ps {
		if isCtxType(p.Type()) {
			continue
		}
		out = append(out, p.Type().String())
	}
	return out
}

func (e *Engine) buildAliases() {
	aliasName = map[string]string{}
	exists := map[string]bool{}
	for _, f := range e.Funcs {
		exists[f.Name()] = true
	}
	in := func(f *ssa.Function, pkg string) bool { return strings.HasSuffix(fnPkgPath(f), pkg) }
	roles := []struct {
		canon string
		pred  func(*ssa.Function) bool
	}{
		{"GetPower", func(f *ssa.Function) bool { return recvIs(f, "x/crosschain/types.Oracle") && resultIs(f, 0, "math.Int") && len(nonCtxParamTypes(f)) == 0 && callsNamed(f, "Quo") }},
		{"GetDelegateAddress", func(f *ssa.Function) bool {
			t := nonCtxParamTypes(f)
			return recvIs(f, "x/crosschain/types.Oracle") && resultIs(f, 0, "types.AccAddress") && len(t) == 1 && t[0] == "string"
		}},
		{"GetSlashAmount", func(f *ssa.Function) bool { return recvIs(f, "x/crosschain/types.Oracle") && callsNamed(f, "MinInt") }},
		{"GetGravityID", func(f *ssa.Function) bool { return in(f, "x/crosschain/keeper") && resultIs(f, 0, "string") && len(nonCtxParamTypes(f)) == 0 && loadsField(f, "GravityId") }},
		{"IsProposalOracle", func(f *ssa.Function) bool {
			return in(f, "x/crosschain/keeper") && recvIs(f, "keeper.Keeper") && resultIs(f, 0, "bool") && len(nonCtxParamTypes(f)) == 1 && loadsField(f, "Oracles")
		}},
		{"GetAllOracles", func(f *ssa.Function) bool { return in(f, "x/crosschain/keeper") && resultIs(f, 0, "types.Oracles") && len(nonCtxParamTypes(f)) == 1 }},
		{"GetCustomMsgVotingPeriod", func(f *ssa.Function) bool { return in(f, "x/gov/keeper") && resultIs(f, 0, "*time.Duration") && loadsField(f, "VotingPeriod") }},
		{"GetCustomMsgQuorum", func(f *ssa.Function) bool { return in(f, "x/gov/keeper") && resultIs(f, 0, "string") && loadsField(f, "Quorum") && f.Signature.Recv() != nil }},
		{"NewERC20Token", func(f *ssa.Function) bool { return in(f, "x/crosschain/types") && f.Signature.Recv() == nil && resultIs(f, 0, "types.ERC20Token") && len(f.Params) == 2 }},
		{"ParseAddress", func(f *ssa.Function) bool {
			return f.Signature.Recv() == nil && f.Signature.Results().Len() == 3 && resultIs(f, 0, "types.AccAddress") && resultIs(f, 1, "bool") && resultIs(f, 2, "error")
		}},
		{"ParseMethodArgs", func(f *ssa.Function) bool {
			if !in(f, "x/evm/types") || f.Signature.Recv() != nil || !resultIs(f, 0, "error") {
				return false
			}
			for _, p := range f.Params {
				if strings.HasSuffix(p.Type().String(), "abi.Method") {
					return callsNamed(f, "Validate")
				}
			}
			return false
		}},
		{"checkProposalMsgs", func(f *ssa.Function) bool {
			t := nonCtxParamTypes(f)
			return in(f, "x/gov/keeper") && f.Signature.Recv() == nil && len(t) == 1 && strings.HasSuffix(t[0], "[]github.com/cosmos/cosmos-sdk/types.Msg") && resultIs(f, 0, "error")
		}},
		{"ValidateExternalAddr", func(f *ssa.Function) bool {
			t := nonCtxParamTypes(f)
			if !in(f, "x/crosschain/types") || f.Signature.Recv() != nil || len(t) != 2 || t[0] != "string" || t[1] != "string" || !resultIs(f, 0, "error") {
				return false
			}
			hit := false
			allInstrs(f, func(i ssa.Instruction) {
				if u, ok := i.(*ssa.UnOp); ok {
					if g, ok := u.X.(*ssa.Global); ok && strings.Contains(strings.ToLower(g.Name()), "router") {
						hit = true
					}
				}
			})
			return hit
		}},
		{"GetERC20Contract", func(f *ssa.Function) bool { return recvIs(f, "x/erc20/types.TokenPair") && resultIs(f, 0, "common.Address") && len(nonCtxParamTypes(f)) == 0 }},
		{"ApplyContract", func(f *ssa.Function) bool {
			if !in(f, "x/evm/keeper") || !f.Signature.Variadic() {
				return false
			}
			for _, p := range f.Params {
				if strings.HasSuffix(p.Type().String(), "abi.ABI") {
					return callsNamed(f, "Pack") && callsNamed(f, "CallEVMWithoutGas") && resultIs(f, 0, "MsgEthereumTxResponse")
				}
			}
			return false
		}},
		{"bridgeCallTransferCoins", func(f *ssa.Function) bool {
			if !in(f, "x/crosschain/keeper") || !callsNamed(f, "MintCoins") || !resultIs(f, 0, "types.Coins") {
				return false
			}
			for _, p := range f.Params {
				if strings.HasSuffix(p.Type().String(), "types.ERC20Token") {
					return true
				}
			}
			return false
		}},
		{"ERC20Mint", func(f *ssa.Function) bool { return in(f, "x/evm/keeper") && hasConstStringArg(f, "mint") }},
		{"ERC20Burn", func(f *ssa.Function) bool { return in(f, "x/evm/keeper") && hasConstStringArg(f, "burn") }},
		{"ERC20Transfer", func(f *ssa.Function) bool { return in(f, "x/evm/keeper") && hasConstStringArg(f, "transfer") && !hasConstStringArg(f, "transferFrom") }},
	}
	for _, ro := range roles {
		if exists[ro.canon] {
			continue
		}
		names := map[string]bool{}
		for _, f := range e.Funcs {
			if f.Parent() != nil || isAuxPkg(fnPkgPath(f)) {
				continue
			}
			if ro.pred(f) {
				names[f.Name()] = true
			}
		}
		if len(names) == 1 {
			for n := range names {
				if !exists[ro.canon] {
					aliasName[n] = ro.canon
				}
			}
		}
	}
}

// CanonFnKey is FnKey with the function's own name replaced by its canonical (historic) name when it was renamed:
// constructs of recorded findings stay the same across a rename.
func (e *Engine) CanonFnKey(fn *ssa.Function) string {
	k := e.FnKey(fn)
	n := fn.Name()
	if c := canonName(n); c != n && strings.HasSuffix(k, "."+n) {
		return strings.TrimSuffix(k, n) + c
	}
	return k
}
