package main

import (
	"go/types"
	"strings"

	"golang.org/x/tools/go/ssa"
)

// keyComp is one component of a store key built by a key-constructor function.
type keyComp struct {
	Kind string // prefix | fixed | var | decimal | sep | unknown
	Desc string
}

// keyComponents flattens the append/Sprintf structure of a key constructor's return value into components.
// ok=false if the constructor is not append/Sprintf shaped (e.g. copy into a pre-sized buffer).
func (e *Engine) keyComponents(fn *ssa.Function) ([]keyComp, bool) {
	var rets []ssa.Value
	for _, b := range fn.Blocks {
		if r, ok := b.Instrs[len(b.Instrs)-1].(*ssa.Return); ok && len(r.Results) == 1 {
			rets = append(rets, r.Results[0])
		}
	}
	if len(rets) != 1 {
		return nil, false
	}
	seen := map[ssa.Value]bool{}
	okAll := true
	var comps func(v ssa.Value, depth int) []keyComp
	comps = func(v ssa.Value, depth int) []keyComp {
		if v == nil || depth > 20 || seen[v] {
			okAll = false
			return nil
		}
		seen[v] = true
		v = stripConv(v)
		switch x := v.(type) {
		case *ssa.UnOp:
			if g, ok := x.X.(*ssa.Global); ok {
				return []keyComp{{"prefix", g.Name()}}
			}
			if a, ok := x.X.(*ssa.Alloc); ok {
				// local reassigned buffer: take the last store that dominates the load
				var best *ssa.Store
				for _, ref := range *a.Referrers() {
					if st, ok := ref.(*ssa.Store); ok && st.Addr == a && Dominates(st, x) {
						if best == nil || Dominates(best, st) {
							best = st
						}
					}
				}
				if best != nil {
					return comps(best.Val, depth+1)
				}
			}
			if _, ok := x.X.(*ssa.FieldAddr); ok {
				return []keyComp{{kindOfType(x.Type()), "field " + e.Describe(x.X)}}
			}
		case *ssa.Const:
			if s, ok := constString(x); ok {
				return []keyComp{{"sep", s}}
			}
		case *ssa.Parameter:
			return []keyComp{{kindOfType(x.Type()), "param " + x.Name()}}
		case *ssa.Slice:
			return comps(x.X, depth+1)
		case *ssa.MakeSlice:
			if l, ok := constInt(x.Len); ok && l == 0 {
				return nil // empty buffer with capacity
			}
			return []keyComp{{"fixed", "make"}}
		case *ssa.Alloc:
			return []keyComp{{"fixed", "array"}}
		case *ssa.Call:
			cc0 := x.Common()
			if b, ok := cc0.Value.(*ssa.Builtin); ok && b.Name() == "append" {
				var out []keyComp
				for _, a := range cc0.Args {
					out = append(out, comps(a, depth+1)...)
				}
				return out
			}
			n := callName(x)
			switch n {
			case "Uint64ToBigEndian", "FillBytes", "LengthPrefix", "MustLengthPrefix":
				return []keyComp{{"fixed", n}}
			case "Bytes":
				return []keyComp{{"fixed", "address bytes"}}
			case "AppendUint", "AppendInt":
				out := comps(cc0.Args[0], depth+1)
				return append(out, keyComp{"decimal", n})
			case "Itoa", "FormatUint", "FormatInt":
				return []keyComp{{"decimal", n}}
			case "Sprintf":
				format, ok := constString(cc0.Args[0])
				if !ok {
					okAll = false
					return nil
				}
				var out []keyComp
				lit := ""
				for i := 0; i < len(format); i++ {
					if format[i] == '%' && i+1 < len(format) {
						if lit != "" {
							out = append(out, keyComp{"sep", lit})
							lit = ""
						}
						switch format[i+1] {
						case 'd':
							out = append(out, keyComp{"decimal", "%d"})
						case 's', 'v', 'x':
							out = append(out, keyComp{"var", "%" + string(format[i+1])})
						default:
							out = append(out, keyComp{"unknown", "%" + string(format[i+1])})
						}
						i++
						continue
					}
					lit += string(format[i])
				}
				if lit != "" {
					out = append(out, keyComp{"sep", lit})
				}
				return out
			}
			if f := cc0.StaticCallee(); f != nil && f.Blocks != nil && (isFx(f) || e.SSA[fnPkgPath(f)] != nil) {
				if sub, ok := e.keyComponents(f); ok {
					return sub
				}
			}
		}
		okAll = false
		return []keyComp{{"unknown", e.Describe(v)}}
	}
	out := comps(rets[0], 0)
	return out, okAll
}

func kindOfType(t types.Type) string {
	s := t.String()
	switch {
	case s == "string":
		return "var"
	case strings.HasSuffix(s, "Address"):
		return "fixed"
	case s == "uint64":
		return "fixed"
	}
	if sl, ok := t.Underlying().(*types.Slice); ok && isByte(sl.Elem()) {
		return "var"
	}
	return "unknown"
}

// keyAmbiguity: returns a description if two adjacent components can trade bytes: a variable-length component directly
// followed by a variable-length or decimal component with no separator between them.
func keyAmbiguity(cs []keyComp) string {
	for i := 0; i+1 < len(cs); i++ {
		a, b := cs[i], cs[i+1]
		if (a.Kind == "var" || a.Kind == "decimal") && (b.Kind == "var" || b.Kind == "decimal") {
			return a.Desc + " is directly followed by " + b.Desc + " without a separator or fixed-width field"
		}
	}
	return ""
}
