#!/bin/bash
# Builds the checker from files on disk only (offline).
set -e
cd "$(dirname "$0")/fxcheck"
export GOFLAGS=-mod=mod GOPROXY=off GOSUMDB=off GOTOOLCHAIN=local CGO_ENABLED=0
unset GOWORK
mkdir -p ../bin ../evidence
go build -o ../bin/fxcheck .
go build -o ../bin/astmut ./cmd/astmut
echo "built $(cd .. && pwd)/bin/fxcheck"
