#!/usr/bin/env python3
"""Self-test of the checker: apply each variant (a small edit that still type-checks) through a
packages.Overlay -- /repo is never modified -- run the property's check in a sub-process and require that
exactly the expected rule reports the expected construct.

usage: variants.py [-p C16] [-j 8] [--json out.json] [names...]
Variants live in /verif/variants/<prop>/*.json:
  {"file": "x/..../f.go", "old": "...", "new": "...", "expect_rule": "O1", "expect_construct": "substr",
   "note": "..."}      (several edits: "edits": [{"file","old","new"}, ...])
  {"...edits...", "expect": "clean"}: a behaviour-preserving refactor; the check must exit 0 without a report
   (status clean_ok, else false_alarm).
A variant whose `old` text is no longer present exactly once is `skipped` (tree was edited), not failed.
"""
import argparse, json, os, subprocess, sys, tempfile, shutil, glob, concurrent.futures as cf

VERIF = os.path.dirname(os.path.dirname(os.path.abspath(__file__)))
REPO = os.environ.get("FX_REPO", "/repo")
BIN = os.environ.get("FXBIN") or os.path.join(VERIF, "bin", "fxcheck")


def run_variant(item):
    path, prop_override = item if isinstance(item, tuple) else (item, None)
    v = json.load(open(path))
    prop = prop_override or v.get("prop") or os.path.basename(os.path.dirname(path))
    name = os.path.splitext(os.path.basename(path))[0]
    edits = v.get("edits") or [{"file": v["file"], "old": v["old"], "new": v["new"]}]
    tmp = tempfile.mkdtemp(prefix="fxvar-", dir="/var/tmp")
    try:
        ov = []
        contents = {}
        for i, ed in enumerate(edits):
            fp = os.path.join(REPO, ed["file"])
            src = contents.get(fp)
            if src is None:
                src = open(fp).read()
            if ed.get("all"):
                # rename-style edit: every occurrence in the file
                if src.count(ed["old"]) < 1:
                    return dict(name=name, prop=prop, status="skipped", why="old text does not occur in %s" % ed["file"])
            elif src.count(ed["old"]) != 1:
                return dict(name=name, prop=prop, status="skipped", why="old text occurs %d times in %s" % (src.count(ed["old"]), ed["file"]))
            contents[fp] = src.replace(ed["old"], ed["new"])
        for i, (fp, src) in enumerate(contents.items()):
            rp = os.path.join(tmp, "ov%d.go" % i)
            open(rp, "w").write(src)
            ov.append(fp + "=" + rp)
        vdir = os.path.join(tmp, "verif")
        os.makedirs(os.path.join(vdir, "evidence"))
        for f in ("known_findings.jsonl", "properties.jsonl"):
            if os.path.exists(os.path.join(VERIF, f)):
                shutil.copy(os.path.join(VERIF, f), vdir)
        env = dict(os.environ, FXCHECK_OVERLAY=",".join(ov))
        p = subprocess.run([BIN, "-prop", prop, "-tier", "quick", "-repo", REPO, "-verif", vdir], env=env,
                           capture_output=True, text=True, timeout=900)
        out = p.stdout + p.stderr
        if "LOAD-ERROR" in out:
            return dict(name=name, prop=prop, status="invalid", why=[l for l in out.splitlines() if "LOAD-ERROR" in l][0][:300])
        reports = [l for l in out.splitlines() if l.startswith("REPORT ")]
        if v.get("expect") == "clean":
            # a behaviour-preserving edit: the check must stay silent
            if p.returncode == 0 and not reports:
                return dict(name=name, prop=prop, status="clean_ok")
            return dict(name=name, prop=prop, status="false_alarm", rc=p.returncode, reports=[l[:300] for l in reports][:5])
        hit = [l for l in reports if (" %s " % v["expect_rule"]) in l and v.get("expect_construct", "") in l]
        if p.returncode == 1 and hit:
            return dict(name=name, prop=prop, status="detected", report=hit[0][:300], other_reports=len(reports) - len(hit))
        return dict(name=name, prop=prop, status="missed", rc=p.returncode, reports=[l[:200] for l in reports][:5])
    except subprocess.TimeoutExpired:
        return dict(name=name, prop=prop, status="missed", why="timeout")
    finally:
        shutil.rmtree(tmp, ignore_errors=True)


def main():
    ap = argparse.ArgumentParser()
    ap.add_argument("-p", "--prop")
    ap.add_argument("-j", type=int, default=8)
    ap.add_argument("--json")
    ap.add_argument("names", nargs="*")
    a = ap.parse_args()
    pat = os.path.join(VERIF, "variants", a.prop or "*", "*.json")
    files = [f for f in sorted(glob.glob(pat)) if os.path.basename(os.path.dirname(f)) != "_benign"]
    # shared behaviour-preserving refactors: variants/_benign/*.json with "props": [...], one run per property
    for f in sorted(glob.glob(os.path.join(VERIF, "variants", "_benign", "*.json"))):
        for pr in json.load(open(f)).get("props", []):
            if not a.prop or a.prop == pr:
                files.append((f, pr))
    if a.names:
        files = [f for f in files if any(n in os.path.basename(f if isinstance(f, str) else f[0]) for n in a.names)]
    res = []
    with cf.ThreadPoolExecutor(max_workers=a.j) as ex:
        for r in ex.map(run_variant, files):
            res.append(r)
            print("%-9s %s/%s %s" % (r["status"].upper(), r["prop"], r["name"], r.get("report") or r.get("why") or r.get("reports") or ""))
    summ = {k: sum(1 for r in res if r["status"] == k) for k in ("detected", "missed", "skipped", "invalid", "clean_ok", "false_alarm")}
    summ["applied"] = summ["detected"] + summ["missed"]
    print("SELFTEST", json.dumps(summ))
    if a.json:
        json.dump(dict(summary=summ, results=res), open(a.json, "w"), indent=1)
    return 0


if __name__ == "__main__":
    sys.exit(main())
