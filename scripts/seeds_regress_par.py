#!/usr/bin/env python3
"""Parallel regression over the archived independent seeds. Each /verif/seeded/<id>/patch.diff (or patch.rebased.diff) is
applied to scratch copies of the files it touches and handed to the checker through FXCHECK_OVERLAY, so /repo is never
edited and seeds run side by side. usage: seeds_regress_par.py [-j N] [ids...]   exit = number of seeds not detected"""
import concurrent.futures as cf, glob, os, re, shutil, subprocess, sys, tempfile


def run(d):
    sid = os.path.basename(d.rstrip('/'))
    prop = sid.rsplit('-', 1)[0]
    tmp = tempfile.mkdtemp(prefix='seedreg-', dir='/var/tmp')
    try:
        for pf in ('patch.diff', 'patch.rebased.diff'):
            P = os.path.join(d, pf)
            if not os.path.exists(P):
                continue
            txt = open(P).read()
            files = re.findall(r'^\+\+\+ b/(.*)$', txt, re.M)
            work = os.path.join(tmp, pf + '.d')
            os.makedirs(work)
            for f in files:
                os.makedirs(os.path.dirname(os.path.join(work, f)), exist_ok=True)
                if os.path.exists('/repo/' + f):
                    shutil.copy('/repo/' + f, os.path.join(work, f))
            p = subprocess.run(['patch', '-p1', '-s', '-f', '-d', work, '-i', P], capture_output=True, text=True)
            if p.returncode != 0:
                continue
            ov = ['/repo/%s=%s' % (f, os.path.join(work, f)) for f in files]
            vdir = os.path.join(tmp, 'verif')
            os.makedirs(os.path.join(vdir, 'evidence'), exist_ok=True)
            for f in ('known_findings.jsonl', 'properties.jsonl'):
                shutil.copy('/verif/' + f, vdir)
            q = subprocess.run([os.environ.get('FXBIN', '/verif/bin/fxcheck'), '-prop', prop, '-verif', vdir],
                               env=dict(os.environ, FXCHECK_OVERLAY=','.join(ov)), capture_output=True, text=True)
            out = q.stdout + q.stderr
            reps = [l for l in out.splitlines() if l.startswith('REPORT ')]
            if 'LOAD-ERROR' in out:
                return sid, 'INVALID', [l for l in out.splitlines() if 'LOAD-ERROR' in l][0][:200]
            if q.returncode == 1 and reps:
                return sid, 'DETECTED', reps[0][:200]
            return sid, 'MISSED', 'rc=%d' % q.returncode
        return sid, 'NOAPPLY', ''
    finally:
        shutil.rmtree(tmp, ignore_errors=True)


def main():
    args = sys.argv[1:]
    j = 8
    if args[:1] == ['-j']:
        j = int(args[1])
        args = args[2:]
    ds = sorted(glob.glob('/verif/seeded/*/'))
    if args:
        ds = [d for d in ds if any(a in d for a in args)]
    bad = 0
    with cf.ThreadPoolExecutor(max_workers=j) as ex:
        for sid, st, info in ex.map(run, ds):
            print('%-9s %s %s' % (st, sid, info), flush=True)
            if st != 'DETECTED':
                bad += 1
    print('SEEDS total=%d not_detected=%d' % (len(ds), bad))
    return bad


if __name__ == '__main__':
    sys.exit(main())
