#!/usr/bin/env python3
"""Regenerates /verif/MANIFEST.json from the table below (claimed checks) + properties.jsonl (everything else -> not_applicable)."""
import json, os
V = os.path.dirname(os.path.dirname(os.path.abspath(__file__)))
props = [json.loads(l) for l in open(os.path.join(V, 'properties.jsonl'))]
TRUST = "Trusted: go/types + go/ssa (x/tools v0.29.0), the engine's key-family resolution and effect table (KVStore/collections ops resolved by prefix byte; dependency keeper calls classified read/write by name), atomicity of SDK transactions. Dependency behaviour is not analysed."
claimed = json.load(open(os.path.join(V, 'scripts', 'claims.json')))
man = {
 "version": 1,
 "setup_cmd": "./build.sh",
 "hooks": {"guard": "verif", "enable": "none: the checks are purely static and need no hook in /repo; the tag name `verif` is reserved", "baseline_off_cmd": "scripts/baseline.sh /repo", "source_commits": [], "add_only": True},
 "engines": [{"name": "fxcheck", "path": "fxcheck/", "serves_properties": sorted(claimed), "kind_free_text": "custom static analyzer over go/packages + go/types + go/ssa (x/tools v0.29.0): key-family resolver, module-scoped call graph, store-effect summaries, dominance/guard/provenance rules; small proto/ABI/Solidity scanners"}],
 "checks": [],
 "notes": "All checks are static: they load /repo's current working tree on every invocation and execute nothing from it. Known findings and fixed defects: known_findings.jsonl. Checker self-test variants: variants/<id>/*.json, applied through a go/packages overlay by scripts/variants.py in the thorough tier (results in coverage.selftest; never change the exit code).",
 "not_applicable": [],
}
for p in props:
    pid = p['id']
    if pid in claimed:
        c = claimed[pid]
        man['checks'].append({"property_id": pid, "quick_cmd": f"bin/fxcheck -prop {pid} -tier quick", "thorough_cmd": f"scripts/thorough.sh {pid}", "evidence_file": f"evidence/{pid}.json", "replay_cmd_template": "cat {path}", "engine": "fxcheck",
            "level_claimed": {"category": c['level'], "text": c['text'], "design_ref": f"DESIGN.md §4 {pid}"}, "level_note": c.get('note', TRUST) , "technique": c['tech']})
    else:
        man['not_applicable'].append({"property_id": pid, "reason": "static rules for this property are designed (DESIGN.md §4) but not built yet in this commit; not claimed until the check exists"})
json.dump(man, open(os.path.join(V, 'MANIFEST.json'), 'w'), indent=1)
print("checks:", [c['property_id'] for c in man['checks']], "n/a:", len(man['not_applicable']))
