#!/usr/bin/env python3
"""Metamorphic self-test of the checker. For every non-generated source file of fx-core and every behaviour-preserving
control-flow transformation of bin/astmut (invert if/else, early-return -> nested, hoist if-init, split &&/||,
switch -> if-chain, else -> fallthrough), the whole file is rewritten at every applicable site and handed to the
checker through FXCHECK_OVERLAY (one process, -prop all). The verdict must stay the one of the unchanged tree: exit 0,
no REPORT. A rewritten file that no longer type-checks is INVALID (skipped), not a failure.
usage: metamorph.py [-j N] [-ops a,b] [-out results.json] [path-substring ...]"""
import concurrent.futures as cf, json, os, shutil, subprocess, sys, tempfile

OPS = ['invert', 'nest', 'hoist', 'split', 'switch', 'unelse']
SKIP_DIRS = ('/testutil', '/mocks', '/mock', '/client/cli', '/tests/', '/cmd/', '/docs', '/solidity', '/scripts', '/tools', '/develop', '/public')


def files():
    out = []
    for root, ds, fs in os.walk('/repo'):
        if '/.git' in root:
            continue
        for f in fs:
            p = os.path.join(root, f)
            if not f.endswith('.go') or f.endswith('_test.go') or f.endswith('.pb.go') or f.endswith('.pb.gw.go') or f.endswith('.pulsar.go'):
                continue
            if any(s in p for s in SKIP_DIRS):
                continue
            out.append(p)
    return sorted(out)


def run(job):
    path, op = job
    tmp = tempfile.mkdtemp(prefix='meta-', dir='/var/tmp')
    try:
        outp = os.path.join(tmp, 'm.go')
        p = subprocess.run(['/verif/bin/astmut', '-file', path, '-op', op, '-out', outp], capture_output=True, text=True)
        if p.returncode != 0:
            return path, op, 'NOSITES', 0, []
        n = int(p.stdout.strip().split('=')[1].split()[0])
        vdir = os.path.join(tmp, 'verif')
        os.makedirs(os.path.join(vdir, 'evidence'))
        for f in ('known_findings.jsonl', 'properties.jsonl'):
            shutil.copy('/verif/' + f, vdir)
        q = subprocess.run([os.environ.get('FXBIN', '/verif/bin/fxcheck'), '-prop', 'all', '-verif', vdir],
                           env=dict(os.environ, FXCHECK_OVERLAY='%s=%s' % (path, outp)), capture_output=True, text=True)
        out = q.stdout + q.stderr
        if 'LOAD-ERROR' in out:
            return path, op, 'INVALID', n, [l[:300] for l in out.splitlines() if 'LOAD-ERROR' in l][:1]
        reps = [l[:400] for l in out.splitlines() if l.startswith('REPORT ')]
        if q.returncode == 0 and not reps:
            return path, op, 'CLEAN', n, []
        if not reps:
            reps = [l[:400] for l in out.splitlines()[-5:]]
        if os.environ.get('META_KEEP'):
            shutil.copy(outp, '/var/tmp/metakeep_%s_%s' % (op, os.path.basename(path)))
        return path, op, 'REPORTS', n, reps
    finally:
        shutil.rmtree(tmp, ignore_errors=True)


def main():
    args = sys.argv[1:]
    j, ops, outf = 5, OPS, None
    while args and args[0] in ('-j', '-ops', '-out'):
        if args[0] == '-j':
            j = int(args[1])
        elif args[0] == '-ops':
            ops = args[1].split(',')
        else:
            outf = args[1]
        args = args[2:]
    fs = files()
    if args:
        fs = [f for f in fs if any(a in f for a in args)]
    jobs = [(f, op) for f in fs for op in ops]
    res = []
    cnt = {}
    with cf.ThreadPoolExecutor(max_workers=j) as ex:
        for path, op, st, n, info in ex.map(run, jobs):
            cnt[st] = cnt.get(st, 0) + 1
            if st != 'NOSITES':
                print('%-8s %-7s sites=%-3d %s' % (st, op, n, path[6:]), flush=True)
                for l in info:
                    print('      ' + l, flush=True)
            res.append(dict(file=path[6:], op=op, status=st, sites=n, info=info))
    print('METAMORPH', json.dumps(cnt))
    if outf:
        json.dump(dict(summary=cnt, results=[r for r in res if r['status'] != 'NOSITES']), open(outf, 'w'), indent=1)


if __name__ == '__main__':
    main()
