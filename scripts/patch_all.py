#!/usr/bin/env python3
"""Runs every property check (one process, -prop all) on /repo with a patch applied through FXCHECK_OVERLAY; /repo is never
edited. For each patch prints the REPORT lines (or CLEAN). Used to measure false alarms on behaviour-preserving patches and
cross-property detection on breaking ones. usage: patch_all.py [-j N] [-props C01,C02] patch.diff [...]"""
import concurrent.futures as cf, os, re, shutil, subprocess, sys, tempfile

PROPS = 'all'


def run(P):
    tmp = tempfile.mkdtemp(prefix='patchall-', dir='/var/tmp')
    try:
        txt = open(P).read()
        files = re.findall(r'^\+\+\+ b/(.*)$', txt, re.M)
        dels = re.findall(r'^--- a/(.*)\n\+\+\+ /dev/null', txt, re.M)
        if dels:
            return P, 'UNSUPPORTED', ['deletes files: %s' % dels]
        work = os.path.join(tmp, 'w')
        os.makedirs(work)
        for f in files:
            os.makedirs(os.path.dirname(os.path.join(work, f)), exist_ok=True)
            if os.path.exists('/repo/' + f):
                shutil.copy('/repo/' + f, os.path.join(work, f))
        p = subprocess.run(['patch', '-p1', '-s', '-f', '-d', work, '-i', os.path.abspath(P)], capture_output=True, text=True)
        if p.returncode != 0:
            return P, 'NOAPPLY', [p.stdout[:300]]
        ov = ['/repo/%s=%s' % (f, os.path.join(work, f)) for f in files if f.endswith('.go') and not f.endswith('_test.go')]
        vdir = os.path.join(tmp, 'verif')
        os.makedirs(os.path.join(vdir, 'evidence'), exist_ok=True)
        for f in ('known_findings.jsonl', 'properties.jsonl'):
            shutil.copy('/verif/' + f, vdir)
        out = ''
        rc = 0
        for pr in PROPS.split(','):
            q = subprocess.run([os.environ.get('FXBIN', '/verif/bin/fxcheck'), '-prop', pr, '-verif', vdir],
                               env=dict(os.environ, FXCHECK_OVERLAY=','.join(ov)), capture_output=True, text=True)
            out += q.stdout + q.stderr
            rc |= q.returncode
        if 'LOAD-ERROR' in out:
            return P, 'INVALID', [l[:300] for l in out.splitlines() if 'LOAD-ERROR' in l][:1]
        reps = [l[:330] for l in out.splitlines() if l.startswith('REPORT ') or l.startswith('VIOLATION')]
        if rc == 0 and not reps:
            return P, 'CLEAN', []
        return P, 'REPORTS', reps
    finally:
        shutil.rmtree(tmp, ignore_errors=True)


def main():
    global PROPS
    args = sys.argv[1:]
    j = 4
    while args and args[0] in ('-j', '-props'):
        if args[0] == '-j':
            j = int(args[1])
        else:
            PROPS = args[1]
        args = args[2:]
    n = 0
    with cf.ThreadPoolExecutor(max_workers=j) as ex:
        for P, st, info in ex.map(run, args):
            print('%-11s %s' % (st, P), flush=True)
            for l in info:
                print('     ' + l, flush=True)
            if st != 'CLEAN':
                n += 1
    print('PATCHES total=%d not_clean=%d' % (len(args), n))


if __name__ == '__main__':
    main()
