#!/bin/bash
# Runs the repository's pinned test suite (guard OFF: no build tag) and compares with BASELINE.json stable_pass.
# usage: scripts/baseline.sh [repo-dir]   exit 0 iff every stable_pass test passed
REPO=${1:-/repo}
export GOFLAGS=-mod=mod GOPROXY=off GOSUMDB=off GOTOOLCHAIN=local
unset GOWORK
OUT=$(mktemp /var/tmp/baseline.XXXXXX.json)
(cd "$REPO" && go test -mod=mod -json -vet=off -count=1 -timeout 25m ./... > "$OUT" 2>/dev/null)
python3 - "$OUT" <<'PY'
import json,sys
passed=set(); failed=set()
for l in open(sys.argv[1], errors='replace'):
    try: e=json.loads(l)
    except Exception: continue
    if e.get('Test') and e.get('Action') in ('pass','fail'):
        (passed if e['Action']=='pass' else failed).add(e['Package']+'::'+e['Test'])
base=set(json.load(open('/root/.vp/BASELINE.json'))['stable_pass'])
missing=sorted(base-passed)
print(f"baseline={len(base)} passed_now={len(passed)} failed_now={len(failed)} baseline_not_passing={len(missing)}")
for m in missing[:40]: print("  NOT-PASSING", m)
sys.exit(1 if missing else 0)
PY
rc=$?
rm -f "$OUT"
exit $rc
