#!/bin/bash
# Applies a patch to /repo, runs the given property checks, and reverts. usage: try_seed.sh <patch.diff> C01 [C02 ...]
P=$1; shift
cd /repo && git apply "$P" || { echo "patch does not apply"; exit 2; }
cd /verif
mkdir -p /var/tmp/tryseed.$$ && cp known_findings.jsonl properties.jsonl /var/tmp/tryseed.$$/
for id in "$@"; do bin/fxcheck -prop $id -verif /var/tmp/tryseed.$$ 2>&1 | grep -E "^(REPORT|SUMMARY|KNOWN|LOAD)" | cut -c1-400; done
mkdir -p /var/tmp/tryseed.$$ ; rm -rf /var/tmp/tryseed.$$
git -C /repo checkout -- . ; git -C /repo status --short | head -3
