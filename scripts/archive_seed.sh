#!/bin/bash
# usage: archive_seed.sh <worktree> <seed-id> ; copies patch, demo test(s), agent notes into /verif/seeded/<id>/ (meta.json written separately)
WT=$1; ID=$2; D=/verif/seeded/$ID; mkdir -p $D
cd $WT && git diff -- . ':(exclude)*_test.go' > $D/patch.diff
for f in $(git ls-files --others --exclude-standard | grep _test.go); do cp $f $D/$(basename $f).txt; echo "$f" >> $D/demo_location.txt; done
[ -f SEEDED.md ] && cp SEEDED.md $D/AGENT_NOTES.md
ls $D
