#!/bin/bash
# thorough tier: the quick analysis (tier recorded as thorough) + the checker self-test over the variant corpus
# of that property; self-test results are merged into the evidence file and never change the exit code.
P=$1
cd "$(dirname "$0")/.."
bin/fxcheck -prop "$P" -tier thorough
rc=$?
if ls variants/$P/*.json >/dev/null 2>&1; then
  TMP=$(mktemp /var/tmp/selftest.XXXXXX.json)
  python3 scripts/variants.py -p "$P" -j 8 --json "$TMP" | grep -E '^(MISSED|INVALID|FALSE_ALARM|SELFTEST)' | sed 's/^MISSED/SELFTEST-MISS/; s/^FALSE_ALARM/SELFTEST-FALSE-ALARM/'
  python3 - "$P" "$TMP" <<'PY'
import json,sys
p,tmp=sys.argv[1],sys.argv[2]
ev=json.load(open(f'evidence/{p}.json'))
st=json.load(open(tmp))
ev['coverage']['selftest']=st['summary']
ev['coverage']['selftest_results']=[{k:r.get(k) for k in ('name','status','report','why')} for r in st['results']]
json.dump(ev,open(f'evidence/{p}.json','w'),indent=1)
PY
  rm -f "$TMP"
fi
exit $rc
