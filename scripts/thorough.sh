#!/bin/bash
# thorough tier: the quick analysis (tier recorded as thorough) + the checker's self-tests for that property:
#   (1) the variant corpus (variants/<P>/*.json must be detected, variants/_benign must stay clean),
#   (2) the archived independent seeds of the property (seeded/<P>-*/patch.diff must be detected),
#   (3) the independent behaviour-preserving patches written for the property (benign_patches*/<P>/*.diff must stay clean).
# Self-test results are merged into the evidence file and never change the exit code.
P=$1
cd "$(dirname "$0")/.."
bin/fxcheck -prop "$P" -tier thorough
rc=$?
TMP=$(mktemp /var/tmp/selftest.XXXXXX.json)
SEEDS=$(mktemp /var/tmp/selftest.XXXXXX.seeds)
BEN=$(mktemp /var/tmp/selftest.XXXXXX.benign)
if ls variants/$P/*.json >/dev/null 2>&1; then
  python3 scripts/variants.py -p "$P" -j 8 --json "$TMP" | grep -E '^(MISSED|INVALID|FALSE_ALARM|SELFTEST)' | sed 's/^MISSED/SELFTEST-MISS/; s/^FALSE_ALARM/SELFTEST-FALSE-ALARM/'
fi
python3 scripts/seeds_regress_par.py -j 6 "$P-" > "$SEEDS" 2>&1
grep -E '^(MISSED|NOAPPLY|INVALID)' "$SEEDS" | sed 's/^/SELFTEST-SEED-/' | cut -c1-200
if ls benign_patches*/$P/*.diff >/dev/null 2>&1; then
  python3 scripts/patch_all.py -j 6 -props "$P" $(ls benign_patches*/$P/*.diff) > "$BEN" 2>&1
  grep -E '^REPORTS' "$BEN" | sed 's/^REPORTS/SELFTEST-BENIGN-REPORTED/'
fi
python3 - "$P" "$TMP" "$SEEDS" "$BEN" <<'PY'
import json,sys,os,re
p,tmp,seeds,ben=sys.argv[1:5]
ev=json.load(open(f'evidence/{p}.json'))
cov=ev['coverage']
if os.path.getsize(tmp)>0:
    st=json.load(open(tmp))
    cov['selftest']=st['summary']
    cov['selftest_results']=[{k:r.get(k) for k in ('name','status','report','why')} for r in st['results']]
sl=[l.split(None,2) for l in open(seeds) if re.match(r'^(DETECTED|MISSED|NOAPPLY|INVALID)\s',l)]
cov['selftest_seeds']={'applied':len(sl),'detected':sum(1 for x in sl if x[0]=='DETECTED'),'not_detected':[x[1] for x in sl if x[0]!='DETECTED']}
if os.path.exists(ben) and os.path.getsize(ben)>0:
    bl=[l.split() for l in open(ben) if re.match(r'^(CLEAN|REPORTS|INVALID|NOAPPLY|UNSUPPORTED)\s',l)]
    cov['selftest_benign_patches']={'applied':len(bl),'clean':sum(1 for x in bl if x[0]=='CLEAN'),'reported':[x[1] for x in bl if x[0]=='REPORTS'],'skipped':[x[1] for x in bl if x[0] not in ('CLEAN','REPORTS')]}
json.dump(ev,open(f'evidence/{p}.json','w'),indent=1)
PY
rm -f "$TMP" "$SEEDS" "$BEN"
exit $rc
