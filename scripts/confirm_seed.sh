#!/bin/bash
# Confirms a seeded change in a scratch worktree: builds, demo fails with the change and passes without, existing tests of
# the given packages pass with the change. usage: confirm_seed.sh <worktree> <demo-pkg> <run-regex> <testify-m-or-empty> <pkgs-to-test...>
WT=$1; DEMOPKG=$2; RUN=$3; TM=$4; shift 4; PKGS="$@"
export GOFLAGS=-mod=mod GOPROXY=off GOSUMDB=off GOTOOLCHAIN=local; unset GOWORK
cd "$WT" || exit 2
git diff -- . ':(exclude)*_test.go' > /var/tmp/seed.$$.diff
[ -s /var/tmp/seed.$$.diff ] || { echo "NO SOURCE DIFF"; exit 2; }
echo "== build"; go build ./... || { echo "BUILD FAILED"; exit 1; }
TMARG=""; [ -n "$TM" ] && TMARG="-testify.m=$TM"
echo "== demo WITH change (must fail)"
go test -vet=off -count=1 $DEMOPKG -run "$RUN" $TMARG > /var/tmp/seed.$$.with.log 2>&1; W=$?
tail -5 /var/tmp/seed.$$.with.log
echo "== demo WITHOUT change (must pass)"
git apply -R /var/tmp/seed.$$.diff || { echo "cannot revert"; exit 2; }
go test -vet=off -count=1 $DEMOPKG -run "$RUN" $TMARG > /var/tmp/seed.$$.without.log 2>&1; WO=$?
tail -3 /var/tmp/seed.$$.without.log
git apply /var/tmp/seed.$$.diff || { echo "cannot re-apply"; exit 2; }
echo "== existing tests WITH change (demo moved aside)"
DEMOS=$(git ls-files --others --exclude-standard | grep zz_seeded_demo_test.go)
for d in $DEMOS; do mv $d $d.aside; done
go test -vet=off -count=1 $PKGS > /var/tmp/seed.$$.suite.log 2>&1; S=$?
for d in $DEMOS; do mv $d.aside $d; done
grep -v "no test files" /var/tmp/seed.$$.suite.log | tail -8
echo "RESULT with_change_demo_rc=$W without_change_demo_rc=$WO suite_rc=$S"
rm -f /var/tmp/seed.$$.*
[ $W -ne 0 ] && [ $WO -eq 0 ] && [ $S -eq 0 ] && echo CONFIRMED || echo NOT-CONFIRMED
