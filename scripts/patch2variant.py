#!/usr/bin/env python3
"""Turns a seed patch into a variant file (whole-file edits). usage: patch2variant.py <patch> <out.json> <expect_rule> <expect_construct> <note> [fix 'a=>b' ...]"""
import json, os, re, shutil, subprocess, sys, tempfile
patch, out, rule, construct, note = sys.argv[1:6]
fixes = [f.split("=>", 1) for f in sys.argv[6:]]
txt = open(patch).read()
files = re.findall(r'^\+\+\+ b/(.*)$', txt, re.M)
tmp = tempfile.mkdtemp(dir='/var/tmp')
for f in files:
    os.makedirs(os.path.dirname(tmp + '/' + f), exist_ok=True)
    shutil.copy('/repo/' + f, tmp + '/' + f)
subprocess.run(['patch', '-p1', '-s', '-d', tmp, '-i', patch], check=True)
edits = []
for f in files:
    s = open(tmp + '/' + f).read()
    for a, b in fixes:
        s = s.replace(a.encode().decode('unicode_escape'), b.encode().decode('unicode_escape'))
    edits.append({"file": f, "old": open('/repo/' + f).read(), "new": s})
shutil.rmtree(tmp)
v = {"edits": edits, "note": note}
if rule == "clean":
    v["expect"] = "clean"; v["props"] = construct.split(",")
else:
    v["expect_rule"] = rule; v["expect_construct"] = construct
json.dump(v, open(out, 'w'), indent=1)
