#!/bin/bash
# Regression over the archived independent seeds: applies each /verif/seeded/<id>/patch.diff to /repo (reverted right
# after), runs the property's check (plus extra properties given in meta "also") and prints DETECTED / MISSED.
# /repo must be clean. Never run concurrently with another check.
cd /repo || exit 2
[ -z "$(git status --porcelain)" ] || { echo "/repo not clean"; exit 2; }
T=/var/tmp/seedreg.$$; mkdir -p $T; cp /verif/known_findings.jsonl /verif/properties.jsonl $T/
miss=0
for d in /verif/seeded/*/; do
  id=$(basename $d); prop=${id%-*}
  P=$d/patch.diff
  # a seed whose lines were later touched by a fix commit carries a hand-rebased copy of the same edit
  if ! git apply --check $P 2>/dev/null && [ -f $d/patch.rebased.diff ]; then P=$d/patch.rebased.diff; fi
  if ! git apply --check $P 2>/dev/null; then echo "NOAPPLY   $id"; miss=$((miss+1)); continue; fi
  git apply $P
  # dependencies type-checked from source: nothing downstream of the edit is compiled into the build cache (12-25 s per seed)
  out=$(FXCHECK_SRCDEPS=1 /verif/bin/fxcheck -prop $prop -verif $T 2>&1); rc=$?
  git checkout -- . 
  if [ $rc -eq 1 ] && echo "$out" | grep -q "^REPORT "; then echo "DETECTED  $id $(echo "$out" | grep '^REPORT ' | head -1 | cut -c1-220)"; else echo "MISSED    $id rc=$rc"; miss=$((miss+1)); fi
done
rm -rf $T
[ -z "$(git status --porcelain)" ] || echo "WARNING: /repo left dirty"
exit $miss
