#!/usr/bin/env python3
"""Runs one variant against one property and prints the full REPORT lines. usage: show_variant.py <variant.json> <prop>"""
import json, os, subprocess, sys, tempfile, shutil
v = json.load(open(sys.argv[1])); prop = sys.argv[2]
edits = v.get("edits") or [{"file": v["file"], "old": v["old"], "new": v["new"]}]
tmp = tempfile.mkdtemp(prefix="fxvar-", dir="/var/tmp")
try:
    contents = {}
    for ed in edits:
        fp = os.path.join("/repo", ed["file"]); src = contents.get(fp) or open(fp).read()
        assert src.count(ed["old"]) >= 1, ed["old"][:80]
        contents[fp] = src.replace(ed["old"], ed["new"])
    ov = []
    for i, (fp, src) in enumerate(contents.items()):
        rp = os.path.join(tmp, "ov%d.go" % i); open(rp, "w").write(src); ov.append(fp + "=" + rp)
    vdir = os.path.join(tmp, "verif"); os.makedirs(os.path.join(vdir, "evidence"))
    for f in ("known_findings.jsonl", "properties.jsonl"): shutil.copy("/verif/" + f, vdir)
    p = subprocess.run(["/verif/bin/fxcheck", "-prop", prop, "-verif", vdir] + sys.argv[3:], env=dict(os.environ, FXCHECK_OVERLAY=",".join(ov)), capture_output=True, text=True)
    for l in (p.stdout + p.stderr).splitlines():
        if l.startswith(("REPORT", "SUMMARY", "LOAD", "panic")): print(l)
finally:
    shutil.rmtree(tmp, ignore_errors=True)
